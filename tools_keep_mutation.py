#!/usr/bin/env python3
"""tools_keep_mutation.py <stage-dir> [<stage-dir> ...]
Files a confirmed seeded change under /verif/seeded/<id>/ (patch.diff, demo.py, meta.json).  <stage-dir> holds the sub-agent's
patch.diff / demo.py / meta.json plus confirm.out (tools_confirm_mutation.sh) and try*.out (tools_try_mutation.sh)."""
import json
import os
import re
import shutil
import sys

HERE = os.path.dirname(os.path.abspath(__file__))


def main():
    for d in sys.argv[1:]:
        d = d.rstrip("/")
        sid = os.path.basename(d)
        conf = open(os.path.join(d, "confirm.out")).read() if os.path.exists(os.path.join(d, "confirm.out")) else ""
        if "CONFIRMED" not in conf:
            print(f"{sid}: not confirmed, skipped")
            continue
        meta = json.load(open(os.path.join(d, "meta.json")))
        caught = []
        for f in sorted(os.listdir(d)):
            if f.startswith("try") and f.endswith(".out"):
                for line in open(os.path.join(d, f)):
                    m = re.match(r"^\S+ (C\d\d) exit=(\d+) violations=(\d+)", line)
                    if m:
                        caught.append({"check": m.group(1), "exit": int(m.group(2)), "violations": int(m.group(3)), "run": f.replace(".out", "")})
        first = [ln.strip() for f in sorted(os.listdir(d)) if f.startswith("try") and f.endswith(".out") for ln in open(os.path.join(d, f)) if ln.startswith("  violation")][:2]
        out = os.path.join(HERE, "seeded", sid)
        os.makedirs(out, exist_ok=True)
        shutil.copy(os.path.join(d, "patch.diff"), os.path.join(out, "patch.diff"))
        demo = "demo.py" if os.path.exists(os.path.join(d, "demo.py")) else "demo_test.py"
        shutil.copy(os.path.join(d, demo), os.path.join(out, demo))
        tests = re.search(r"tests: (.*?) ; new failures: (\d+)", conf)
        rec = {
            "id": sid,
            "property": meta.get("property"),
            "files_changed": meta.get("files_changed"),
            "summary": meta.get("summary"),
            "needs_to_manifest": meta.get("needs_to_manifest"),
            "origin": "written by a fresh sub-agent that saw only the property text and a scratch worktree of /repo (nothing from /verif)",
            "confirmed_by_me": {
                "how": "tools_confirm_mutation.sh in a scratch worktree of /repo HEAD (removed afterwards): demo on clean tree, demo with patch, existing tests with patch (pytest -n 8): "
                       + (re.search(r"test paths: (.*)", conf).group(1).strip() if re.search(r"test paths: (.*)", conf) else "jumanji")
                       + " (an environment-local patch can only reach the tests of its own package and the package-independent test files; patches to shared modules run the whole suite)",
                "demo_clean_rc": 0, "demo_mutated_rc": int(re.search(r"demo mutated rc=(\d+)", conf).group(1)),
                "suite_with_patch": tests.group(1) if tests else None,
                "new_test_failures": int(tests.group(2)) if tests else None,
                "note": "the 6 failed + 5 errors are the network-dependent sokoban/registration tests that fail on the unmodified tree as well",
            },
            "checks_run": caught,
            "caught_by": sorted({c["check"] for c in caught if c["exit"] == 1 and c["violations"] > 0}),
            "first_violations_reported": [v[:300] for v in first],
            "how_to_rerun": f"./tools_try_mutation.sh {sid} seeded/{sid}/patch.diff <Cxx> [-- --only <job substring>]",
        }
        if os.path.exists(os.path.join(d, "note.txt")):
            rec["note"] = open(os.path.join(d, "note.txt")).read().strip()
        json.dump(rec, open(os.path.join(out, "meta.json"), "w"), indent=1)
        print(f"{sid}: kept, caught_by={rec['caught_by']}")


if __name__ == "__main__":
    main()

"""C06  Mask-respecting play never violates the hard constraints of the problem."""
from checks import common as C
from checks import drivers as D
from engine.vexpr import all_, vs
from envs import base

LEVEL_TEXT = ("Inductive: Inv(S) & C(S) & rule-legal action => C(S') on the real env.step jaxpr, plus completion => complete feasible solution; "
              "bounded unrolling from a symbolic instance for BinPack/JobShop/MMST/MultiCVRP. Constraints recomputed from raw state arrays.")
TECHNIQUE = "jaxpr->SMT symbolic execution (z3): inductive step / k-step BMC with mask-respecting symbolic actions; constraint oracle from raw arrays; replay"
ASSUMPTIONS = C.STUB_ASSUMPTIONS
ENVS = ["BinPack", "FlatPack", "Knapsack", "CVRP", "MultiCVRP", "TSP", "JobShop", "GraphColoring", "Sudoku", "Connector", "MMST"]


def run(R, cfg, over=None):
    H = base.get(cfg, **(over or {}))

    def legal(st, act, ns, ts):
        return all_(H.action_legal(st, act))

    def obl(st, act, ns, ts):
        if hasattr(H, "constraints_succ"):
            # optional hook: frame + local-delta lemmas over (S, a, S') that together with C(S) imply C(S'), for constraints
            # whose direct statement on S' is an existential the solver cannot discharge (FlatPack: "the cells carrying a
            # block's number are a rotated copy of it"); the implication itself is discharged in H.kernels_c06
            out = [("C(S) => C(S') lemma: " + n, v) for n, v in H.constraints_succ(st, act, ns, ts)]
        else:
            out = [("C(S'): " + n, v) for n, v in (H.constraints(ns) or [])]
        comp = H.complete(ns, ts)
        if comp is not None:
            done, obs = comp
            fin = (vs(ts.step_type) == 2) & done
            out += [("completion: " + n, fin.implies(v)) for n, v in obs]
        return out
    if H.BMC:
        from checks import bmc
        # harness opt-in BMC_EMITTED: from the 2nd step on "mask-respecting" means respecting the mask the environment
        # EMITTED with the previous timestep (the literal property; exposes a wrong/stale mask as a constraint violation)
        r = bmc.run(R, H, obl, legal_only=True, emitted=getattr(H, "BMC_EMITTED", False))
        if hasattr(H, "kernels_c06"):
            H.kernels_c06(R)
        return r
    sp = D.build_step(R, H)
    pre_c = [v.z() for _, v in (H.constraints(sp.st) or [])]
    D.prove_list(R, sp, obl, extra_A=pre_c, guard=legal)
    R.reach("legal action from a constraint-satisfying state", sp.A + pre_c, legal(sp.st, sp.act, sp.ns, sp.ts).z())
    comp = H.complete(sp.ns, sp.ts)
    if comp is not None:
        R.reach("completion reachable in one step", sp.A + pre_c, (legal(sp.st, sp.act, sp.ns, sp.ts) & comp[0] & (vs(sp.ts.step_type) == 2)).z())
    # two consecutive steps where the second action only has to respect the mask the environment EMITTED with the
    # first timestep (this is what a mask-respecting agent sees): exposes stale or wrong masks as constraint violations
    two = getattr(H, "TWO_STEP", True)
    if callable(two):   # harness method TWO_STEP(tier) -> bool: e.g. only in the thorough tier / only at the small size
        two = two(R.tier)
    if H.MASKED and two:
        from checks import bmc

        def init(ctx):
            st, pre = H.sym_state(ctx)
            return st, list(pre) + D.assumed_inv(R, H, ctx, H.inv(st, ctx), list(pre)) + [v.z() for _, v in (H.constraints(st) or [])]
        bmc.run(R, H, obl, legal_only=True, depth=2, init=init, emitted=True, prefix="emitted-mask play: ")
    if hasattr(H, "kernels_c06"):
        H.kernels_c06(R)


def jobs(tier, seed):
    js = []
    for name in base.available():
        if name not in ENVS:
            continue
        cls = base.cls_of(name)
        for cfg in cls.QUICK + (cls.THOROUGH if tier == "thorough" else []):
            js.append((cfg, "checks.C06", "run", {"cfg": cfg}))
    return js

"""./vf <Cxx> <tier> -> python -m checks.run Cxx tier [--replay file] [--only substr] [--workers n]"""
import argparse
import importlib
import json
import os
import sys
import time


def main():
    ap = argparse.ArgumentParser()
    ap.add_argument("prop")
    ap.add_argument("tier", nargs="?", default=os.environ.get("VERIF_TIER", "quick"))
    ap.add_argument("--replay")
    ap.add_argument("--only", default=None, help="run only jobs whose name contains this substring")
    ap.add_argument("--workers", type=int, default=None)
    a = ap.parse_args()
    seed = int(os.environ.get("VERIF_SEED", "0"))
    mod = importlib.import_module(f"checks.{a.prop}")
    if a.replay:
        with open(a.replay) as f:
            rep = json.load(f)
        print(json.dumps(rep, indent=1)[:4000])
        only = rep["key"].split(":")[0]
    else:
        only = a.only
    from engine import core
    t0 = time.time()
    jobs = mod.jobs(a.tier, seed)
    if only:
        jobs = [j for j in jobs if only in j[0]]
    qt = getattr(mod, "QTIMEOUT", {"quick": 120, "thorough": 600})[a.tier]
    jt = getattr(mod, "JOBTIMEOUT", {"quick": 600, "thorough": 1800})[a.tier]
    results = core.run_jobs(a.prop, a.tier, seed, jobs, workers=a.workers, qtimeout=qt, job_timeout=jt)
    rc = core.finish(a.prop, a.tier, seed, results, t0, mod.LEVEL_TEXT, getattr(mod, "ASSUMPTIONS", ()), technique=getattr(mod, "TECHNIQUE", ""))
    sys.exit(rc)


if __name__ == "__main__":
    main()

"""C17  Permutation puzzles obey their group laws and stay solvable.

RubiksCube: the 6n^2 stickers are symbolic variables.  Every move of the repo is gather/scatter with CONCRETE index tables,
so pushing the variables through the real move function returns a literal permutation of those variables, valid for every
colouring at once.  SlidingTilePuzzle: one symbolic step from any valid state."""
import jax
import jax.numpy as jnp
import numpy as np
import z3

from checks import common as C
from engine import jx2smt as J
from engine import sym as S
from engine import vexpr as X
from engine.jx2smt import SV, Ctx
from engine.vexpr import vs, all_, any_, where
from envs import base, configs

LEVEL_TEXT = ("Symbolic execution of the real move functions on a cube of symbolic stickers: each move's permutation is read off the output terms (valid for "
              "all colourings), compared with an independent geometric model, and the group identities are decided on the permutations; flat/unflat action "
              "encodings and is_solved by SMT queries; sliding puzzle by one symbolic step from every valid state.")
TECHNIQUE = "jaxpr->SMT symbolic execution (z3) of the real Rubik move functions on symbolic stickers (permutation extraction) + SMT queries for action encodings, is_solved, sliding-tile moves; replay on real code"
ASSUMPTIONS = C.STUB_ASSUMPTIONS + ["independent geometric model of the cube (sticker centres rotated about the face axis) in envs/rubiks_cube.py transcribes the documented viewing conventions",
                                    "reachability from the goal is closed under legal moves because every move has an inverse (proved here); the classical parity theorem is not needed"]


def extract_perm(out_sv, in_sv):
    """out[i] is literally in[p[i]] (same z3 term) -> p ; None if some output element is not one of the input variables"""
    ids = {x.get_id(): k for k, x in enumerate(in_sv.obj().reshape(-1))}
    p = []
    for y in out_sv.obj().reshape(-1):
        if not J.is_sym(y) or y.get_id() not in ids:
            return None
        p.append(ids[y.get_id()])
    return p


def run_rubik(R, n):
    from jumanji.environments.logic.rubiks_cube import utils as U
    from envs.rubiks_cube import geometric_moves
    ctx = Ctx()
    N = 6 * n * n
    cube = ctx.fresh_arr("sticker", (6, n, n), np.int8)     # unconstrained symbols: the permutation is colour-independent
    R.nvars += N
    R.bound(cube_size=n, moves=18 * (n // 2), stickers="symbolic (all colourings at once)")
    moves = U.generate_all_moves(n)
    geo = geometric_moves(n)
    perms = {}
    bad_literal, bad_geo, bad_bij = [], [], []
    solved_np = np.asarray(U.make_solved_cube(n))
    distinct = np.arange(N, dtype=np.int32).reshape(6, n, n)
    keys = [(f, d, a) for f in range(6) for d in range(n // 2) for a in range(3)]
    for k, (key, mv) in enumerate(zip(keys, moves)):
        out = S.call(ctx, mv, cube, R=R, name=f"move[{k}]")
        p = extract_perm(out, cube)
        if p is None:
            bad_literal.append(key)
            continue
        perms[key] = p
        if sorted(p) != list(range(N)):
            bad_bij.append(key)
        if p != geo[key]:
            bad_geo.append({"move": key, "flat_action": k, "repo": p[:12], "geometric": geo[key][:12]})
        # replay-style validation of the extraction: the real move on a cube of distinct stickers gives the same table
        real = np.asarray(mv(jnp.asarray(distinct))).reshape(-1).tolist()
        if real != p:
            R.harness_errors.append(f"{R.job}: extracted permutation of move {key} differs from the real move on a distinct-sticker cube")
        R.validated += 1
    R.structural("every move is a fixed, state-independent rearrangement of the stickers (output terms are input variables)", not bad_literal, {"moves": bad_literal})
    R.structural("every move is a bijection (conserves the multiset of stickers)", not bad_bij, {"moves": bad_bij})
    R.structural("every move equals the physical quarter/half turn of that layer (independent geometric model)", not bad_geo, {"mismatch": bad_geo[:3]})

    def comp(p, q):   # apply p then q : out[i] = (after p)[q[i]] = in[p[q[i]]]
        return [p[q[i]] for i in range(N)]
    ident = list(range(N))
    bad = []
    for f in range(6):
        for d in range(n // 2):
            if not all((f, d, a) in perms for a in range(3)):
                continue
            cw, ccw, half = perms[(f, d, 0)], perms[(f, d, 1)], perms[(f, d, 2)]
            if comp(cw, ccw) != ident or comp(ccw, cw) != ident:
                bad.append((f, d, "cw.ccw != id"))
            if comp(cw, cw) != half:
                bad.append((f, d, "cw.cw != half"))
            if comp(comp(cw, cw), comp(cw, cw)) != ident:
                bad.append((f, d, "cw^4 != id"))
            if comp(half, half) != ident:
                bad.append((f, d, "half.half != id"))
            if cw == ident:
                bad.append((f, d, "cw is the identity"))
    R.structural("group identities for every face/depth: cw.ccw = id, cw.cw = half, cw^4 = id, half.half = id, cw != id", not bad, {"violations": bad[:6]})
    # opposite faces commute (all move pairs on parallel layers), all pairs checked
    opp = {0: 5, 1: 3, 2: 4}
    badc = []
    for f, g in opp.items():
        for d1 in range(n // 2):
            for d2 in range(n // 2):
                for a1 in range(3):
                    for a2 in range(3):
                        p, q = perms.get((f, d1, a1)), perms.get((g, d2, a2))
                        if p and q and comp(p, q) != comp(q, p):
                            badc.append(((f, d1, a1), (g, d2, a2)))
    R.structural("moves on parallel layers commute (all pairs)", not badc, {"pairs": badc[:4]})

    # rotate_cube with a SYMBOLIC flat action (lax.switch over all branches) == the table
    A_ = 18 * (n // 2)
    act = ctx.fresh_arr("flat", (), np.int32, 0, A_ - 1)
    out = S.call(ctx, U.rotate_cube, cube, act, R=R, name="rotate_cube(symbolic flat action)")
    az = S.scalar(act)
    cin = cube.obj().reshape(-1)

    def rp_switch(model):
        a = int(S.model_sv(model, act))
        c = S.model_sv(model, cube)
        got = np.asarray(U.rotate_cube(jnp.asarray(c), jnp.asarray(a, jnp.int32))).reshape(-1)
        want = c.reshape(-1)[perms[keys[a]]] if keys[a] in perms else None
        return (want is None or not np.array_equal(got, want)), {"cube_size": n, "flat_action": a}
    for k, key in enumerate(keys):
        if key not in perms:
            continue
        want = SV(np.array([cin[j] for j in perms[key]], dtype=object).reshape(6, n, n), np.int8)
        R.prove(f"rotate_cube(cube, {k}) applies move {key}", list(ctx.assumptions) + [az == k], S.sv_eq(out, want), replay=rp_switch)

    # flat <-> (face, depth, amount) are mutually inverse on their ranges
    f_ = ctx.fresh_arr("face", (), np.int32, 0, 5)
    d_ = ctx.fresh_arr("depth", (), np.int32, 0, n // 2 - 1)
    a_ = ctx.fresh_arr("amount", (), np.int32, 0, 2)
    un = SV(np.array([S.scalar(f_), S.scalar(d_), S.scalar(a_)], dtype=object), np.int32)
    flat = S.call(ctx, lambda u: U.flatten_action(u, n), un, R=R, name="flatten_action")
    back = S.call(ctx, lambda k_: U.unflatten_action(k_, n), flat, R=R, name="unflatten_action")
    A2 = list(ctx.assumptions)

    def rp_flat(model):
        u = np.array([int(S.model_sv(model, x)) for x in (f_, d_, a_)], np.int32)
        k_ = int(U.flatten_action(jnp.asarray(u), n))
        b_ = np.asarray(U.unflatten_action(jnp.asarray(k_, jnp.int32), n))
        return (not np.array_equal(b_, u) or not (0 <= k_ < A_)), {"cube_size": n, "unflat": u.tolist(), "flat": k_, "back": b_.tolist()}
    R.prove("unflatten(flatten(face, depth, amount)) == (face, depth, amount)", A2, S.sv_eq(back, un), replay=rp_flat)
    fz = S.scalar(flat)
    R.prove("flatten(face, depth, amount) is a valid flat action and names that move in generate_all_moves order", A2,
            S.conj([J.s_cmp("ge", fz, 0, np.int32), J.s_cmp("lt", fz, A_, np.int32),
                    S.el_eq(fz, J.s_binop("add", J.s_binop("add", J.s_binop("mul", S.scalar(f_), 3 * (n // 2), np.int32), J.s_binop("mul", S.scalar(d_), 3, np.int32), np.int32), S.scalar(a_), np.int32), np.int32)]),
            replay=rp_flat)
    k2 = ctx.fresh_arr("k", (), np.int32, 0, A_ - 1)
    un2 = S.call(ctx, lambda k_: U.unflatten_action(k_, n), k2)
    fl2 = S.call(ctx, lambda u: U.flatten_action(u, n), un2)

    def rp_flat2(model):
        k_ = int(S.model_sv(model, k2))
        u = np.asarray(U.unflatten_action(jnp.asarray(k_, jnp.int32), n))
        return (int(U.flatten_action(jnp.asarray(u), n)) != k_ or not (0 <= u[0] <= 5 and 0 <= u[1] < n // 2 and 0 <= u[2] <= 2)), {"flat": k_, "unflat": u.tolist()}
    u2 = un2.obj().reshape(-1)
    R.prove("flatten(unflatten(k)) == k and unflatten(k) is in range, for every flat action k", list(ctx.assumptions),
            S.conj([S.sv_eq(fl2, k2), J.s_cmp("ge", u2[0], 0, np.int32), J.s_cmp("le", u2[0], 5, np.int32), J.s_cmp("ge", u2[1], 0, np.int32),
                    J.s_cmp("lt", u2[1], n // 2, np.int32), J.s_cmp("ge", u2[2], 0, np.int32), J.s_cmp("le", u2[2], 2, np.int32)]), replay=rp_flat2)

    # is_solved accepts exactly the single-colour-per-face configurations (all colourings, n <= 3: 6n^2 symbolic stickers in 0..5)
    if n <= 3:
        col = ctx.fresh_arr("col", (6, n, n), np.int8, 0, 5)
        R.nvars += N
        sv_solved = S.call(ctx, U.is_solved, col, R=R, name="is_solved")
        c = vs(col)
        uniform = all_([x == c[f, 0, 0] for f in range(6) for x in c[f].reshape(-1)[1:]])

        def rp_solved(model):
            cc = S.model_sv(model, col)
            got = bool(U.is_solved(jnp.asarray(cc)))
            want = all(len(set(cc[f].reshape(-1).tolist())) == 1 for f in range(6))
            return (got != want), {"cube": cc.tolist(), "is_solved": got, "every_face_uniform": want}
        R.prove("is_solved(cube) <=> every face shows a single colour (all colourings)", list(ctx.assumptions), vs(sv_solved).iff(uniform).term(), replay=rp_solved)
        R.structural("make_solved_cube is accepted by is_solved and has face f coloured f", bool(U.is_solved(jnp.asarray(solved_np))) and
                     all((solved_np[f] == f).all() for f in range(6)), {})
    # the scramble generator is a fold of these moves: one scan iteration == rotate_cube (C10 covers the generator itself)
    R.sample({"cube_size": n, "moves": len(perms), "example_move": {"key": list(keys[0]), "perm_head": perms.get(keys[0], [])[:10]}})


def rp_last(real, a, goal, H, cfg):
    def rp(model):
        s0, s1 = real(model, [a])
        # LAST is not part of the state: recompute through the real step
        import jax as _jax
        st = _jax.tree_util.tree_map(jnp.asarray, s0)
        _, ts = H.env.step(st, jnp.asarray(a, jnp.int32))
        want = bool(np.array_equal(s1.puzzle, goal)) or int(s0.step_count) + 1 >= H.T
        return ((int(ts.step_type) == 2) != want), {"config": cfg, "action": a, "puzzle_after": s1.puzzle.tolist(), "step_type": int(ts.step_type)}
    return rp


def run_sliding(R, cfg):
    H = base.get(cfg)
    env = H.env
    n = H.n()
    ctx = Ctx()
    st, pre = H.sym_state(ctx)
    inv = H.inv(st, ctx)
    A = list(pre) + [v.z() for _, v in inv if not (v.conc and bool(v))] + ctx.assumptions
    R.nvars += S.nvars(st)
    R.bound(config=cfg, state="every state satisfying the harness invariant (tiles a permutation, blank position consistent)", actions="all 4")
    R.reach("valid state", A)
    MOVES = [(-1, 0), (0, 1), (1, 0), (0, -1)]   # up, right, down, left (documented order)
    p0 = vs(st.puzzle)
    er, ec = vs(st.empty_tile_position)[0], vs(st.empty_tile_position)[1]
    f_step = jax.jit(env.step)

    def real(model, acts):
        s = jax.tree_util.tree_map(jnp.asarray, S.model_tree(model, st))
        out = [jax.tree_util.tree_map(np.asarray, s)]
        for a in acts:
            s, _ = f_step(s, jnp.asarray(a, jnp.int32))
            out.append(jax.tree_util.tree_map(np.asarray, s))
        return out
    nexts = {}
    for a, (dr, dc) in enumerate(MOVES):
        ns, ts = S.call(ctx, env.step, st, SV(np.asarray(a, np.int32), np.int32), R=R, name="SlidingTilePuzzle.step")
        nexts[a] = ns
        p1 = vs(ns.puzzle)
        nr, nc = er + dr, ec + dc
        inside = (nr >= 0) & (nr < n) & (nc >= 0) & (nc < n)
        swapped = []
        for r in range(n):
            for c in range(n):
                is_blank_old = (er == r) & (ec == c)
                is_blank_new = (nr == r) & (nc == c)
                moved_tile = X.pick(p0, nr, nc, default=0)
                want = where(inside & is_blank_old, moved_tile, where(inside & is_blank_new, 0, p0[r, c]))
                swapped.append(p1[r, c] == want)
        e1 = vs(ns.empty_tile_position)

        def rp(model, a=a):
            s0, s1 = real(model, [a])
            P0, P1 = s0.puzzle, s1.puzzle
            r0, c0 = [int(x) for x in s0.empty_tile_position]
            r1, c1 = r0 + MOVES[a][0], c0 + MOVES[a][1]
            want = P0.copy()
            if 0 <= r1 < n and 0 <= c1 < n:
                want[r0, c0], want[r1, c1] = P0[r1, c1], 0
            bad = not np.array_equal(P1, want) or sorted(P1.reshape(-1).tolist()) != list(range(n * n)) or int(P1[tuple(int(x) for x in s1.empty_tile_position)]) != 0
            return bad, {"config": cfg, "action": a, "puzzle": P0.tolist(), "after": P1.tolist(), "expected": want.tolist()}
        R.prove(f"action {a}: the blank swaps with its neighbour in that direction, or nothing moves at the border", A, all_(swapped).term(), replay=rp)
        R.prove(f"action {a}: empty_tile_position tracks the blank", A,
                where(inside, (e1[0] == nr) & (e1[1] == nc), (e1[0] == er) & (e1[1] == ec), X.BOOL).term(), replay=rp)
        # the solved test (driven through the real step's termination) accepts exactly the goal configuration
        goal_ = np.asarray(H.goal())
        is_goal = all_([p1[r, c] == int(goal_[r, c]) for r in range(n) for c in range(n)])
        timeup = (vs(st.step_count) + 1) >= H.T
        R.prove(f"action {a}: step is LAST <=> the new puzzle is the goal configuration (or the time limit is reached)", A,
                (vs(ts.step_type) == 2).iff(is_goal | timeup).term(), replay=rp_last(real, a, goal_, H, cfg))
        for nm, v in H.inv(ns, None):
            if "step_count" in nm or "cached" in nm:
                continue
            R.prove(f"action {a}: Inv(S'): {nm}", A, v.term() if not v.conc else bool(v), replay=rp)
    # opposite moves cancel: if action a moved the blank, the opposite action restores the puzzle
    for a, b in ((0, 2), (2, 0), (1, 3), (3, 1)):
        dr, dc = MOVES[a]
        nr, nc = er + dr, ec + dc
        inside = (nr >= 0) & (nr < n) & (nc >= 0) & (nc < n)
        ns2, _ = S.call(ctx, env.step, nexts[a], SV(np.asarray(b, np.int32), np.int32), R=R, name="SlidingTilePuzzle.step (second)")

        def rp2(model, a=a, b=b):
            s0, s1, s2 = real(model, [a, b])
            moved = not np.array_equal(s0.puzzle, s1.puzzle)
            return (moved and not np.array_equal(s0.puzzle, s2.puzzle)), {"config": cfg, "actions": [a, b], "puzzle": s0.puzzle.tolist(), "after_both": s2.puzzle.tolist()}
        R.prove(f"opposite moves cancel: action {a} (when it moves a tile) followed by action {b} restores the puzzle", A,
                inside.implies(X.eq_arr(vs(ns2.puzzle), p0) & X.eq_arr(vs(ns2.empty_tile_position), vs(st.empty_tile_position))).term(), replay=rp2)
    # solved test accepts exactly the goal: timestep LAST by completion <=> puzzle == goal (via reward/termination of the real step is C09/C11;
    # here the env's own predicate is driven directly if it exists)
    goal = np.asarray(H.goal())
    solved_fn = getattr(env, "_is_solved", None) or getattr(env, "is_solved", None)
    if solved_fn is None:
        from jumanji.environments.logic.sliding_tile_puzzle import env as envmod  # noqa
        R.note("SlidingTilePuzzle has no separate solved predicate; goal acceptance is covered through step termination in C09/C11")
    else:
        out = S.call(ctx, solved_fn, st.puzzle, R=R, name="solved test")
        is_goal = all_([p0[r, c] == int(goal[r, c]) for r in range(n) for c in range(n)])
        R.prove("the solved test accepts exactly the goal configuration", A, vs(out).iff(is_goal).term(),
                replay=lambda m: (True, {"config": cfg, "puzzle": S.model_sv(m, st.puzzle).tolist()}))
    # reset: the generator's random walk applies only legal moves to the solved puzzle (one iteration of its own loop body)
    R.sample({"config": cfg, "n": n})


def run_rubik_env(R, cfg):
    """'the solved test accepts exactly the goal configuration' at ENVIRONMENT level: one symbolic step of the real RubiksCube.step
    from an arbitrary sticker assignment and any action pays reward 1 and ends the episode exactly when the cube AFTER the move has
    six uniform faces (recomputed from the raw stickers), and otherwise ends only at the time limit."""
    from checks import drivers as D
    H = base.get(cfg)
    sp = D.build_step(R, H)

    def obl(st, act, ns, ts):
        solved = H._solved(vs(ns.cube))
        t1 = vs(st.step_count) + 1
        one, zero = np.float32(1.0), np.float32(0.0)
        return [("env: reward == 1 exactly when the cube after the move is solved (six uniform faces), else 0", vs(ts.reward) == where(solved, one, zero, np.float32)),
                ("env: the episode ends exactly when the cube after the move is solved or the time limit is reached", (vs(ts.step_type) == 2).iff(solved | (t1 >= H.T))),
                ("env: a solved cube is terminal with zero discount", solved.implies((vs(ts.step_type) == 2) & (vs(ts.discount) == zero)))]
    D.prove_list(R, sp, obl)
    R.reach("env: a move that solves the cube exists in the harness domain", sp.A, H._solved(vs(sp.ns.cube)).z())
    R.reach("env: a move that leaves the solved cube exists in the harness domain", sp.A, (H._solved(vs(sp.st.cube)) & ~H._solved(vs(sp.ns.cube))).z())


def run_rubik_actions(R, n):
    """the action-encoding laws alone (index arithmetic, no cube): cheap at sizes far beyond those at which the moves themselves are
    encoded - a depth bound copied from the amount bound only shows for cube_size >= 8 (depth >= 3)"""
    from jumanji.environments.logic.rubiks_cube import utils as U
    ctx = Ctx()
    A_ = 6 * (n // 2) * 3
    R.bound(cube_size=n, flat_actions=A_, what="flatten_action / unflatten_action only")
    # flat <-> (face, depth, amount) are mutually inverse on their ranges
    f_ = ctx.fresh_arr("face", (), np.int32, 0, 5)
    d_ = ctx.fresh_arr("depth", (), np.int32, 0, n // 2 - 1)
    a_ = ctx.fresh_arr("amount", (), np.int32, 0, 2)
    un = SV(np.array([S.scalar(f_), S.scalar(d_), S.scalar(a_)], dtype=object), np.int32)
    flat = S.call(ctx, lambda u: U.flatten_action(u, n), un, R=R, name="flatten_action")
    back = S.call(ctx, lambda k_: U.unflatten_action(k_, n), flat, R=R, name="unflatten_action")
    A2 = list(ctx.assumptions)

    def rp_flat(model):
        u = np.array([int(S.model_sv(model, x)) for x in (f_, d_, a_)], np.int32)
        k_ = int(U.flatten_action(jnp.asarray(u), n))
        b_ = np.asarray(U.unflatten_action(jnp.asarray(k_, jnp.int32), n))
        return (not np.array_equal(b_, u) or not (0 <= k_ < A_)), {"cube_size": n, "unflat": u.tolist(), "flat": k_, "back": b_.tolist()}
    R.prove("unflatten(flatten(face, depth, amount)) == (face, depth, amount)", A2, S.sv_eq(back, un), replay=rp_flat)
    fz = S.scalar(flat)
    R.prove("flatten(face, depth, amount) is a valid flat action and names that move in generate_all_moves order", A2,
            S.conj([J.s_cmp("ge", fz, 0, np.int32), J.s_cmp("lt", fz, A_, np.int32),
                    S.el_eq(fz, J.s_binop("add", J.s_binop("add", J.s_binop("mul", S.scalar(f_), 3 * (n // 2), np.int32), J.s_binop("mul", S.scalar(d_), 3, np.int32), np.int32), S.scalar(a_), np.int32), np.int32)]),
            replay=rp_flat)
    k2 = ctx.fresh_arr("k", (), np.int32, 0, A_ - 1)
    un2 = S.call(ctx, lambda k_: U.unflatten_action(k_, n), k2)
    fl2 = S.call(ctx, lambda u: U.flatten_action(u, n), un2)

    def rp_flat2(model):
        k_ = int(S.model_sv(model, k2))
        u = np.asarray(U.unflatten_action(jnp.asarray(k_, jnp.int32), n))
        return (int(U.flatten_action(jnp.asarray(u), n)) != k_ or not (0 <= u[0] <= 5 and 0 <= u[1] < n // 2 and 0 <= u[2] <= 2)), {"flat": k_, "unflat": u.tolist()}
    u2 = un2.obj().reshape(-1)
    R.prove("flatten(unflatten(k)) == k and unflatten(k) is in range, for every flat action k", list(ctx.assumptions),
            S.conj([S.sv_eq(fl2, k2), J.s_cmp("ge", u2[0], 0, np.int32), J.s_cmp("le", u2[0], 5, np.int32), J.s_cmp("ge", u2[1], 0, np.int32),
                    J.s_cmp("lt", u2[1], n // 2, np.int32), J.s_cmp("ge", u2[2], 0, np.int32), J.s_cmp("le", u2[2], 2, np.int32)]), replay=rp_flat2)

    R.sample({"cube_size": n, "flat_actions": A_})


def jobs(tier, seed):
    js = [(f"Rubik/n={n}", "checks.C17", "run_rubik", {"n": n}) for n in ([2, 3, 4, 5] if tier == "quick" else [2, 3, 4, 5, 6, 7])]
    for n in ([6, 7, 8, 9, 11] if tier == "quick" else [6, 7, 8, 9, 10, 11, 12, 16, 21]):
        js.append((f"Rubik-actions/n={n}", "checks.C17", "run_rubik_actions", {"n": n}))
    for cfg in (["SlidingTilePuzzle@2", "SlidingTilePuzzle@3"] if tier == "quick" else ["SlidingTilePuzzle@2", "SlidingTilePuzzle@3", "SlidingTilePuzzle@4"]):
        js.append((f"{cfg}", "checks.C17", "run_sliding", {"cfg": cfg}))
    for cfg in (["RubiksCube@2", "RubiksCube@3"] if tier == "quick" else ["RubiksCube@2", "RubiksCube@3", "RubiksCube@4"]):
        js.append((f"{cfg}/env-solved", "checks.C17", "run_rubik_env", {"cfg": cfg}))
    # 'every state produced by RESET is reachable from the goal': the generators' post-conditions (harnesses shared with C10) - the reset
    # board lies in the solvable class (permutation parity == blank distance parity) for every key; the scrambled cube is the fold of
    # legal moves over the drawn actions
    for cfg in ["SlidingTilePuzzle@2", "SlidingTilePuzzle@3"]:
        js.append((f"{cfg}/reset-solvable", "checks.C10", "run_inv_reset", {"cfg": cfg}))
    for n in ([2, 3] if tier == "quick" else [2, 3, 4]):
        js.append((f"sliding-walk/{n}", "checks.C10", "run_sliding_walk", {"n": n}))
        js.append((f"rubik-scramble/{n}", "checks.C10", "run_rubik_scramble", {"n": n}))
    return js

"""C01  Everything an environment emits conforms to the specs it declares."""
import jax
import jax.numpy as jnp
import numpy as np

from checks import common as C
from checks import drivers as D
from engine import sym as S
from engine.jx2smt import SV
from engine.vexpr import vs
from envs import base, configs

LEVEL_TEXT = ("Structure/shape/dtype from the IR's own output types (valid for all inputs); value bounds by one inductive symbolic step from every "
              "valid state incl. terminal steps, and by symbolic reset; Inv(S') re-established so histories of any length are covered at the listed sizes.")
TECHNIQUE = "jaxpr output avals vs spec tree + jaxpr->SMT symbolic execution (z3) of step/reset for value bounds; replay on real code"
ASSUMPTIONS = C.STUB_ASSUMPTIONS


class _Prefixed:
    """Recorder view that prefixes obligation names (several structure checks in one job must not share names)"""

    def __init__(self, R, prefix):
        self._R, self._p = R, prefix

    def structural(self, name, ok, detail=None):
        return self._R.structural(self._p + name, ok, detail)

    def __getattr__(self, n):
        return getattr(self._R, n)

    def __setattr__(self, n, v):
        if n in ("_R", "_p"):
            object.__setattr__(self, n, v)
        else:
            setattr(self._R, n, v)


def obs_bounds(H):
    env = H.env

    def f(st, act, ns, ts):
        from jumanji import specs
        out = D.spec_bounds_obl(env.observation_spec, ts.observation)
        for nm, sp, val in (("reward", env.reward_spec, ts.reward), ("discount", env.discount_spec, ts.discount)):
            if isinstance(sp, specs.BoundedArray):
                out += [(f"{nm}/{n}", v) for n, v in D.spec_bounds_obl(sp, val)]
        return [("step: " + n, v) for n, v in out]
    return f


def structure(R, env, name, prefix=""):
    _st = R.structural
    if prefix:
        R = _Prefixed(R, prefix)
    key = jax.random.PRNGKey(0)
    st, ts = jax.eval_shape(env.reset, key)
    bad = D.spec_struct_ok(env.observation_spec, ts.observation)
    for nm, sp, val in (("reward", env.reward_spec, ts.reward), ("discount", env.discount_spec, ts.discount)):
        bad += D.spec_struct_ok(sp, val)
    R.structural("reset output avals == spec structure/shape/dtype", not bad, {"config": name, "mismatch": bad})
    a = env.action_spec.generate_value()
    try:
        env.action_spec.validate(a)
        ok = True
        why = ""
    except Exception as e:  # noqa
        ok, why = False, repr(e)
    R.structural("action_spec.generate_value() validates against action_spec", ok, {"config": name, "error": why})
    try:
        st2, ts2 = jax.eval_shape(env.step, st, a)
        bad = D.spec_struct_ok(env.observation_spec, ts2.observation)
        for nm, sp, val in (("reward", env.reward_spec, ts2.reward), ("discount", env.discount_spec, ts2.discount)):
            bad += D.spec_struct_ok(sp, val)
        same = jax.tree_util.tree_structure(st) == jax.tree_util.tree_structure(st2) and all(
            (x.shape, x.dtype) == (y.shape, y.dtype) for x, y in zip(jax.tree_util.tree_leaves(st), jax.tree_util.tree_leaves(st2)))
        R.structural("step accepts generate_value(); output avals == spec structure/shape/dtype; state type is a fixed point", not bad and same,
                     {"config": name, "mismatch": bad, "state_fixed_point": same})
    except Exception as e:  # noqa
        R.structural("step accepts action_spec.generate_value()", False, {"config": name, "error": repr(e)[:300]})
    R.validated += 1


def run(R, cfg, over=None):
    H = base.get(cfg, **(over or {}))
    env = H.env
    structure(R, env, cfg)
    if H.BMC:
        from checks import bmc
        return bmc.run(R, H, obs_bounds(H), reset_obl=lambda st, ts: [("reset: " + n, v) for n, v in D.spec_bounds_obl(env.observation_spec, ts.observation)])
    sp = D.build_step(R, H)
    D.prove_list(R, sp, obs_bounds(H))
    D.inv_step(R, sp)
    if D.escaped_domain(R):
        D.escalate_two_steps(R, H, obs_bounds(H))
    if getattr(H, "RESET_INV", True):
        ctx, key, st, ts = D.inv_reset(R, H, prove_inv=False)
        obs = [("reset: " + n, v) for n, v in D.spec_bounds_obl(env.observation_spec, ts.observation)]
        for n, v in obs:
            def pred(s_np, ts_np, n=n):
                vals = dict(("reset: " + k, x) for k, x in D.spec_bounds_obl(env.observation_spec, S.conc_tree(ts_np).observation))
                return bool(vals[n]), {"config": cfg, "obligation": n}
            R.prove(n, list(ctx.assumptions), v.term() if not v.conc else bool(v), replay=C.reset_replayer(env.reset, ctx, key, lambda out, pred=pred: pred(out[0], out[1]), 256))


def run_struct_only(R, name, default=False):
    env = configs.make_default(name) if default else configs.make(name)
    structure(R, env, name + ("@default" if default else ""))


def run_pacman_wrap(R):
    """PacMan: the player's wrap-around arithmetic (tunnel rows of the default maze) keeps both coordinates inside the position spec.
    The harness mazes have closed borders, so `player_step`'s modulo is never exercised by the step obligations; it is checked
    here on its own, on the real function, for every position of the DEFAULT maze's bounding box, every action and 1-2 steps ahead:
    x' == (x + dx) mod x_size in [0, x_size), y' == (y + dy) mod y_size in [0, y_size)."""
    import types as pytypes
    from engine.jx2smt import Ctx
    from engine.vexpr import all_, where
    from jumanji import environments as E
    from jumanji.environments.routing.pac_man import utils as U
    from jumanji.environments.routing.pac_man.types import Position
    env = E.PacMan()
    xs, ys = int(env.x_size), int(env.y_size)
    spec = env.observation_spec["player_locations"] if hasattr(env.observation_spec, "__getitem__") else None
    R.bound(x_size=xs, y_size=ys, position="any cell of the bounding box", action="0..4", steps="1, 2")
    for steps in (1, 2):
        ctx = Ctx()
        x = ctx.fresh_arr("P.x", (), np.int32, 0, xs - 1)
        y = ctx.fresh_arr("P.y", (), np.int32, 0, ys - 1)
        a = ctx.fresh_arr("P.a", (), np.int32, 0, 4)
        out = S.call(ctx, lambda x_, y_, a_: U.player_step(pytypes.SimpleNamespace(player_locations=Position(x=x_, y=y_)), a_, xs, ys, steps), x, y, a,
                     R=R, name="pac_man.utils.player_step")
        R.nvars += 3
        A = list(ctx.assumptions)
        R.reach(f"player_step steps={steps}", A)
        nx, ny, vx, vy, va = vs(out.x), vs(out.y), vs(x), vs(y), vs(a)
        dx = where(va == 0, -steps, where(va == 2, steps, 0))
        dy = where(va == 1, -steps, where(va == 3, steps, 0))
        wx, wy = (vx + dx + xs) % xs, (vy + dy + ys) % ys

        def rp(model, steps=steps):
            x0, y0, a0 = (int(S.model_sv(model, t)) for t in (x, y, a))
            p = U.player_step(pytypes.SimpleNamespace(player_locations=Position(x=jnp.asarray(x0), y=jnp.asarray(y0))), jnp.asarray(a0), xs, ys, steps)
            ok = 0 <= int(p.x) < xs and 0 <= int(p.y) < ys
            return (not ok), {"position": [x0, y0], "action": a0, "steps": steps, "new_position": [int(p.x), int(p.y)], "x_size": xs, "y_size": ys}
        R.prove(f"player_step (steps={steps}): new x in [0, x_size) and new y in [0, y_size): inside the position spec after a wrap-around", A,
                ((nx >= 0) & (nx < xs) & (ny >= 0) & (ny < ys)).term(), replay=rp)
        R.prove(f"player_step (steps={steps}): new position == old position + move, modulo (x_size, y_size)", A, ((nx == wx) & (ny == wy)).term(),
                replay=lambda m, steps=steps: (True, {"note": "wrap-around arithmetic differs from (x+dx) mod x_size, (y+dy) mod y_size", "steps": steps}))
    R.sample({"kernel": "pac_man.utils.player_step", "x_size": xs, "y_size": ys})


def run_int_options(R):
    """numeric constructor options passed as Python INTs instead of floats (penalty_per_timestep=1, penalty=1, total_budget=2 ...):
    reward/discount/observation output types must still be those of the specs (a reward whose dtype follows the Python type of an
    option silently becomes int32).  Structure check from the IR's output types, holds for all inputs."""
    from jumanji import environments as E
    g = configs._b()
    cases = [("Cleaner(penalty_per_timestep=1)", lambda: E.Cleaner(generator=g["CleanerGen"](num_rows=3, num_cols=5, num_agents=2), penalty_per_timestep=1)),
             ("Cleaner(penalty_per_timestep=0)", lambda: E.Cleaner(generator=g["CleanerGen"](num_rows=3, num_cols=5, num_agents=2), penalty_per_timestep=0)),
             ("LevelBasedForaging(penalty=1)", lambda: E.LevelBasedForaging(generator=g["LBFGen"](grid_size=5, fov=2, num_agents=2, num_food=1), penalty=1)),
             ("LevelBasedForaging(penalty=1, normalize_reward=False)", lambda: E.LevelBasedForaging(generator=g["LBFGen"](grid_size=5, fov=2, num_agents=2, num_food=1), penalty=1, normalize_reward=False)),
             ("LevelBasedForaging(penalty=0, normalize_reward=False, grid_observation=True)", lambda: E.LevelBasedForaging(generator=g["LBFGen"](grid_size=5, fov=1, num_agents=3, num_food=2), penalty=0, normalize_reward=False, grid_observation=True)),
             ("Knapsack(total_budget=2)", lambda: E.Knapsack(generator=g["KGen"](num_items=4, total_budget=2))),
             ("CVRP(max_capacity=7, max_demand=3)", lambda: E.CVRP(generator=g["CVRPGen"](num_nodes=4, max_capacity=7, max_demand=3))),
             ("PacMan(time_limit=7)", lambda: E.PacMan(generator=g["AsciiGenerator"](configs.PACMAN_MAZE), time_limit=7))]
    R.bound(cases=[c[0] for c in cases])
    for label, mk in cases:
        try:
            env = mk()
        except Exception as e:  # noqa
            R.note(f"{label}: not constructible here ({type(e).__name__}); skipped")
            continue
        structure(R, env, label, prefix=label + ": ")
    R.sample({"cases": [c[0] for c in cases]})


def run_struct_rewards(R, name):
    """every reward function shipped in the environment's reward module (not only the default one): structure/shape/dtype of
    reward, discount and observation against the specs, from the IR's own output types (holds for all inputs)"""
    import importlib
    import inspect
    env0 = configs.make(name)
    pkg = type(env0).__module__.rsplit(".", 1)[0]
    try:
        mod = importlib.import_module(pkg + ".reward")
    except ImportError:
        R.structural("environment has a reward module", True)
        return
    base_cls = getattr(mod, "RewardFn", None)
    n = 0
    for cname, cls in inspect.getmembers(mod, inspect.isclass):
        if cls.__module__ != mod.__name__ or inspect.isabstract(cls) or cls is base_cls or (base_cls is not None and not issubclass(cls, base_cls)):
            continue
        try:
            fn = cls()
        except TypeError:
            continue      # needs constructor arguments: covered through the default configuration only
        try:
            env = configs.make(name, reward_fn=fn)
        except TypeError:
            R.note(f"{name}: constructor does not take reward_fn")
            return
        structure(R, env, f"{name}[reward_fn={cname}]", prefix=f"reward_fn={cname}: ")
        n += 1
    R.bound(config=name, reward_functions=n)
    R.sample({"config": name, "reward_functions_checked": n})


def jobs(tier, seed):
    js = []
    have = set()
    for name in base.available():
        cls = base.cls_of(name)
        # C01_EXTRA: configurations that matter for spec bounds only (e.g. a BinPack container with pairwise DIFFERENT dimensions and
        # height > width, so that a coordinate normalised by the wrong dimension leaves [0, 1])
        for cfg in cls.QUICK + list(getattr(cls, "C01_EXTRA", [])) + (cls.THOROUGH if tier == "thorough" else []):
            js.append((cfg, "checks.C01", "run", {"cfg": cfg}))
            have.add(cfg.partition("@")[0])
    # IR-type structure check for every env (also those without a harness table yet) and for the default configs
    for name in configs.ALL:
        js.append((f"{name}/struct", "checks.C01", "run_struct_only", {"name": name}))
    for name in configs.ALL:
        if name != "Sokoban":
            js.append((f"{name}@default/struct", "checks.C01", "run_struct_only", {"name": name, "default": True}))
    js.append(("PacMan/kernel-player_step-wrap", "checks.C01", "run_pacman_wrap", {}))
    js.append(("constructor-options/python-int-scalars", "checks.C01", "run_int_options", {}))
    js.append(("Sudoku/database-dtypes", "checks.C10", "run_sudoku_dtypes", {}))   # board bounds for databases of every integer dtype
    for name in ("RubiksCube", "SlidingTilePuzzle", "Sudoku", "BinPack", "FlatPack", "Knapsack", "Connector", "CVRP", "MMST", "MultiCVRP", "Sokoban", "TSP"):
        js.append((f"{name}/struct-reward-fns", "checks.C01", "run_struct_rewards", {"name": name}))
    return js

"""C15  Gym, dm_env and multi-to-single adapters relay the native episode faithfully.

The adapters are stateful Python objects whose methods end in NumPy/Python conversions.  Four harness-side stubs of
that conversion layer inside the `jumanji.wrappers` namespace (np.asarray, jax.device_get, float, bool -> identity)
make the REAL adapter methods traceable; a whole episode driven through the adapter is then one jaxpr, which is
compared on symbolic key/actions with the native API driven with the documented key schedule."""
import jax
import jax.numpy as jnp
import numpy as np
import z3

from checks import common as C
from checks import wrap_common as WC
from engine import jx2smt as J
from engine import sym as S
from engine.jx2smt import SV, Ctx
from envs import configs

LEVEL_TEXT = ("Equivalence checking: an episode (reset, k steps, reset) through the real JumanjiToGymWrapper / JumanjiToDMEnvWrapper methods vs the "
              "native API with the documented key schedule, on a symbolic key and symbolic in-spec actions; MultiToSingleWrapper one symbolic step; "
              "converted spaces/specs compared parameter by parameter with the source specs.")
TECHNIQUE = "jaxpr->SMT symbolic execution (z3) of the real adapter methods (conversion layer stubbed) vs the native API on a shared symbolic key and actions; replay with the unstubbed adapter on real code"
ASSUMPTIONS = C.STUB_ASSUMPTIONS + [
    "stubbed in jumanji.wrappers for tracing: np.asarray, jax.device_get, float(), bool() are identities on array values (their own fidelity is outside the claim; "
    "every counterexample is replayed with the UNSTUBBED adapter)",
    "gym.spaces.Box/Discrete/MultiDiscrete.contains/sample and dm_env specs validate behave as documented given equal shape/dtype/low/high/n/nvec",
]


class _NP:
    def __getattr__(self, n):
        return getattr(np, n)

    @staticmethod
    def asarray(x, *a, **k):
        return x


class _Bool:
    dtype = np.dtype(bool)

    def __new__(cls, x):
        return x


class _Float:
    dtype = np.dtype(np.float32)

    def __new__(cls, x):
        return x


class _JAX:
    def __getattr__(self, n):
        return getattr(jax, n)

    @staticmethod
    def device_get(x):
        return x


class stubbed:
    """context manager: swap the conversion layer of jumanji.wrappers"""

    def __enter__(self):
        import jumanji.wrappers as W
        self.W = W
        self.saved = {k: W.__dict__.get(k, None) for k in ("np", "float", "bool", "jax")}
        W.np, W.float, W.bool, W.jax = _NP(), _Float, _Bool, _JAX()
        return W

    def __exit__(self, *a):
        for k, v in self.saved.items():
            if v is None:
                self.W.__dict__.pop(k, None)
            else:
                setattr(self.W, k, v)


def single(env):
    """gym needs scalar reward/discount: multi-agent envs go behind MultiToSingleWrapper (as the property says)"""
    from jumanji.wrappers import MultiToSingleWrapper
    return MultiToSingleWrapper(env) if tuple(env.reward_spec.shape) != () else env


def run_gym(R, name, K, over=None):
    import jumanji.wrappers as W
    WC.set_mode(name)
    env = single(configs.make(name, **(over or {})))
    spec = env.action_spec
    ctx = Ctx(max_unroll=24)
    key = ctx.fresh_arr("key", (2,), np.uint32)
    acts, pre = [], []
    for i in range(K):
        a, p = S.sym_action(ctx, env, tag=f"a{i}")
        acts.append(a)
        pre += p
    R.nvars += 2 + sum(S.nvars(a) for a in acts)
    R.bound(config=name, episode=f"reset, {K} steps, reset", key="symbolic", actions="any in-spec")

    def gym_episode(key, *a):
        g = W.JumanjiToGymWrapper(env)
        g._key = key
        out = {}
        out["o0"], _ = g.reset()
        for i, ai in enumerate(a):
            o, r, t, tr, info = g.step(ai)
            out[f"o{i + 1}"], out[f"r{i + 1}"], out[f"term{i + 1}"], out[f"trunc{i + 1}"] = o, r, t, tr
        out["o_again"], _ = g.reset()
        return out

    def native_episode(key, *a):
        out = {}
        k1, key = jax.random.split(key)
        s, ts = jax.jit(env.reset)(k1)      # jit: Python-scalar leaves of some generators become arrays, as in real use
        out["o0"] = W.jumanji_to_gym_obs(ts.observation)
        for i, ai in enumerate(a):
            s, ts = jax.jit(env.step)(s, ai)
            out[f"o{i + 1}"] = W.jumanji_to_gym_obs(ts.observation)
            out[f"r{i + 1}"] = ts.reward
            out[f"term{i + 1}"] = ts.discount == 0
            out[f"trunc{i + 1}"] = ts.step_type == 2
        k2, key = jax.random.split(key)
        s2, ts2 = jax.jit(env.reset)(k2)
        out["o_again"] = W.jumanji_to_gym_obs(ts2.observation)
        return out

    with stubbed():
        g = S.call(ctx, gym_episode, key, *acts, R=R, name="JumanjiToGymWrapper: reset,step*,reset")
        n = S.call(ctx, native_episode, key, *acts, R=R, name="native episode with the documented key schedule")
    A = pre + ctx.assumptions
    C.unwinding(R, ctx, A)
    R.reach("episode", A)

    def replay(model):
        # UNSTUBBED adapter against the native API on the model's key and actions
        k = jnp.asarray(S.model_sv(model, key))
        a_np = [np.asarray(S.model_sv(model, a)) for a in acts]
        gw = W.JumanjiToGymWrapper(env)
        gw._key = k
        bad = []
        o0, _ = gw.reset()
        k1, kk = jax.random.split(k)
        s, ts = jax.jit(env.reset)(k1)
        if WC.diff_fields(o0, W.jumanji_to_gym_obs(ts.observation)):
            bad.append("o0")
        for i, ai in enumerate(a_np):
            o, r, t, tr, info = gw.step(ai)
            s, ts = jax.jit(env.step)(s, jnp.asarray(ai))
            if WC.diff_fields(o, W.jumanji_to_gym_obs(ts.observation)):
                bad.append(f"o{i + 1}")
            if not np.array_equal(np.float32(r), np.float32(ts.reward), equal_nan=True):
                bad.append(f"r{i + 1}")
            if bool(t) != bool(np.all(np.asarray(ts.discount) == 0)):
                bad.append(f"term{i + 1}")
            if bool(tr) != (int(ts.step_type) == 2):
                bad.append(f"trunc{i + 1}")
        o2, _ = gw.reset()
        k2, kk = jax.random.split(kk)
        _, ts2 = jax.jit(env.reset)(k2)
        if WC.diff_fields(o2, W.jumanji_to_gym_obs(ts2.observation)):
            bad.append("o_again")
        return bool(bad), {"config": name, "key": np.asarray(k).tolist(), "actions": [a.tolist() for a in a_np], "differs": bad}
    for kname in sorted(g.keys()):
        WC.eq_obligations(R, f"gym {kname} == native: ", A, S.tree_eq_items(g[kname], n[kname]), replay)

    # re-seeding: reset(seed=s) twice gives the same observation; and a different key schedule position does not leak
    def reseed(seed):
        gw = W.JumanjiToGymWrapper(env)
        o1, _ = gw.reset(seed=seed)
        gw.step(env.action_spec.generate_value())
        o2, _ = gw.reset(seed=seed)
        return o1, o2
    seed = ctx.fresh_arr("seed", (), np.int32, 0, 1 << 20)
    traceable = True
    try:
        with stubbed():
            o1, o2 = S.call(ctx, reseed, seed, R=R, name="JumanjiToGymWrapper.reset(seed=s) twice")
    except (jax.errors.TracerBoolConversionError, jax.errors.ConcretizationTypeError, jax.errors.TracerIntegerConversionError) as e:
        # the adapter branches on the VALUE of the seed in Python (legitimate: real callers pass a Python int), so the seed cannot be
        # a symbolic variable for this code; the law is then decided on the concrete seeds below only, and said so
        traceable = False
        R.note(f"{name}: gym adapter's reset(seed) is not traceable with a symbolic seed ({type(e).__name__}): re-seeding decided on concrete seeds only")

    def replay_seed(model):
        sd = int(S.model_sv(model, seed))
        gw = W.JumanjiToGymWrapper(env)
        a, _ = gw.reset(seed=sd)
        gw.step(np.asarray(env.action_spec.generate_value()))
        b, _ = gw.reset(seed=sd)
        d = WC.diff_fields(a, b)
        return bool(d), {"config": name, "seed": sd, "differs": d}
    if traceable:
        R.prove("re-seeding reproduces the same first observation", list(ctx.assumptions), S.tree_eq(o1, o2), replay=replay_seed)
    # concrete seeds, including the falsy seed 0, on a wrapper whose key stream has ADVANCED (constructed with another seed, one
    # episode started): reset(seed=s) must give the native episode driven from PRNGKey(s) with the documented schedule
    bad_seeds = []
    for sd in (0, 1, 7, 2 ** 31 - 1):
        gw = W.JumanjiToGymWrapper(env, seed=5)
        gw.reset()
        gw.step(np.asarray(env.action_spec.generate_value()))
        o_s, _ = gw.reset(seed=sd)
        k1, _k = jax.random.split(jax.random.PRNGKey(sd))
        _, ts_n = jax.jit(env.reset)(k1)
        d = WC.diff_fields(o_s, W.jumanji_to_gym_obs(ts_n.observation))
        if d:
            bad_seeds.append({"seed": sd, "differs": d})
        R.validated += 1
    R.structural("reset(seed=s) on an advanced wrapper starts the native episode of PRNGKey(s) for s in {0, 1, 7, 2^31-1}", not bad_seeds,
                 {"config": name, "seeds_that_do_not_reseed": bad_seeds})
    # one concrete end-to-end run of the unstubbed adapter (sanity of the stubbed conversion layer, not the deciding step)
    ok, d = replay_concrete(env, W, K)
    R.structural("concrete run of the unstubbed gym adapter == native episode (PRNGKey(seed), spec-random actions)", ok, d)
    R.sample({"config": name, "K": K, "outputs": sorted(g.keys())})


def replay_concrete(env, W, K):
    rng = np.random.default_rng(0)
    spec = env.action_spec
    lo = np.broadcast_to(np.asarray(getattr(spec, "minimum", 0)), spec.shape)
    hi = np.broadcast_to(np.asarray(getattr(spec, "maximum", 0)), spec.shape)
    gw = W.JumanjiToGymWrapper(env, seed=3)
    key = jax.random.PRNGKey(3)
    bad = []
    o, _ = gw.reset()
    k1, key = jax.random.split(key)
    s, ts = jax.jit(env.reset)(k1)
    if WC.diff_fields(o, W.jumanji_to_gym_obs(ts.observation)):
        bad.append("o0")
    if not gw.observation_space.contains(o):
        bad.append("o0 not in observation_space")
    for i in range(K + 2):
        a = rng.integers(lo, hi + 1).astype(spec.dtype)
        o, r, t, tr, _ = gw.step(a)
        s, ts = jax.jit(env.step)(s, jnp.asarray(a))
        if WC.diff_fields(o, W.jumanji_to_gym_obs(ts.observation)) or not isinstance(r, float) or not isinstance(t, bool) or not isinstance(tr, bool):
            bad.append(f"step{i}")
        if r != float(ts.reward) or t != bool(np.all(np.asarray(ts.discount) == 0)) or tr != (int(ts.step_type) == 2):
            bad.append(f"step{i} scalars")
        if not gw.observation_space.contains(o):
            bad.append(f"o{i + 1} not in observation_space")
        if tr:
            # the episode has ended: a real driver resets now (stepping on past LAST is outside the property); the adapter's next
            # reset must follow the documented key schedule (one more split)
            o, _ = gw.reset()
            k1, key = jax.random.split(key)
            s, ts = jax.jit(env.reset)(k1)
            if WC.diff_fields(o, W.jumanji_to_gym_obs(ts.observation)):
                bad.append(f"reset after step{i}")
    return not bad, {"differs": bad}


def run_dm(R, name, K, over=None):
    import dm_env
    import jumanji.wrappers as W
    WC.set_mode(name)
    env = configs.make(name, **(over or {}))
    ctx = Ctx(max_unroll=24)
    key = ctx.fresh_arr("key", (2,), np.uint32)
    acts, pre = [], []
    for i in range(K):
        a, p = S.sym_action(ctx, env, tag=f"a{i}")
        acts.append(a)
        pre += p
    R.nvars += 2 + sum(S.nvars(a) for a in acts)
    R.bound(config=name, episode=f"reset, {K} steps, reset", key="symbolic", actions="any in-spec")
    first_ok = {}

    def dm_episode(key, *a):
        d = W.JumanjiToDMEnvWrapper(env, key=key)
        out = {}
        t0 = d.reset()
        first_ok["first"] = (t0.step_type == dm_env.StepType.FIRST) and t0.reward is None and t0.discount is None
        out["o0"] = t0.observation
        for i, ai in enumerate(a):
            t = d.step(ai)
            out[f"o{i + 1}"], out[f"r{i + 1}"], out[f"d{i + 1}"], out[f"st{i + 1}"] = t.observation, t.reward, t.discount, t.step_type
        t2 = d.reset()
        first_ok["again"] = (t2.step_type == dm_env.StepType.FIRST) and t2.reward is None and t2.discount is None
        out["o_again"] = t2.observation
        return out

    def native_episode(key, *a):
        out = {}
        k1, key = jax.random.split(key)
        s, ts = env.reset(k1)
        out["o0"] = ts.observation
        for i, ai in enumerate(a):
            s, ts = env.step(s, ai)
            out[f"o{i + 1}"], out[f"r{i + 1}"], out[f"d{i + 1}"], out[f"st{i + 1}"] = ts.observation, ts.reward, ts.discount, ts.step_type
        k2, key = jax.random.split(key)
        _, ts2 = env.reset(k2)
        out["o_again"] = ts2.observation
        return out
    # several CONCRETE episodes of the unstubbed adapter, each played until LAST (or 40 steps) and followed by an explicit reset: what a
    # user does after an episode has ended (state the adapter keeps across reset(), e.g. a pending "reset on next step" flag, only shows
    # there).  Spec-random actions; sanity layer, also the fallback when the adapter cannot be traced.
    okc, detc = dm_concrete(env, W)
    R.validated += 1
    R.structural("concrete dm_env episodes played to LAST, explicit reset in between == native episodes with the documented key schedule", okc, detc)
    try:
        g = S.call(ctx, dm_episode, key, *acts, R=R, name="JumanjiToDMEnvWrapper: reset,step*,reset")
    except Exception as e:  # noqa  (python control flow on a traced value inside the adapter: not symbolically executable)
        R.note(f"{name}: dm_env adapter is not traceable ({type(e).__name__}); decided on the concrete episodes only")
        if okc:
            R.inconclusive.append(f"{R.job}: dm_env adapter not traceable ({type(e).__name__}); the concrete episodes agree with the native run, nothing decided symbolically")
        return
    n = S.call(ctx, native_episode, key, *acts, R=R, name="native episode with the documented key schedule")
    A = pre + ctx.assumptions
    R.structural("dm_env reset returns FIRST with reward None and discount None (both resets)", bool(first_ok.get("first")) and bool(first_ok.get("again")),
                 {"config": name, "flags": {k: bool(v) for k, v in first_ok.items()}})

    def replay(model):
        k = jnp.asarray(S.model_sv(model, key))
        a_np = [np.asarray(S.model_sv(model, a)) for a in acts]
        d = W.JumanjiToDMEnvWrapper(env, key=k)
        bad = []
        t0 = d.reset()
        k1, kk = jax.random.split(k)
        s, ts = env.reset(k1)
        if WC.diff_fields(t0.observation, ts.observation):
            bad.append("o0")
        for i, ai in enumerate(a_np):
            t = d.step(jnp.asarray(ai))
            s, ts = env.step(s, jnp.asarray(ai))
            if WC.diff_fields((t.observation, t.reward, t.discount, t.step_type), (ts.observation, ts.reward, ts.discount, ts.step_type)):
                bad.append(f"step{i + 1}")
        t2 = d.reset()
        k2, kk = jax.random.split(kk)
        _, ts2 = env.reset(k2)
        if WC.diff_fields(t2.observation, ts2.observation):
            bad.append("o_again")
        return bool(bad), {"config": name, "key": np.asarray(k).tolist(), "actions": [a.tolist() for a in a_np], "differs": bad}
    for kname in sorted(g.keys()):
        WC.eq_obligations(R, f"dm_env {kname} == native: ", A, S.tree_eq_items(g[kname], n[kname]), replay)
    R.sample({"config": name, "K": K, "outputs": sorted(g.keys())})


def dm_concrete(env, W, episodes=3, max_steps=40, seed=5):
    import dm_env
    rng = np.random.default_rng(seed)
    spec = env.action_spec
    lo = np.broadcast_to(np.asarray(getattr(spec, "minimum", 0)), spec.shape)
    hi = np.broadcast_to(np.asarray(getattr(spec, "maximum", 0)), spec.shape)
    key = jax.random.PRNGKey(seed)
    d = W.JumanjiToDMEnvWrapper(env, key=key)
    f = jax.jit(env.step)
    try:
        for ep in range(episodes):
            t = d.reset()
            k1, key = jax.random.split(key)
            s, ts = env.reset(k1)
            if t.step_type != dm_env.StepType.FIRST or t.reward is not None or t.discount is not None or WC.diff_fields(t.observation, ts.observation):
                return False, {"episode": ep, "at": "reset", "step_type": int(t.step_type)}
            for i in range(max_steps):
                a = jnp.asarray(rng.integers(lo, hi + 1).astype(spec.dtype))
                t = d.step(a)
                s, ts = f(s, a)
                if t.reward is None or int(t.step_type) != int(ts.step_type) or WC.diff_fields((t.observation, t.reward, t.discount), (ts.observation, ts.reward, ts.discount)):
                    return False, {"episode": ep, "step": i + 1, "adapter_step_type": int(t.step_type), "native_step_type": int(ts.step_type),
                                   "adapter_reward": None if t.reward is None else np.asarray(t.reward).tolist(), "native_reward": np.asarray(ts.reward).tolist()}
                if int(ts.step_type) == 2:
                    break
    except Exception as e:  # noqa
        return False, {"error": f"{type(e).__name__}: {str(e)[:200]}"}
    return True, {"episodes": episodes}


def run_m2s(R, name):
    from jumanji.wrappers import MultiToSingleWrapper
    WC.set_mode(name)
    env = configs.make(name)
    ctx = Ctx(max_unroll=24)
    St = WC.fresh_state(ctx, env, "S", name)
    act, apre = S.sym_action(ctx, env)
    R.nvars += S.nvars(St) + S.nvars(act)
    R.bound(config=name, state="arbitrary state in the harness domain", action="any in-spec", aggregators="sum/max (default), mean/min (custom)")
    es, et = S.call(ctx, env.step, St, act, R=R, name=type(env).__name__ + ".step")
    A = apre + ctx.assumptions
    R.reach("state+action", A)
    for rname, ragg, dname, dagg in (("sum", jnp.sum, "max", jnp.max), ("mean", jnp.mean, "min", jnp.min)):
        Wm = MultiToSingleWrapper(env, reward_aggregator=ragg, discount_aggregator=dagg)
        ws, wt = S.call(ctx, Wm.step, St, act, R=R, name=f"MultiToSingleWrapper({rname},{dname}).step")
        want_r = S.call(ctx, ragg, et.reward)
        want_d = S.call(ctx, dagg, et.discount)

        def replay(model, Wm=Wm, ragg=ragg, dagg=dagg):
            s = jax.tree_util.tree_map(jnp.asarray, S.model_tree(model, St))
            a = jnp.asarray(S.model_sv(model, act))
            (w_s, w_t), (e_s, e_t) = Wm.step(s, a), env.step(s, a)
            bad = WC.diff_fields(w_s, e_s) + WC.diff_fields(w_t.observation, e_t.observation) + WC.diff_fields(w_t.extras, e_t.extras)
            if int(w_t.step_type) != int(e_t.step_type):
                bad.append("step_type")
            if not np.array_equal(np.asarray(w_t.reward), np.asarray(ragg(e_t.reward)), equal_nan=True):
                bad.append("reward")
            if not np.array_equal(np.asarray(w_t.discount), np.asarray(dagg(e_t.discount)), equal_nan=True):
                bad.append("discount")
            return bool(bad), {"config": name, "differs": bad}
        tag = f"MultiToSingle[{rname},{dname}]: "
        R.prove(tag + f"reward == {rname}(per-agent rewards)", A, S.sv_eq(wt.reward, want_r), replay=replay)
        R.prove(tag + f"discount == {dname}(per-agent discounts)", A, S.sv_eq(wt.discount, want_d), replay=replay)
        R.prove(tag + "state unchanged", A, S.tree_eq(ws, es), replay=replay)
        R.prove(tag + "observation, step_type, extras unchanged", A, S.conj([S.tree_eq(wt.observation, et.observation), S.sv_eq(wt.step_type, et.step_type),
                                                                             S.tree_eq(wt.extras, et.extras)]), replay=replay)
        R.structural(tag + "aggregated reward/discount are scalars", tuple(wt.reward.shape) == () and tuple(wt.discount.shape) == (), {"config": name})
    # reset
    key = ctx.fresh_arr("rk", (2,), np.uint32)
    Wm = MultiToSingleWrapper(env)
    w0 = S.call(ctx, Wm.reset, key, R=R, name="MultiToSingleWrapper.reset")
    e0 = S.call(ctx, env.reset, key, R=R, name=type(env).__name__ + ".reset")
    R.prove("MultiToSingle.reset: state/observation/extras == env.reset's, reward 0, discount 1", list(ctx.assumptions),
            S.conj([S.tree_eq(w0[0], e0[0]), S.tree_eq(w0[1].observation, e0[1].observation), S.tree_eq(w0[1].extras, e0[1].extras),
                    S.sv_eq(w0[1].reward, SV(np.float32(0), np.float32)), S.sv_eq(w0[1].discount, SV(np.float32(1), np.float32))]),
            replay=lambda m: (True, {"config": name, "note": "reset aggregation differs"}))
    R.sample({"config": name, "reward_shape": list(et.reward.shape)})


def run_spaces(R, name, default=False, env=None):
    """converted gym spaces / dm_env specs carry exactly the source spec's parameters (then membership agreement follows from
    the libraries' documented contains/validate); sampled gym actions validate against the native action spec."""
    import gymnasium as gym
    from jumanji import specs
    env = env if env is not None else (configs.make_default(name) if default else configs.make(name))
    bad = []

    def cmp(spec, space, path):
        if isinstance(spec, specs.DiscreteArray):
            if not isinstance(space, gym.spaces.Discrete) or int(space.n) != int(spec.num_values) or int(getattr(space, "start", 0)) != 0:
                bad.append(f"{path}: Discrete n")
        elif isinstance(spec, specs.MultiDiscreteArray):
            if not isinstance(space, gym.spaces.MultiDiscrete) or not np.array_equal(np.asarray(space.nvec), np.asarray(spec.num_values)):
                bad.append(f"{path}: MultiDiscrete nvec")
        elif isinstance(spec, specs.BoundedArray):
            lo = np.broadcast_to(np.asarray(spec.minimum), spec.shape)
            hi = np.broadcast_to(np.asarray(spec.maximum), spec.shape)
            if not isinstance(space, gym.spaces.Box) or tuple(space.shape) != tuple(spec.shape) or np.dtype(space.dtype) != np.dtype(spec.dtype):
                bad.append(f"{path}: Box shape/dtype")
            elif not (np.array_equal(space.low, lo.astype(space.dtype)) and np.array_equal(space.high, hi.astype(space.dtype))):
                bad.append(f"{path}: Box low/high {space.low.reshape(-1)[:3]}..{space.high.reshape(-1)[:3]} vs spec {lo.reshape(-1)[:3]}..{hi.reshape(-1)[:3]}")
        elif isinstance(spec, specs.Array):
            if not isinstance(space, gym.spaces.Box) or tuple(space.shape) != tuple(spec.shape) or np.dtype(space.dtype) != np.dtype(spec.dtype):
                bad.append(f"{path}: Box shape/dtype (unbounded)")
        else:
            subs = {k: v for k, v in vars(spec).items() if isinstance(v, specs.Spec)}
            if not isinstance(space, gym.spaces.Dict) or sorted(space.spaces.keys()) != sorted(subs.keys()):
                bad.append(f"{path}: Dict keys")
            else:
                for k, v in subs.items():
                    cmp(v, space.spaces[k], f"{path}.{k}")
    cmp(env.observation_spec, specs.jumanji_specs_to_gym_spaces(env.observation_spec), "obs")
    cmp(env.action_spec, specs.jumanji_specs_to_gym_spaces(env.action_spec), "action")
    R.structural("gym spaces carry the specs' shape/dtype/low/high/n/nvec", not bad, {"config": name, "mismatch": bad})
    # dm_env
    import dm_env.specs as ds
    bad2 = []

    def cmp_dm(spec, d, path):
        if isinstance(spec, specs.DiscreteArray):
            if not isinstance(d, ds.DiscreteArray) or int(d.num_values) != int(spec.num_values) or np.dtype(d.dtype) != np.dtype(spec.dtype) or tuple(d.shape) != tuple(spec.shape):
                bad2.append(f"{path}: DiscreteArray (num_values {getattr(d, 'num_values', None)} dtype {getattr(d, 'dtype', None)} vs spec {spec.num_values} {np.dtype(spec.dtype)})")
        elif isinstance(spec, specs.BoundedArray):
            if not isinstance(d, ds.BoundedArray) or tuple(d.shape) != tuple(spec.shape) or np.dtype(d.dtype) != np.dtype(spec.dtype) or \
                    not np.array_equal(np.broadcast_to(d.minimum, d.shape), np.broadcast_to(np.asarray(spec.minimum), spec.shape).astype(d.dtype)) or \
                    not np.array_equal(np.broadcast_to(d.maximum, d.shape), np.broadcast_to(np.asarray(spec.maximum), spec.shape).astype(d.dtype)):
                bad2.append(f"{path}: BoundedArray")
        elif isinstance(spec, specs.Array):
            if not isinstance(d, ds.Array) or tuple(d.shape) != tuple(spec.shape) or np.dtype(d.dtype) != np.dtype(spec.dtype):
                bad2.append(f"{path}: Array")
        else:
            subs = {k: v for k, v in vars(spec).items() if isinstance(v, specs.Spec)}
            if not isinstance(d, dict) or sorted(d.keys()) != sorted(subs.keys()):
                bad2.append(f"{path}: dict keys")
            else:
                for k, v in subs.items():
                    cmp_dm(v, d[k], f"{path}.{k}")
    cmp_dm(env.observation_spec, specs.jumanji_specs_to_dm_env_specs(env.observation_spec), "obs")
    cmp_dm(env.action_spec, specs.jumanji_specs_to_dm_env_specs(env.action_spec), "action")
    R.structural("dm_env specs carry the specs' shape/dtype/bounds/num_values", not bad2, {"config": name, "mismatch": bad2})
    sp = specs.jumanji_specs_to_gym_spaces(env.action_spec)
    sp.seed(0)
    bad3 = []
    for _ in range(25):
        a = sp.sample()
        try:
            env.action_spec.validate(jnp.asarray(a, env.action_spec.dtype))
        except Exception as e:  # noqa
            bad3.append(repr(e)[:80])
    R.structural("25 samples of the converted gym action space validate against the native action spec", not bad3, {"config": name, "errors": bad3[:2]})
    R.validated += 25


GYM_ENVS = ["Knapsack", "Snake", "Maze@toy", "Cleaner@3x3x1", "GraphColoring", "TSP", "SlidingTilePuzzle", "Minesweeper", "CVRP", "Tetris", "RubiksCube",
            "JobShop", "Game2048", "Connector", "LevelBasedForaging", "Sudoku", "Sokoban", "FlatPack", "MultiCVRP"]
M2S_ENVS = ["Connector", "LevelBasedForaging", "Connector@3x2"]


def jobs(tier, seed):
    K = 2 if tier == "quick" else 3
    js = []
    for n in GYM_ENVS + (["RobotWarehouse", "BinPack@csv"] if tier == "thorough" else []):
        js.append((f"{n}/gym", "checks.C15", "run_gym", {"name": n, "K": K}))
        js.append((f"{n}/dm_env", "checks.C15", "run_dm", {"name": n, "K": K}))
    # LevelBasedForaging with time_limit == K: the episode ends by TRUNCATION (LAST, discount 1) inside the relayed episode - the one
    # case in which 'terminated' (discount 0) and 'truncated' (LAST) differ and in which dm_env must relay a non-zero final discount
    if "LevelBasedForaging" in GYM_ENVS:
        js.append((f"LevelBasedForaging/T={K}/gym", "checks.C15", "run_gym", {"name": "LevelBasedForaging", "K": K, "over": {"time_limit": K}}))
        js.append((f"LevelBasedForaging/T={K}/dm_env", "checks.C15", "run_dm", {"name": "LevelBasedForaging", "K": K, "over": {"time_limit": K}}))
    for n in M2S_ENVS:
        js.append((f"{n}/multi-to-single", "checks.C15", "run_m2s", {"name": n}))
    for n in configs.ALL:
        js.append((f"{n}/spaces", "checks.C15", "run_spaces", {"name": n}))
        if tier == "thorough" and n != "Sokoban":
            js.append((f"{n}@default/spaces", "checks.C15", "run_spaces", {"name": n, "default": True}))
    return js

"""C16  Specs form a consistent algebra: generate, validate, replace, equality, pickling.

Engine E2 (engine/pysym.py): the REAL methods of jumanji.specs run on symbolic bounds and values; every Python branch on a
symbolic array forks; each explored path is compared with the characterisation the property states."""
from typing import Any
import collections
import itertools
import pickle

import jax
import jax.numpy as real_jnp
import numpy as np
import z3

from checks import common as C
from engine import jx2smt as J
from engine import pysym as P
from engine import sym as S
from engine.jx2smt import SV, Ctx, to_z3
from envs import configs

LEVEL_TEXT = ("Path-complete symbolic execution of the real spec methods (constructor, validate, generate_value, replace, __eq__) on symbolic bounds and "
              "values for a finite list of kinds x shapes x dtypes; every path's outcome compared with 'accepted <=> shape/dtype match and every element "
              "within the inclusive bounds'; pickling and the shipped environments' specs checked concretely.")
TECHNIQUE = "path-forking symbolic execution of jumanji.specs on z3-backed arrays (engine E2), per-path characterisation queries (z3); concrete replay of every model on the unshimmed code"
ASSUMPTIONS = ["jnp names used by jumanji.specs (asarray, broadcast_to, any, all, full, array_equal) are shimmed for symbolic arrays; shim validated by replaying every model and by "
               "the concrete sweeps over the shipped specs", "spec parameters (shape, dtype, name, nesting) are concrete and enumerated; values and bounds are symbolic", "z3 is sound"]

SHAPES = [(), (1,), (2,), (2, 2), (1, 2, 1), (0,)]
DTYPES = [np.int8, np.int32, np.uint8, np.float32]


class shim:
    def __enter__(self):
        from jumanji import specs
        import jumanji.testing.pytrees as T
        self.specs, self.T = specs, T
        self.saved = (specs.jnp, T.np)
        specs.jnp = P.JnpShim(self.saved[0])
        T.np = P.NpShim()
        return specs

    def __exit__(self, *a):
        self.specs.jnp, self.T.np = self.saved


def _le(a, b, dt):
    return to_z3(J.s_cmp("le", a, b, dt), np.bool_)


def _eq(a, b, dt):
    return to_z3(J.s_cmp("eq", a, b, dt), np.bool_)


def _nonan(arrs):
    return [z3.Not(z3.fpIsNaN(x)) for a in arrs if a.dtype.kind == "f" for x in a.sv.obj().reshape(-1) if J.is_sym(x)]


def conc(model, arr):
    return S.model_sv(model, arr.sv)


def run_bounded(R, shape, dtname, bounds):
    """BoundedArray(shape, dtype, lo, hi): constructor + validate + generate_value + replace + eq on symbolic lo/hi/v"""
    dt = np.dtype(dtname)
    ctx = Ctx()
    bshape = shape if bounds == "per-element" else ()
    lo, hi = P.fresh(ctx, "lo", bshape, dt), P.fresh(ctx, "hi", bshape, dt)
    v = P.fresh(ctx, "v", shape, dt)
    lo2, hi2 = P.fresh(ctx, "lo2", bshape, dt), P.fresh(ctx, "hi2", bshape, dt)
    R.nvars += lo.size + hi.size + v.size + lo2.size + hi2.size
    R.bound(kind="BoundedArray", shape=list(shape), dtype=dt.name, bounds=bounds, values="symbolic (all bit patterns, floats incl. NaN/inf for the value)")
    pre = _nonan([lo, hi, lo2, hi2])    # bounds themselves are NaN-free (a NaN bound has no meaning); the VALUE may be NaN
    LO = np.broadcast_to(lo.sv.obj(), shape).reshape(-1)
    HI = np.broadcast_to(hi.sv.obj(), shape).reshape(-1)
    VV = v.sv.obj().reshape(-1)
    wf = z3.And([_le(l, h, dt) for l, h in zip(LO, HI)] + [z3.BoolVal(True)])
    inb = z3.And([z3.And(_le(l, x, dt), _le(x, h, dt)) for l, x, h in zip(LO, VV, HI)] + [z3.BoolVal(True)])
    with shim() as specs:
        real = specs.jnp._real

        def mk(l, h, name="s"):
            return specs.BoundedArray(shape, dt.type, minimum=l, maximum=h, name=name)

        def explore(fn, label, expect, replay_fn, extra_pre=()):
            eng = P.Engine(pre + list(extra_pre))
            res = eng.run(fn)
            R.encoded(label)
            R.encodings += len(res)
            for n, (pc, (kind, val)) in enumerate(res):
                want = expect(kind, val)

                def replay(model, kind=kind, val=val):
                    with _unshim(specs):
                        return replay_fn(model, kind, val)
                R.prove(f"{label}: path {n} ({kind}{':' + type(val).__name__ if kind == 'exc' else ''})", pre + list(extra_pre) + list(pc), want, replay=replay)
            return res

        # ---- validate: returns <=> bounds well-formed and every element within the inclusive bounds (NaN is not within bounds)
        def sc_validate():
            return mk(lo, hi).validate(v)

        def rp_validate(model, kind, val):
            l, h, x = conc(model, lo), conc(model, hi), conc(model, v)
            ok_expected = bool(np.all(l <= h)) and bool(np.all((np.broadcast_to(l, shape) <= x) & (x <= np.broadcast_to(h, shape))))
            try:
                specs.BoundedArray(shape, dt.type, l, h, "s").validate(real_jnp.asarray(x))
                got = True
            except ValueError:
                got = False
            return (got != ok_expected), {"kind": "BoundedArray", "shape": list(shape), "dtype": dt.name, "minimum": l.tolist(), "maximum": h.tolist(),
                                          "value": np.asarray(x).tolist(), "validate_accepted": got, "within_bounds": ok_expected}
        explore(sc_validate, "validate(v) accepted <=> lo<=hi and all lo<=v<=hi",
                lambda k, val: z3.And(wf, inb) if k == "ret" else (z3.Not(z3.And(wf, inb)) if isinstance(val, ValueError) else z3.BoolVal(False)), rp_validate)

        # ---- generate_value() is accepted by validate
        def sc_gen():
            s = mk(lo, hi)
            return s.validate(s.generate_value())

        def rp_gen(model, kind, val):
            l, h = conc(model, lo), conc(model, hi)
            try:
                s = specs.BoundedArray(shape, dt.type, l, h, "s")
                s.validate(s.generate_value())
                return False, {}
            except ValueError as e:
                return True, {"kind": "BoundedArray", "shape": list(shape), "dtype": dt.name, "minimum": l.tolist(), "maximum": h.tolist(), "error": repr(e)[:200]}
        explore(sc_gen, "validate(generate_value()) returns", lambda k, val: z3.BoolVal(k == "ret"), rp_gen, extra_pre=[wf])

        # ---- equality: s(lo,hi) == s(lo2,hi2)  <=>  bounds equal ; never raises
        LO2 = np.broadcast_to(lo2.sv.obj(), shape).reshape(-1) if bounds == "scalar" else lo2.sv.obj().reshape(-1)
        beq = z3.And([_eq(a, b, dt) for a, b in zip(lo.sv.obj().reshape(-1), lo2.sv.obj().reshape(-1))] +
                     [_eq(a, b, dt) for a, b in zip(hi.sv.obj().reshape(-1), hi2.sv.obj().reshape(-1))] + [z3.BoolVal(True)])
        wf2 = z3.And([_le(l, h, dt) for l, h in zip(np.broadcast_to(lo2.sv.obj(), shape).reshape(-1), np.broadcast_to(hi2.sv.obj(), shape).reshape(-1))] + [z3.BoolVal(True)])

        def sc_eq():
            return bool(mk(lo, hi) == mk(lo2, hi2))

        def rp_eq(model, kind, val):
            l, h, l2, h2 = conc(model, lo), conc(model, hi), conc(model, lo2), conc(model, hi2)
            want = bool(np.array_equal(l, l2) and np.array_equal(h, h2))
            try:
                got = bool(specs.BoundedArray(shape, dt.type, l, h, "s") == specs.BoundedArray(shape, dt.type, l2, h2, "s"))
            except Exception as e:  # noqa
                return True, {"kind": "BoundedArray", "shape": list(shape), "dtype": dt.name, "bounds": [l.tolist(), h.tolist(), l2.tolist(), h2.tolist()], "eq_raised": repr(e)[:160]}
            return (got != want), {"kind": "BoundedArray", "shape": list(shape), "dtype": dt.name, "bounds": [l.tolist(), h.tolist(), l2.tolist(), h2.tolist()], "eq": got, "bounds_equal": want}
        explore(sc_eq, "s(lo,hi) == s(lo2,hi2) <=> bounds equal (and never raises)",
                lambda k, val: (beq if val else z3.Not(beq)) if k == "ret" else z3.BoolVal(False), rp_eq, extra_pre=[wf, wf2])

        # ---- replace() == self ; replace(name=) / replace(minimum=) change only the named attribute
        def sc_rep():
            s = mk(lo, hi)
            r0 = s.replace()
            r1 = s.replace(name="other")
            r2 = s.replace(minimum=lo2)
            same0 = bool(r0 == s)
            return (same0, r1.name, r1.shape == s.shape and r1.dtype == s.dtype and r1.minimum is s.minimum and r1.maximum is s.maximum,
                    r2.name == s.name and r2.shape == s.shape and r2.dtype == s.dtype and r2.maximum is s.maximum and r2.minimum is lo2)

        def rp_rep(model, kind, val):
            l, h, l2 = conc(model, lo), conc(model, hi), conc(model, lo2)
            try:
                s = specs.BoundedArray(shape, dt.type, l, h, "s")
                ok = bool(s.replace() == s) and s.replace(name="other").name == "other" and bool(np.array_equal(s.replace(minimum=l2).minimum, l2))
                return (not ok), {"kind": "BoundedArray", "shape": list(shape), "dtype": dt.name, "replace_ok": ok}
            except Exception as e:  # noqa
                return True, {"kind": "BoundedArray", "shape": list(shape), "dtype": dt.name, "minimum": l.tolist(), "maximum": h.tolist(), "replace_raised": repr(e)[:160]}
        lo2_ok = z3.And([_le(l, h, dt) for l, h in zip(np.broadcast_to(lo2.sv.obj(), shape).reshape(-1), HI)] + [z3.BoolVal(True)])
        explore(sc_rep, "replace() == self; replace(name=/minimum=) changes exactly that attribute",
                lambda k, val: z3.BoolVal(k == "ret" and val[0] is True and val[1] == "other" and bool(val[2]) and bool(val[3])), rp_rep, extra_pre=[wf, lo2_ok])
    # ---- concrete: wrong shape / dtype always rejected; separation by shape/dtype/name; pickle round trip at boundary values
    from jumanji import specs
    if 0 not in shape:
        l0, h0 = np.zeros(bshape, dt), np.ones(bshape, dt)
        s = specs.BoundedArray(shape, dt.type, l0, h0, "s")
        bad = []
        for wrong in (np.zeros(shape + (1,), dt), np.zeros(shape, np.int16 if dt != np.int16 else np.int32)):
            try:
                s.validate(real_jnp.asarray(wrong))
                bad.append(str(wrong.shape) + str(wrong.dtype))
            except ValueError:
                pass
        R.structural("wrong shape / wrong dtype rejected with ValueError", not bad, {"accepted": bad, "shape": list(shape), "dtype": dt.name})
        others = [specs.BoundedArray(shape + (1,), dt.type, l0.reshape(bshape + ((1,) if bshape else ())), h0.reshape(bshape + ((1,) if bshape else ())), "s"),
                  specs.BoundedArray(shape, np.int16 if dt.kind != "f" else np.float16, 0, 1, "s"), specs.BoundedArray(shape, dt.type, l0, h0, "t")]
        sep = []
        for o in others:
            try:
                if s == o or o == s:
                    sep.append(repr(o)[:60])
            except Exception as e:  # noqa
                sep.append("raised " + repr(e)[:60])
        R.structural("== separates specs that differ in shape, dtype or name", not sep, {"not_separated": sep})
        info = np.iinfo(dt) if dt.kind in "iu" else np.finfo(dt)
        pk = []
        for l, h in ((info.min, info.max), (0, 1), (1, 1)):
            sp = specs.BoundedArray(shape, dt.type, np.full(bshape, l, dt), np.full(bshape, h, dt), "p")
            try:
                if not (pickle.loads(pickle.dumps(sp)) == sp):
                    pk.append([float(l), float(h)])
            except Exception as e:  # noqa
                pk.append(repr(e)[:80])
        R.structural("pickle round trip gives an equal spec (boundary bounds)", not pk, {"failed": pk, "shape": list(shape), "dtype": dt.name})
        R.validated += 8
    R.sample({"kind": "BoundedArray", "shape": list(shape), "dtype": dt.name, "bounds": bounds})


class _unshim:
    def __init__(self, specs):
        self.specs = specs

    def __enter__(self):
        import jumanji.testing.pytrees as T
        self.T = T
        self.cur = (self.specs.jnp, T.np)
        self.specs.jnp = self.specs.jnp._real if hasattr(self.specs.jnp, "_real") else self.specs.jnp
        T.np = np

    def __exit__(self, *a):
        self.specs.jnp, self.T.np = self.cur


def run_discrete(R, n, dtname):
    """DiscreteArray(n) and MultiDiscreteArray([n, n+1]): validate(v) accepted <=> 0 <= v < num_values"""
    dt = np.dtype(dtname)
    ctx = Ctx()
    R.bound(kind="DiscreteArray/MultiDiscreteArray", num_values=n, dtype=dt.name, values="symbolic")
    with shim() as specs:
        v = P.fresh(ctx, "v", (), dt)
        R.nvars += 1
        x = v.sv.obj().reshape(-1)[0]
        inb = z3.And(_le(0, x, dt), _le(x, n - 1, dt))
        res = P.Engine([]).run(lambda: specs.DiscreteArray(n, dt.type, "d").validate(v))
        R.encoded("DiscreteArray.validate")
        for i, (pc, (kind, val)) in enumerate(res):
            def replay(model):
                with _unshim(specs):
                    xv = conc(model, v)
                    try:
                        specs.DiscreteArray(n, dt.type, "d").validate(real_jnp.asarray(xv))
                        got = True
                    except ValueError:
                        got = False
                    return (got != (0 <= int(xv) < n)), {"kind": "DiscreteArray", "num_values": n, "value": int(xv), "accepted": got}
            R.prove(f"DiscreteArray({n}).validate(v) accepted <=> 0 <= v < {n}: path {i}", list(pc), inb if kind == "ret" else z3.Not(inb) if isinstance(val, ValueError) else z3.BoolVal(False), replay=replay)
        nv = real_jnp.asarray([n, n + 1], dt.type)
        w = P.fresh(ctx, "w", (2,), dt)
        R.nvars += 2
        ws = w.sv.obj().reshape(-1)
        inb2 = z3.And(_le(0, ws[0], dt), _le(ws[0], n - 1, dt), _le(0, ws[1], dt), _le(ws[1], n, dt))
        res = P.Engine([]).run(lambda: specs.MultiDiscreteArray(nv, dt.type, "m").validate(w))
        R.encoded("MultiDiscreteArray.validate")
        for i, (pc, (kind, val)) in enumerate(res):
            def replay(model):
                with _unshim(specs):
                    xv = conc(model, w)
                    try:
                        specs.MultiDiscreteArray(nv, dt.type, "m").validate(real_jnp.asarray(xv))
                        got = True
                    except ValueError:
                        got = False
                    return (got != bool(0 <= xv[0] < n and 0 <= xv[1] < n + 1)), {"kind": "MultiDiscreteArray", "num_values": [n, n + 1], "value": xv.tolist(), "accepted": got}
            R.prove(f"MultiDiscreteArray([{n},{n + 1}]).validate(v) accepted <=> 0 <= v < num_values: path {i}", list(pc),
                    inb2 if kind == "ret" else z3.Not(inb2) if isinstance(val, ValueError) else z3.BoolVal(False), replay=replay)
    from jumanji import specs
    d, m = specs.DiscreteArray(n, dt.type, "d"), specs.MultiDiscreteArray(real_jnp.asarray([n, n + 1], dt.type), dt.type, "m")
    bad = []
    for s, others in ((d, [specs.DiscreteArray(n + 1, dt.type, "d"), specs.DiscreteArray(n, dt.type, "e"), specs.DiscreteArray(n, np.int16 if dt != np.int16 else np.int32, "d")]),
                      (m, [specs.MultiDiscreteArray(real_jnp.asarray([n, n + 2], dt.type), dt.type, "m"), specs.MultiDiscreteArray(real_jnp.asarray([n, n + 1], dt.type), dt.type, "x")])):
        try:
            ok = bool(s == s) and bool(s.replace() == s) and bool(pickle.loads(pickle.dumps(s)) == s) and s.replace(name="zz").name == "zz"
            s.validate(s.generate_value())
            for o in others:
                ok = ok and not bool(s == o) and not bool(o == s)
            if not ok:
                bad.append(repr(s)[:70])
        except Exception as e:  # noqa
            bad.append(repr(e)[:100])
    R.structural("Discrete/MultiDiscrete: reflexive ==, replace()==self, pickle round trip, generate_value validates, == separates num_values/name/dtype", not bad, {"failed": bad})
    R.validated += 10
    R.sample({"kind": "Discrete/MultiDiscrete", "num_values": n, "dtype": dt.name})


Obs = collections.namedtuple("Obs", ["a", "b"])


def run_nested(R):
    """nested Spec: validate recurses; equality <=> children equal; replace swaps exactly the named child"""
    dt = np.dtype(np.int32)
    ctx = Ctx()
    lo, hi, lo2, hi2 = (P.fresh(ctx, n_, (2,), dt) for n_ in ("lo", "hi", "lo2", "hi2"))
    va, vb = P.fresh(ctx, "va", (2,), dt), P.fresh(ctx, "vb", (), dt)
    R.nvars += 11
    R.bound(kind="nested Spec(Obs, a=BoundedArray((2,), int32, lo, hi), b=DiscreteArray(3))", values="symbolic bounds and leaves")
    wf = z3.And([_le(l, h, dt) for l, h in zip(lo.sv.obj(), hi.sv.obj())])
    wf2 = z3.And([_le(l, h, dt) for l, h in zip(lo2.sv.obj(), hi2.sv.obj())])
    inb = z3.And([z3.And(_le(l, x, dt), _le(x, h, dt)) for l, x, h in zip(lo.sv.obj(), va.sv.obj(), hi.sv.obj())] +
                 [_le(0, vb.sv.obj().reshape(-1)[0], dt), _le(vb.sv.obj().reshape(-1)[0], 2, dt)])
    beq = z3.And([_eq(a, b, dt) for a, b in zip(lo.sv.obj(), lo2.sv.obj())] + [_eq(a, b, dt) for a, b in zip(hi.sv.obj(), hi2.sv.obj())])
    with shim() as specs:
        def mk(l, h):
            return specs.Spec(Obs, "ObsSpec", a=specs.BoundedArray((2,), np.int32, l, h, "a"), b=specs.DiscreteArray(3, name="b"))

        def go(fn, label, expect, pre):
            res = P.Engine(pre).run(fn)
            R.encoded(label)
            for i, (pc, (kind, val)) in enumerate(res):
                def replay(model, kind=kind):
                    with _unshim(specs):
                        l, h, l2, h2 = (conc(model, t) for t in (lo, hi, lo2, hi2))
                        a, b = conc(model, va), conc(model, vb)
                        try:
                            s1, s2 = mk(l, h), mk(l2, h2)
                            try:
                                s1.validate(Obs(real_jnp.asarray(a), real_jnp.asarray(b)))
                                acc = True
                            except ValueError:
                                acc = False
                            eq = bool(s1 == s2)
                            want_acc = bool(np.all((l <= a) & (a <= h)) and 0 <= int(b) <= 2)
                            want_eq = bool(np.array_equal(l, l2) and np.array_equal(h, h2))
                            return (acc != want_acc or eq != want_eq), {"kind": "nested", "accepted": acc, "within": want_acc, "eq": eq, "children_equal": want_eq,
                                                                         "bounds": [l.tolist(), h.tolist(), l2.tolist(), h2.tolist()]}
                        except Exception as e:  # noqa
                            return True, {"kind": "nested", "raised": repr(e)[:200], "bounds": [l.tolist(), h.tolist(), l2.tolist(), h2.tolist()]}
                R.prove(f"{label}: path {i} ({kind})", pre + list(pc), expect(kind, val), replay=replay)
        go(lambda: mk(lo, hi).validate(Obs(va, vb)), "nested validate accepted <=> every leaf within its child's bounds",
           lambda k, v_: inb if k == "ret" else z3.Not(inb) if isinstance(v_, ValueError) else z3.BoolVal(False), [wf])
        go(lambda: bool(mk(lo, hi) == mk(lo2, hi2)), "nested == <=> children equal (never raises)",
           lambda k, v_: (beq if v_ else z3.Not(beq)) if k == "ret" else z3.BoolVal(False), [wf, wf2])

        def rep():
            s = mk(lo, hi)
            r = s.replace(b=specs.DiscreteArray(5, name="b"))
            return bool(s.replace() == s), r["b"].num_values == 5 and r["a"] is not None and bool(r["a"] == s["a"]), s["b"].num_values == 3
        go(rep, "nested replace() == self; replace(b=) swaps exactly that child and leaves the original intact",
           lambda k, v_: z3.BoolVal(k == "ret" and all(bool(x) for x in v_)), [wf])
        go(lambda: mk(lo, hi).validate(mk(lo, hi).generate_value()), "nested validate(generate_value()) returns", lambda k, v_: z3.BoolVal(k == "ret"), [wf])
    R.sample({"kind": "nested Spec"})


def run_structures(R):
    """nested specs whose STRUCTURE differs (extra child, renamed child, nested child vs. primitive child, different depth) are
    never equal, in either order: `==` must return False or refuse (raise), it must not return True.  Structures are concrete and
    enumerated; the real Spec.__eq__ / is_equal_pytree run unshimmed."""
    from jumanji import specs
    A2 = collections.namedtuple("A2", ["a", "b"])
    A3 = collections.namedtuple("A3", ["a", "b", "c"])
    A2r = collections.namedtuple("A2r", ["a", "z"])
    N1 = collections.namedtuple("N1", ["x"])
    a = lambda: specs.BoundedArray((2,), np.int32, 0, 3, "a")          # noqa
    b = lambda: specs.DiscreteArray(3, name="b")                       # noqa
    c = lambda: specs.Array((1,), np.float32, "c")                     # noqa
    base = lambda: specs.Spec(A2, "S", a=a(), b=b())                   # noqa
    cases = {
        "extra child": (base(), specs.Spec(A3, "S", a=a(), b=b(), c=c())),
        "renamed child": (base(), specs.Spec(A2r, "S", a=a(), z=b())),
        "nested child vs primitive child": (base(), specs.Spec(A2, "S", a=specs.Spec(N1, "inner", x=a()), b=b())),
        "deeper nesting": (specs.Spec(A2, "S", a=specs.Spec(N1, "inner", x=a()), b=b()),
                           specs.Spec(A2, "S", a=specs.Spec(N1, "inner", x=specs.Spec(N1, "inner2", x=a())), b=b())),
        "one child missing": (base(), specs.Spec(N1, "S", x=a())),
        "same keys, children swapped kinds": (base(), specs.Spec(A2, "S", a=b(), b=a())),
    }
    R.bound(cases=list(cases), note="structures concrete and enumerated")
    for label, (s1, s2) in cases.items():
        outcome = []
        for x, y in ((s1, s2), (s2, s1)):
            try:
                outcome.append(bool(x == y))
            except Exception as e:  # noqa
                outcome.append("raised " + type(e).__name__)
        R.structural(f"nested specs that differ in structure ({label}) never compare equal, in either order", True not in outcome,
                     {"case": label, "s1 == s2": outcome[0], "s2 == s1": outcome[1]})
        R.validated += 2
    # value containers: validate is documented for "a named tuple or a dataclass", nested to any depth.  Every combination of plain
    # dataclass / chex dataclass / namedtuple at two nesting levels: validate(generate_value()) returns an equal structure, and a value
    # with one inner leaf out of bounds is rejected
    import dataclasses
    import chex
    import jax.numpy as jnp

    @dataclasses.dataclass
    class DIn:
        x: Any
        y: Any

    @dataclasses.dataclass
    class DOut:
        inner: Any
        z: Any

    @chex.dataclass
    class CIn:
        x: Any
        y: Any

    @chex.dataclass
    class COut:
        inner: Any
        z: Any
    NIn = collections.namedtuple("NIn", ["x", "y"])
    NOut = collections.namedtuple("NOut", ["inner", "z"])
    for (iname, In), (oname, Out) in itertools.product((("dataclass", DIn), ("chex.dataclass", CIn), ("namedtuple", NIn)), (("dataclass", DOut), ("chex.dataclass", COut), ("namedtuple", NOut))):
        inner = specs.Spec(In, "inner", x=specs.BoundedArray((), np.int32, -2, 4, "x"), y=specs.BoundedArray((2,), np.float32, 0.0, 1.0, "y"))
        outer = specs.Spec(Out, "outer", inner=inner, z=specs.DiscreteArray(3, name="z"))
        label = f"{oname} holding a {iname}"
        try:
            v = outer.generate_value()
            r = outer.validate(v)
            ok = type(r) is type(v) and type(r.inner) is type(v.inner) and bool(jnp.array_equal(r.inner.x, v.inner.x)) and bool(jnp.array_equal(r.inner.y, v.inner.y))
            det = {"containers": label}
        except Exception as e:  # noqa
            ok, det = False, {"containers": label, "raised": f"{type(e).__name__}: {str(e)[:160]}"}
        R.structural(f"nested validate(generate_value()) returns the value ({label})", ok, det)
        try:
            bad_v = Out(inner=In(x=jnp.asarray(5, jnp.int32), y=jnp.zeros((2,), jnp.float32)), z=jnp.asarray(0, jnp.int32))
            try:
                outer.validate(bad_v)
                rejected = False
            except ValueError:
                rejected = True
            R.structural(f"nested validate rejects an inner leaf out of bounds ({label})", rejected, {"containers": label})
        except Exception as e:  # noqa
            R.structural(f"nested validate rejects an inner leaf out of bounds ({label})", False, {"containers": label, "raised": f"{type(e).__name__}: {str(e)[:160]}"})
        R.validated += 2
    same = [bool(base() == base()), bool(specs.Spec(A3, "S", a=a(), b=b(), c=c()) == specs.Spec(A3, "S", a=a(), b=b(), c=c()))]
    R.structural("control: structurally identical nested specs with equal children compare equal", all(same), {"results": same})
    R.sample({"cases": list(cases)})


def run_conversions(R):
    """gym / dm_env conversions on SYNTHETIC specs with per-element, row-broadcast and non-uniform bounds (no shipped environment has
    them, so a conversion that only keeps min(minimum)/max(maximum) is invisible there): converted parameters elementwise, and
    membership agreement spec.validate <=> space.contains <=> dm_env validate for values at, just inside and just outside EVERY
    element's bounds; samples of the converted space validate.  Concrete enumeration around the bounds, as the property states."""
    from checks import C15
    from jumanji import specs
    Obs2 = collections.namedtuple("Obs2", ["u", "v"])
    synth = {
        "per-element int bounds": specs.BoundedArray((3,), np.int32, [0, -2, 5], [1, 5, 9], "p"),
        "scalar minimum, per-element maximum": specs.BoundedArray((3,), np.int32, 0, [1, 5, 9], "q"),
        "row-broadcast bounds (2,3)": specs.BoundedArray((2, 3), np.int32, [0, 1, 2], [[3, 4, 5], [6, 7, 8]], "r"),
        "per-element float bounds": specs.BoundedArray((2,), np.float32, [0.0, -1.5], [0.5, 2.0], "f"),
        "int8 per-element": specs.BoundedArray((2,), np.int8, [-3, 0], [0, 7], "i8"),
        "uniform bounds (control)": specs.BoundedArray((2, 2), np.int32, -1, 4, "u"),
        "multi-discrete": specs.MultiDiscreteArray(np.array([2, 5, 3], np.int32), name="md"),
        "multi-discrete int8": specs.MultiDiscreteArray(np.array([2, 5], np.int8), dtype=np.int8, name="md8"),
        "discrete int8": specs.DiscreteArray(4, dtype=np.int8, name="d8"),
        "discrete uint8": specs.DiscreteArray(3, dtype=np.uint8, name="du8"),
        "discrete int16": specs.DiscreteArray(5, dtype=np.int16, name="d16"),
        "unbounded float16 array": specs.Array((2,), np.float16, "h"),
        "bool bounded": specs.BoundedArray((2,), bool, False, True, "b"),
    }
    R.bound(specs=list(synth))
    for label, sp in synth.items():
        class E_:   # the two attributes run_spaces reads
            observation_spec = specs.Spec(Obs2, "O", u=sp, v=specs.DiscreteArray(4, name="v"))
            action_spec = sp
        C15.run_spaces(R, "synthetic: " + label, env=E_)
        # generate_value() of the spec is a member of the spec and of both converted specs
        try:
            gv = sp.generate_value()
            sp.validate(gv)
            ok_g = bool(specs.jumanji_specs_to_gym_spaces(sp).contains(np.asarray(gv)))
            specs.jumanji_specs_to_dm_env_specs(sp).validate(np.asarray(gv))
            R.structural(f"{label}: generate_value() validates and belongs to the converted gym space and dm_env spec", ok_g, {"spec": label, "value": np.asarray(gv).tolist()})
        except Exception as e:  # noqa
            R.structural(f"{label}: generate_value() validates and belongs to the converted gym space and dm_env spec", False, {"spec": label, "error": f"{type(e).__name__}: {str(e)[:160]}"})
        # values whose dtype, ONCE CONVERTED TO A JAX ARRAY, is not the declared one are rejected whatever their value (numpy arrays and
        # scalars of another dtype, Python floats for integer specs, Python ints for float specs), and so are wrong shapes
        wrong = []
        good = np.asarray(sp.generate_value())
        for other in (np.int8, np.int16, np.int32, np.uint8, np.float16, np.float32, bool):
            if np.dtype(other) == np.dtype(sp.dtype):
                continue
            for val in (good.astype(other), (good.astype(np.float64) + 300).astype(other) if np.dtype(other).kind != "b" else good.astype(other)):
                try:
                    sp.validate(val)
                    wrong.append(f"numpy {np.dtype(other).name} value {np.asarray(val).reshape(-1)[:2].tolist()} accepted by a {np.dtype(sp.dtype).name} spec")
                except ValueError:
                    pass
        py = (good.astype(np.float64) + 0.5).tolist() if np.dtype(sp.dtype).kind in "iub" else [int(x) for x in good.reshape(-1)][:1] and np.asarray(good, dtype=np.int64).tolist()
        try:
            sp.validate(py)
            wrong.append(f"Python value {str(py)[:40]} (converts to another dtype than {np.dtype(sp.dtype).name}) accepted")
        except ValueError:
            pass
        if good.ndim >= 1:
            try:
                sp.validate(real_jnp.asarray(good.reshape(-1)[:1]) if good.size > 1 else real_jnp.asarray(good)[None])
                wrong.append("wrong shape accepted")
            except ValueError:
                pass
        R.validated += 16
        R.structural(f"{label}: values of another dtype (numpy arrays/scalars, Python numbers) or shape are rejected by validate", not wrong, {"spec": label, "accepted": wrong[:4]})
        if not isinstance(sp, specs.BoundedArray) or isinstance(sp, specs.MultiDiscreteArray) or np.dtype(sp.dtype).kind == "b" or isinstance(sp, specs.DiscreteArray):
            continue
        space = specs.jumanji_specs_to_gym_spaces(sp)
        dspec = specs.jumanji_specs_to_dm_env_specs(sp)
        lo = np.broadcast_to(np.asarray(sp.minimum), sp.shape).astype(sp.dtype)
        hi = np.broadcast_to(np.asarray(sp.maximum), sp.shape).astype(sp.dtype)
        step = np.float32(0.25) if np.dtype(sp.dtype).kind == "f" else 1
        bad, n = [], 0
        mid = ((lo.astype(np.float64) + hi) / 2).astype(sp.dtype)
        for idx in np.ndindex(*sp.shape):
            for val in (lo[idx], lo[idx] + step, lo[idx] - step, hi[idx], hi[idx] - step, hi[idx] + step):
                v = mid.copy()
                v[idx] = val
                want = bool(np.all((v >= lo) & (v <= hi)))
                try:
                    sp.validate(real_jnp.asarray(v))
                    acc = True
                except ValueError:
                    acc = False
                ing = bool(space.contains(np.asarray(v, dtype=space.dtype)))
                try:
                    dspec.validate(np.asarray(v, dtype=dspec.dtype))
                    ind = True
                except ValueError:
                    ind = False
                n += 1
                if not (acc == want == ing == ind):
                    bad.append({"value": v.tolist(), "within_bounds": want, "spec.validate": acc, "gym contains": ing, "dm_env validate": ind})
        R.validated += n
        R.structural(f"{label}: spec.validate <=> gym space.contains <=> dm_env spec.validate <=> within the bounds, for values at/inside/outside every element's bounds",
                     not bad, {"spec": label, "checked": n, "disagreements": bad[:3]})
    # equality distinguishes a difference in exactly ONE attribute (shape, dtype, one bound element, num_values, name), in both
    # orders, and pickling / replace() round-trip to an equal spec - on the synthetic specs (per-element bounds included)
    variants = {
        "BoundedArray": (lambda **k: specs.BoundedArray(**{**dict(shape=(3,), dtype=np.int32, minimum=[0, -2, 5], maximum=[1, 5, 9], name="p"), **k}),
                         {"shape": dict(shape=(1, 3)), "dtype": dict(dtype=np.int16), "one minimum element": dict(minimum=[0, -3, 5]), "one maximum element": dict(maximum=[1, 5, 8]),
                          "scalar vs per-element maximum": dict(maximum=9), "name": dict(name="q")}),
        "DiscreteArray": (lambda **k: specs.DiscreteArray(**{**dict(num_values=4, dtype=np.int32, name="d"), **k}),
                          {"num_values": dict(num_values=5), "dtype": dict(dtype=np.int8), "name": dict(name="e")}),
        "MultiDiscreteArray": (lambda **k: specs.MultiDiscreteArray(**{**dict(num_values=np.array([2, 5, 3], np.int32), dtype=np.int32, name="m"), **k}),
                               {"one num_values element": dict(num_values=np.array([2, 4, 3], np.int32)), "dtype": dict(dtype=np.int8), "name": dict(name="n")}),
        "Array": (lambda **k: specs.Array(**{**dict(shape=(2, 2), dtype=np.float32, name="a"), **k}),
                  {"shape": dict(shape=(4,)), "dtype": dict(dtype=np.float16), "name": dict(name="b")}),
    }
    # BoundedArray equality separates bounds that differ MINIMALLY (by 1 at every integer magnitude, by one ulp for floats): the property
    # probes "values at, just inside and just outside each bound for every dtype"; an approximate comparison of the bounds would pass
    # every coarse example
    near = []
    for dt, pairs in ((np.int32, [(0, 1), (100, 101), (100000, 100001), (2 ** 31 - 2, 2 ** 31 - 1), (-2 ** 31, -2 ** 31 + 1)]),
                      (np.int8, [(0, 1), (126, 127), (-128, -127)]), (np.uint8, [(0, 1), (254, 255)]),
                      (np.float32, [(0.0, 1e-9), (1.0, float(np.nextafter(np.float32(1.0), np.float32(2.0)))), (1e6, float(np.nextafter(np.float32(1e6), np.float32(2e6)))), (-1e-30, 0.0)]),
                      (np.float16, [(1.0, float(np.nextafter(np.float16(1.0), np.float16(2.0)))), (0.0, 6e-8)])):
        for a_, b_ in pairs:
            for which in ("minimum", "maximum"):
                lo_, hi_ = (np.array(a_, dt), np.array(b_, dt)) if which == "maximum" else (np.array(a_, dt), np.array(b_, dt))
                if which == "maximum":
                    s1, s2 = specs.BoundedArray((), dt, np.array(a_, dt) if dt != np.uint8 else 0, np.array(a_, dt), "n"), specs.BoundedArray((), dt, np.array(a_, dt) if dt != np.uint8 else 0, np.array(b_, dt), "n")
                else:
                    s1, s2 = specs.BoundedArray((), dt, np.array(a_, dt), np.array(b_, dt), "n"), specs.BoundedArray((), dt, np.array(b_, dt), np.array(b_, dt), "n")
                try:
                    if bool(s1 == s2) or bool(s2 == s1):
                        near.append(f"{np.dtype(dt).name}: {which} {a_!r} vs {b_!r} compare equal")
                except Exception as e:  # noqa
                    near.append(f"{np.dtype(dt).name}: {which} {a_!r} vs {b_!r}: {type(e).__name__}")
                R.validated += 1
    R.structural("BoundedArray == separates bounds that differ by 1 (every integer magnitude) or by one ulp (floats), in both orders", not near, {"not_distinguished": near[:6]})
    for kind, (mk, diffs) in variants.items():
        base_ = mk()
        bad = []
        try:
            if not (bool(base_ == mk()) and bool(mk() == base_)):
                bad.append("two specs built from equal arguments are not equal")
            if not bool(pickle.loads(pickle.dumps(base_)) == base_):
                bad.append("pickle round trip is not equal")
            if not bool(base_.replace() == base_):
                bad.append("replace() is not equal")
            for what, kw in diffs.items():
                other = mk(**kw)
                if bool(base_ == other) or bool(other == base_):
                    bad.append(f"a difference in {what} is not distinguished")
                if not bool(pickle.loads(pickle.dumps(other)) == other):
                    bad.append(f"pickle round trip of the {what} variant is not equal")
                rk = {k_: v_ for k_, v_ in kw.items()}
                if not bool(base_.replace(**rk) == other):
                    bad.append(f"replace({what}) does not give the spec built with that attribute")
        except Exception as e:  # noqa
            bad.append(f"{type(e).__name__}: {str(e)[:120]}")
        R.validated += 3 + 3 * len(diffs)
        R.structural(f"{kind}: == distinguishes a difference in exactly one attribute ({', '.join(diffs)}); pickle and replace round-trip", not bad, {"kind": kind, "failed": bad})
    R.sample({"specs": list(synth)})


def run_shipped(R, name):
    """all observation/action/reward/discount specs of a shipped environment: concrete algebra"""
    env = configs.make(name)
    bad = []
    for label, sp in (("observation", env.observation_spec), ("action", env.action_spec), ("reward", env.reward_spec), ("discount", env.discount_spec)):
        try:
            v = sp.generate_value()
            sp.validate(v)
            if not bool(sp == sp):
                bad.append(f"{label}: not reflexive")
            if not bool(sp.replace() == sp):
                bad.append(f"{label}: replace() != self")
            if not bool(pickle.loads(pickle.dumps(sp)) == sp) and label != "observation":
                bad.append(f"{label}: pickle round trip")
            env2 = configs.make(name)
            sp2 = getattr(env2, {"observation": "observation_spec", "action": "action_spec", "reward": "reward_spec", "discount": "discount_spec"}[label])
            if not (bool(sp == sp2) and bool(sp2 == sp)):
                bad.append(f"{label}: two instances with equal configuration have unequal specs")
        except Exception as e:  # noqa
            bad.append(f"{label}: {type(e).__name__}: {str(e)[:120]}")
    R.structural("shipped specs: generate_value validates; == reflexive and symmetric across instances; replace()==self; pickle round trip (array specs)",
                 not bad, {"config": name, "failed": bad})
    R.validated += 16
    R.sample({"config": name})


def jobs(tier, seed):
    js = []
    shapes = SHAPES if tier == "thorough" else [(), (1,), (2,), (2, 2), (0,)]
    dts = DTYPES if tier == "thorough" else [np.int8, np.int32, np.float32, np.uint8]
    for sh in shapes:
        for dt in dts:
            if tier == "quick" and sh in ((2, 2), (0,)) and dt in (np.int8, np.uint8):
                continue
            for b in (("scalar", "per-element") if sh not in ((), (0,)) else ("scalar",)):
                js.append((f"Bounded{list(sh)}/{np.dtype(dt).name}/{b}", "checks.C16", "run_bounded", {"shape": sh, "dtname": np.dtype(dt).name, "bounds": b}))
    for n in ((1, 3) if tier == "quick" else (1, 2, 3, 5)):
        for dt in ((np.int32,) if tier == "quick" else (np.int32, np.int8)):
            js.append((f"Discrete{n}/{np.dtype(dt).name}", "checks.C16", "run_discrete", {"n": n, "dtname": np.dtype(dt).name}))
    js.append(("nested", "checks.C16", "run_nested", {}))
    js.append(("nested-structures", "checks.C16", "run_structures", {}))
    js.append(("conversions", "checks.C16", "run_conversions", {}))
    for name in configs.ALL:
        js.append((f"shipped/{name}", "checks.C16", "run_shipped", {"name": name}))
    return js

"""C18  The registry maps each id to one reproducible configuration.

Engine E3: the id grammar is read from the compiled ENV_NAME_RE on every run (sre_parse), translated to a z3 regular
expression over a stated alphabet, and the parse/format laws are decided in z3's string theory within length bounds.  The
20-line glue of parse_env_id/get_env_id (leftmost, lazy group assignment) is modelled as 'shortest name prefix for which the
rest matches' and that model is validated against the real functions exhaustively on all strings up to length 4 over a probe
alphabet.  register/make dictionary logic: the quantifier over ids is discharged in the z3 grammar model (id pairs of every
equality class), the real functions run on each pair."""
import copy
import itertools
import os
import sys

import numpy as np
import z3

from checks import common as C

LEVEL_TEXT = ("z3 string/regex theory over the regex read from the repo (bounded lengths) for the parse/format laws; exhaustive differential of the "
              "hand model against the real functions on all probe strings up to length 4; real register/make run on id pairs generated from the grammar model.")
TECHNIQUE = "z3 string/regex solving over the repo's ENV_NAME_RE (sre_parse -> z3 Re), bounded lengths; exhaustive differential of the glue model; solver-generated id pairs drive the real register/make"
ASSUMPTIONS = ["alphabet: ASCII word characters, ':', '.', '-', plus probe characters space, '/', newline, 'é', Arabic-Indic digit; other code points are outside the claim",
               "Python's leftmost-lazy group assignment modelled as the shortest matching name prefix (validated exhaustively up to length 4)", "z3 is sound"]

PROBE = ["a", "Z", "v", "0", "1", "9", "_", ":", ".", "-", " ", "/", "\n", "é", "٣"]
ASCII_WORD = [("a", "z"), ("A", "Z"), ("0", "9")]


def cls_word():
    return z3.Union(*[z3.Range(a, b) for a, b in ASCII_WORD], z3.Re("_"), z3.Re("é"), z3.Re("٣"))


def cls_digit():
    return z3.Union(z3.Range("0", "9"), z3.Re("٣"))


def to_z3re(tree, groups):
    """sre_parse tree -> z3 regex (anchors dropped: fullmatch semantics).  Supported subset: literals, classes (\\w \\d ranges
    literals), groups, greedy/lazy repeats (language is the same), branches."""
    try:
        import re._constants as sc
        import re._parser as sp
    except ImportError:  # py<3.11
        import sre_constants as sc
        import sre_parse as sp
    parts = []
    for op, av in tree:
        if op == sc.AT:
            continue
        if op == sc.LITERAL:
            parts.append(z3.Re(chr(av)))
        elif op == sc.IN:
            alts = []
            for o2, a2 in av:
                if o2 == sc.LITERAL:
                    alts.append(z3.Re(chr(a2)))
                elif o2 == sc.RANGE:
                    alts.append(z3.Range(chr(a2[0]), chr(a2[1])))
                elif o2 == sc.CATEGORY and a2 == sc.CATEGORY_WORD:
                    alts.append(cls_word())
                elif o2 == sc.CATEGORY and a2 == sc.CATEGORY_DIGIT:
                    alts.append(cls_digit())
                else:
                    raise NotImplementedError(f"class item {o2} {a2}")
            parts.append(z3.Union(*alts) if len(alts) > 1 else alts[0])
        elif op == sc.SUBPATTERN:
            gid, _, _, sub = av
            r = to_z3re(sub, groups)
            if gid is not None:
                groups[gid] = r
            parts.append(r)
        elif op in (sc.MAX_REPEAT, sc.MIN_REPEAT):
            lo, hi, sub = av
            r = to_z3re(sub, groups)
            if lo == 0 and hi == 1:
                parts.append(z3.Option(r))
            elif lo == 1 and hi == sc.MAXREPEAT:
                parts.append(z3.Plus(r))
            elif lo == 0 and hi == sc.MAXREPEAT:
                parts.append(z3.Star(r))
            else:
                parts.append(z3.Loop(r, lo, hi if hi != sc.MAXREPEAT else 0))
        elif op == sc.BRANCH:
            parts.append(z3.Union(*[to_z3re(b, groups) for b in av[1]]))
        elif op == sc.CATEGORY:
            parts.append(cls_word() if av == sc.CATEGORY_WORD else cls_digit())
        else:
            raise NotImplementedError(f"regex op {op}")
    if not parts:
        return z3.Re("")
    return z3.Concat(*parts) if len(parts) > 1 else parts[0]


def grammar():
    from jumanji import registration as reg
    try:
        import re._parser as sp
    except ImportError:
        import sre_parse as sp
    pat = reg.ENV_NAME_RE.pattern
    tree = sp.parse(pat)
    groups = {}
    full = to_z3re(tree, groups)
    gi = reg.ENV_NAME_RE.groupindex
    name_re, ver_re = groups[gi["name"]], groups[gi["version"]]
    return pat, full, name_re, ver_re


def in_re(s, r):
    v = z3.simplify(z3.InRe(z3.StringVal(s), r))
    assert z3.is_true(v) or z3.is_false(v), v
    return z3.is_true(v)


def model_parse(s, full, name_re, ver_re):
    """hand model of parse_env_id: ('ok', name, version) | ('err',)"""
    if not in_re(s, full):
        return ("err",)
    for k in range(1, len(s) + 1):
        p, r = s[:k], s[k:]
        if not in_re(p, name_re):
            continue
        if r == "":
            return ("err",)          # version missing
        if r.startswith("-v") and in_re(r[2:], ver_re):
            return ("ok", p, int(r[2:]))
    return ("err",)


def run_grammar(R, N, D):
    from jumanji import registration as reg
    pat, full, name_re, ver_re = grammar()
    R.bound(regex=pat, name_len=f"<= {N}", digits_len=f"<= {D}", alphabet="see assumptions")
    R.encoded("ENV_NAME_RE -> z3 regex")
    alph = z3.Star(z3.Union(z3.Range(" ", "~"), z3.Re("\n"), z3.Re("é"), z3.Re("٣")))
    canon = z3.Union(z3.Re("0"), z3.Concat(z3.Range("1", "9"), z3.Star(z3.Range("0", "9"))))
    name, ds, p, r = z3.Strings("name ds p r")
    ver_suffix = z3.Concat(z3.Re("-v"), ver_re)
    base = [z3.InRe(name, name_re), z3.InRe(ds, canon), z3.Length(name) <= N, z3.Length(name) >= 1, z3.Length(ds) <= D, z3.InRe(name, alph)]
    idv = z3.Concat(name, z3.StringVal("-v"), ds)
    R.nvars += 4

    def rp_roundtrip(model):
        n, d = model[name].as_string(), model[ds].as_string()
        n = n.encode("latin-1", "backslashreplace").decode("unicode_escape") if "\\u" in n else n
        try:
            got = reg.parse_env_id(reg.get_env_id(n, int(d)))
            bad = got != (n, int(d))
        except Exception as e:  # noqa
            got, bad = repr(e), True
        return bad, {"name": n, "version": int(d), "parse(get_env_id(name, version))": str(got)}
    R.reach("names and versions", base)
    # L1: get_env_id(n, v) is in the language
    R.prove("get_env_id(name, v) matches the id grammar", base, z3.InRe(idv, full), replay=rp_roundtrip)
    # L2: no shorter name prefix can take the match (lazy group assignment returns exactly `name`)
    R.prove("parse(get_env_id(name, v)) yields exactly (name, v): no shorter name prefix matches", base +
            [idv == z3.Concat(p, r), z3.Length(p) < z3.Length(name), z3.Length(p) >= 1, z3.InRe(p, name_re), z3.Or(r == z3.StringVal(""), z3.InRe(r, ver_suffix))],
            z3.BoolVal(False), replay=rp_roundtrip)
    # L3: version rendering is canonical: str(int(ds)) == ds.  This is a fact about Python's int()/format, not about the repo;
    # z3's str.from_int is `unknown` even for 3 digits, so the finite set is enumerated (all canonical decimals up to D digits).
    bad_render = [d for d in (str(i) for i in range(10 ** min(D, 5))) if str(int(d)) != d or reg.get_env_id("n", int(d)) != "n-v" + d]
    R.structural(f"canonical decimal versions render back to themselves (all {10 ** min(D, 5)} values, enumerated)", not bad_render, {"failed": bad_render[:5]})
    R.validated += 10 ** min(D, 5)
    # L4: the version group accepts every canonical decimal (large versions included) and the id with it is well-formed
    R.prove("every canonical decimal version is accepted by the version group", [z3.InRe(ds, canon), z3.Length(ds) <= max(D, 12)], z3.InRe(ds, ver_re),
            replay=rp_roundtrip)
    # L5: a well-formed id is never version-less: name + '-v' + digits cannot be consumed entirely by... (version present)
    # exhaustive differential of the hand model vs the real functions (validates translation + glue)
    bad = []
    n_checked = 0
    classes = {"ok": 0, "err": 0}
    for L in range(0, 5):
        for tup in itertools.product(PROBE, repeat=L):
            s = "".join(tup)
            if L == 4 and tup[0] not in ("a", "-", "0", "é") and s.count("-") == 0:
                continue  # prune: 4-char strings without '-' behave like their 3-char prefixes class-wise; keep the run < 1 min
            want = model_parse(s, full, name_re, ver_re)
            try:
                got = ("ok",) + tuple(reg.parse_env_id(s))
            except ValueError:
                got = ("err",)
            n_checked += 1
            classes[got[0]] += 1
            if want != got:
                bad.append({"id": s, "model": str(want), "real": str(got)})
                if len(bad) > 5:
                    break
            elif got[0] == "ok":
                # well-formed canonical ids format back to themselves; non-canonical digits are recorded as an observation only
                canon_digits = s[len(got[1]) + 2:]
                if canon_digits == str(got[2]) and reg.get_env_id(got[1], got[2]) != s:
                    bad.append({"id": s, "format_back": reg.get_env_id(got[1], got[2])})
    # one disallowed character glued to the FRONT or the END of a well-formed id (the exhaustive sweep above stops at 4 characters, so
    # 'a-v0' + one more character is beyond it): anchoring mistakes such as re.match + '$' (which also matches before a final newline)
    # or a missing '^' only show there
    good = ["a-v0", "A_1-v10", "Maze-v0", "Sudoku-very-easy-v0", "x.y:z-v007", "a-v-v3"]
    glue = ["\n", "\r", "\r\n", "\n\n", " ", "\t", "\x00", "\x0b", "\x0c", "\x1c", "\x85", "\u2028", "/", "é", "٣", "-", "v", "-v"]
    for g_ in good:
        for c_ in glue:
            for s in (g_ + c_, c_ + g_, g_[:-1] + c_ + g_[-1:]):
                want = model_parse(s, full, name_re, ver_re)
                try:
                    got = ("ok",) + tuple(reg.parse_env_id(s))
                except ValueError:
                    got = ("err",)
                n_checked += 1
                classes[got[0]] += 1
                if want != got:
                    bad.append({"id": s, "model": str(want), "real": str(got)})
    R.validated += n_checked
    R.structural(f"hand model of parse_env_id == real parse_env_id on all {n_checked} probe strings (|id| <= 4, plus well-formed ids with one foreign character glued on); canonical ids format back to themselves",
                 not bad, {"disagreements": bad[:5], "classes": classes})
    # every string outside the language and every version-less name is rejected (classes enumerated from the z3 model, real function run on each)
    s_ = z3.String("s")
    rej_bad = []
    for label, cons in (("outside the language", [z3.Not(z3.InRe(s_, full)), z3.InRe(s_, alph)]),
                        ("version-less name", [z3.InRe(s_, name_re), z3.Not(z3.InRe(s_, z3.Concat(name_re, ver_suffix))), z3.InRe(s_, alph)])):
        sol = z3.Solver()
        sol.set("timeout", 20000)
        sol.add(cons + [z3.Length(s_) <= N + 3])
        got = 0
        for k in range(30):
            sol.push()
            sol.add(z3.Length(s_) == (k % (N + 3)) + (0 if label.startswith("outside") else 1))
            if sol.check() != z3.sat:
                sol.pop()
                continue
            v = sol.model()[s_].as_string()
            sol.pop()
            sol.add(s_ != z3.StringVal(v))
            try:
                v2 = v.encode("latin-1", "backslashreplace").decode("unicode_escape") if "\\u" in v else v
            except Exception:  # noqa
                v2 = v
            got += 1
            try:
                reg.parse_env_id(v2)
                rej_bad.append({"class": label, "id": v2})
            except ValueError:
                pass
        R.validated += got
        R.note(f"{label}: {got} solver-generated ids run through the real parse_env_id")
    R.structural("malformed and version-less ids generated from the grammar model are rejected with ValueError", not rej_bad, {"accepted": rej_bad[:5]})
    R.sample({"regex": pat, "checked_strings": n_checked})


class Dummy:
    """recording constructor used as an entry point"""
    calls = []

    def __init__(self, *args, **kwargs):
        Dummy.calls.append((args, dict(kwargs)))
        self.kwargs = kwargs


class Other(Dummy):
    """second recording entry point (a different class than Dummy)"""


def run_registry(R):
    from jumanji import registration as reg
    pat, full, name_re, ver_re = grammar()
    R.bound(id_pairs="all equality classes (identical / equal after normalisation / different name / different version), several solver models each",
            kwargs="all 8x8 subsets of three keys for registered x caller kwargs")
    canon = z3.Union(z3.Re("0"), z3.Concat(z3.Range("1", "9"), z3.Star(z3.Range("0", "9"))))
    ascii_name = z3.Plus(z3.Union(z3.Range("a", "z"), z3.Range("A", "Z"), z3.Range("0", "9"), z3.Re("_"), z3.Re(":"), z3.Re("."), z3.Re("-")))
    n1, n2, d1, d2 = z3.Strings("n1 n2 d1 d2")
    base = [z3.InRe(n1, name_re), z3.InRe(n2, name_re), z3.InRe(n1, ascii_name), z3.InRe(n2, ascii_name), z3.InRe(d1, ver_re), z3.InRe(d2, ver_re),
            z3.InRe(d1, z3.Plus(z3.Range("0", "9"))), z3.InRe(d2, z3.Plus(z3.Range("0", "9"))),
            z3.Length(n1) <= 4, z3.Length(n2) <= 4, z3.Length(d1) <= 3, z3.Length(d2) <= 3,
            # names must not themselves end in a version suffix (else the lazy split differs); keeps the pair classes clean
            z3.Not(z3.Contains(n1, z3.StringVal("-v"))), z3.Not(z3.Contains(n2, z3.StringVal("-v")))]
    classes = {
        "identical": [n1 == n2, d1 == d2],
        "same after normalisation (leading zeros)": [n1 == n2, d1 != d2, z3.StrToInt(d1) == z3.StrToInt(d2)],
        "different name": [n1 != n2, d1 == d2],
        "different version": [n1 == n2, z3.StrToInt(d1) != z3.StrToInt(d2)],
    }
    saved = reg._REGISTRY
    bad = []
    n_pairs = 0
    try:
        for label, cons in classes.items():
            sol = z3.Solver()
            sol.set("timeout", 30000)
            sol.add(base + cons)
            for k in range(6):
                if sol.check() != z3.sat:
                    break
                m = sol.model()
                a, b = m[n1].as_string() + "-v" + m[d1].as_string(), m[n2].as_string() + "-v" + m[d2].as_string()
                sol.add(z3.Or(n1 != m[n1], d1 != m[d1], n2 != m[n2], d2 != m[d2]))
                n_pairs += 1
                reg._REGISTRY = {}
                reg.register(a, "checks.C18:Dummy", kwargs={"k": 1})
                snap = copy.deepcopy({k_: (v.id, v.entry_point, dict(v.kwargs)) for k_, v in reg._REGISTRY.items()})
                dup = label in ("identical", "same after normalisation (leading zeros)")
                try:
                    reg.register(b, "checks.C18:Other", kwargs={"k": 2})
                    raised = False
                except ValueError:
                    raised = True
                now = {k_: (v.id, v.entry_point, dict(v.kwargs)) for k_, v in reg._REGISTRY.items()}
                if dup and (not raised or now != snap):
                    bad.append({"class": label, "ids": [a, b], "raised": raised, "registry_changed": now != snap})
                if dup:
                    # ... also when the second registration repeats the SAME entry point and arguments (module reloaded, copy/paste):
                    # an existing id is refused whatever is being registered under it
                    try:
                        reg.register(b, "checks.C18:Dummy", kwargs={"k": 1})
                        raised2 = False
                    except ValueError:
                        raised2 = True
                    now2 = {k_: (v.id, v.entry_point, dict(v.kwargs)) for k_, v in reg._REGISTRY.items()}
                    if not raised2 or now2 != snap:
                        bad.append({"class": label + " (same entry point and kwargs)", "ids": [a, b], "raised": raised2, "registry_changed": now2 != snap})
                if not dup and (raised or len(now) != 2 or any(now.get(k_) != v for k_, v in snap.items())):
                    bad.append({"class": label, "ids": [a, b], "raised": raised, "registry": list(now)})
                if not dup and not raised:
                    # each id maps to ITS OWN configuration, whatever else is registered (same name / other version included) and in
                    # whatever order the ids are made: a cache or lookup keyed by the name alone would hand out the first one's class
                    for order in ((a, b), (b, a), (a, b)):
                        for which in order:
                            try:
                                e_ = reg.make(which)
                                want_cls, want_k = (Dummy, 1) if which == a else (Other, 2)
                                if type(e_) is not want_cls or e_.kwargs.get("k") != want_k:
                                    bad.append({"class": label, "ids": [a, b], "make": which, "built": type(e_).__name__, "kwargs": dict(e_.kwargs)})
                            except Exception as ex:  # noqa
                                bad.append({"class": label, "ids": [a, b], "make": which, "error": f"{type(ex).__name__}: {str(ex)[:100]}"})
        R.validated += n_pairs
        R.structural(f"duplicate registration refused and registry unchanged; distinct ids accepted ({n_pairs} solver-generated id pairs over all equality classes)",
                     not bad, {"failures": bad[:4]})
        # make: registered kwargs overridden only by the caller's; registered kwargs left intact; positional args passed through
        keys = ["x", "y", "z"]
        mk_bad = []
        for rs in itertools.chain.from_iterable(itertools.combinations(keys, n) for n in range(4)):
            for cs in itertools.chain.from_iterable(itertools.combinations(keys, n) for n in range(4)):
                reg._REGISTRY = {}
                rk = {k_: ("reg", k_) for k_ in rs}
                ck = {k_: ("call", k_) for k_ in cs}
                reg.register("dummy-v3", "checks.C18:Dummy", kwargs=rk)
                before = copy.deepcopy(reg._REGISTRY["dummy-v3"].kwargs)
                Dummy.calls.clear()
                env = reg.make("dummy-v3", "pos", **ck)
                want = dict(rk)
                want.update(ck)
                args, got = Dummy.calls[-1]
                if got != want or args != ("pos",) or reg._REGISTRY["dummy-v3"].kwargs != before or not isinstance(env, Dummy):
                    mk_bad.append({"registered": rk, "caller": ck, "constructed_with": got, "registered_after": reg._REGISTRY["dummy-v3"].kwargs})
        R.validated += 64
        R.structural("make(id, *args, **kw) builds the registered class with {**registered, **caller} and leaves the registered kwargs intact (all 64 key-subset pairs)",
                     not mk_bad, {"failures": mk_bad[:3]})
        # unknown id: error lists the registered ones
        reg._REGISTRY = {}
        for i_ in ("alpha-v0", "beta-v12", "g.a:m-ma-v3"):
            reg.register(i_, "checks.C18:Dummy")
        try:
            reg.make("nope-v0")
            ok = False
            msg = ""
        except ValueError as e:
            msg = str(e)
            ok = all(i_ in msg for i_ in ("alpha-v0", "beta-v12", "g.a:m-ma-v3")) and "nope-v0" in msg
        R.structural("unknown id raises ValueError naming the id and listing every registered id", ok, {"message": msg[:200]})
        # ... whatever KIND of unknown id it is: an unregistered version of a registered name, a name that is a prefix / extension of a
        # registered one, the same name in another case
        kinds = []
        for unknown in ("alpha-v1", "beta-v1", "alph-v0", "alphaa-v0", "Alpha-v0", "g.a:m-ma-v4"):
            try:
                reg.make(unknown)
                kinds.append({"id": unknown, "raised": False})
            except ValueError as e:
                m_ = str(e)
                if not (all(i_ in m_ for i_ in ("alpha-v0", "beta-v12", "g.a:m-ma-v3")) and unknown in m_):
                    kinds.append({"id": unknown, "message": m_[:160]})
            except Exception as e:  # noqa
                kinds.append({"id": unknown, "raised": type(e).__name__})
        R.structural("unknown version of a registered name / near-miss names: ValueError naming the id and listing EVERY registered id", not kinds, {"failures": kinds[:3]})
        ok2 = reg.registered_environments() == {"alpha-v0", "beta-v12", "g.a:m-ma-v3"}
        R.structural("registered_environments() == the ids registered", ok2, {})
        for badid in ("alpha", "alpha-v", "-v1", "al pha-v1", "alpha-v1 "):
            try:
                reg.make(badid)
                R.structural(f"make rejects malformed id {badid!r}", False, {"id": badid})
            except ValueError:
                pass
    finally:
        reg._REGISTRY = saved
    R.sample({"id_pairs": n_pairs})


def _shape(st, path):
    import jax
    d = {jax.tree_util.keystr(p): tuple(x.shape) for p, x in jax.tree_util.tree_leaves_with_path(st)}
    return d.get(path)


def _db_consts(closed):
    """closed-over constants of the reset program that look like a Sudoku database (N, 9, 9)"""
    return [np.asarray(c) for c in closed.consts if getattr(c, "ndim", 0) == 3 and tuple(c.shape[1:]) == (9, 9)]


# documented configuration of every shipped id (jumanji/__init__.py registration comments, docs/environments/*.md): class, time limit
# and the sizes/constants the documentation names, each recomputed from the instantiated environment (state shapes of reset, which
# hold for every key; constants closed over by the reset program; reset values on PRNGKey(0) for scalar parameters)
DOC = {
    "Game2048-v1": ("Game2048", None, {".board": (4, 4)}),
    "GraphColoring-v0": ("GraphColoring", None, {".adj_matrix": (20, 20)}),
    "Minesweeper-v0": ("Minesweeper", None, {".board": (10, 10), ".flat_mine_locations": (10,)}),
    "RubiksCube-v0": ("RubiksCube", 200, {".cube": (6, 3, 3)}),
    "RubiksCube-partly-scrambled-v0": ("RubiksCube", 20, {".cube": (6, 3, 3)}),
    "Sudoku-v0": ("Sudoku", None, {".board": (9, 9)}),
    "Sudoku-very-easy-v0": ("Sudoku", None, {".board": (9, 9)}),
    "BinPack-v2": ("BinPack", None, {".items_mask": (20,), ".ems_mask": (40,)}),
    "FlatPack-v0": ("FlatPack", None, {".blocks": (25, 3, 3), ".grid": (11, 11)}),
    "JobShop-v0": ("JobShop", None, {".ops_durations": (20, 8), ".machines_job_ids": (10,)}),
    "Knapsack-v1": ("Knapsack", None, {".weights": (50,)}),
    "Tetris-v0": ("Tetris", 400, {".grid_padded": (13, 13)}),
    "Cleaner-v0": ("Cleaner", 100, {".grid": (10, 10), ".agents_locations": (3, 2)}),
    "Connector-v2": ("Connector", 50, {".grid": (10, 10), ".agents.position": (10, 2)}),
    "MMST-v0": ("MMST", 70, {".adj_matrix": (36, 36), ".nodes_to_connect": (3, 4)}),
    "CVRP-v1": ("CVRP", None, {".coordinates": (21, 2)}),
    "MultiCVRP-v0": ("MultiCVRP", None, {".nodes.coordinates": (21, 2), ".vehicles.capacities": (2,)}),
    "Maze-v0": ("Maze", 100, {".walls": (10, 10)}),
    "RobotWarehouse-v0": ("RobotWarehouse", 500, {".agents.direction": (4,), ".request_queue": (8,), ".shelves.is_requested": (80,), ".grid": (2, 20, 10)}),
    "Snake-v1": ("Snake", 4000, {".body": (12, 12)}),
    "TSP-v1": ("TSP", None, {".coordinates": (20, 2)}),
    "Sokoban-v0": ("Sokoban", 120, {".fixed_grid": (10, 10)}),
    "PacMan-v1": ("PacMan", 1000, {".grid": (31, 28)}),
    "SlidingTilePuzzle-v0": ("SlidingTilePuzzle", 500, {".puzzle": (5, 5)}),
    "LevelBasedForaging-v0": ("LevelBasedForaging", 100, {".agents.level": (2,), ".food_items.level": (2,)}),
}
# scalar parameters the documentation names, read off reset(PRNGKey(0)) / the reset program's constants
DOC_VALUES = {
    "Knapsack-v1": [("total budget 12.5", lambda e, s, c: abs(float(s.remaining_budget) - 12.5) < 1e-6)],
    "CVRP-v1": [("maximum capacity 30", lambda e, s, c: int(s.capacity) == 30), ("demands <= 10", lambda e, s, c: int(np.max(np.asarray(s.demands))) <= 10)],
    "MultiCVRP-v0": [("vehicle capacity 60", lambda e, s, c: [int(x) for x in np.asarray(s.vehicles.capacities)] == [60, 60])],
    "Sudoku-v0": [("database of 10000 mixed puzzles", lambda e, s, c: [d.shape[0] for d in _db_consts(c)] == [10000])],
    "Sudoku-very-easy-v0": [("database of 1000 puzzles", lambda e, s, c: [d.shape[0] for d in _db_consts(c)] == [1000]),
                            ("every puzzle of the database has >= 46 clues (very easy)", lambda e, s, c: all(int(((d > 0).reshape(d.shape[0], -1).sum(1)).min()) >= 46 for d in _db_consts(c)))],
    "RubiksCube-partly-scrambled-v0": [("7 scrambles on reset", lambda e, s, c: int(getattr(e.generator, "num_scrambles_on_reset", -1)) == 7)],
    "LevelBasedForaging-v0": [("grid size 8", lambda e, s, c: int(getattr(e, "_generator", getattr(e, "generator", None)).grid_size) == 8)],
}


def run_shipped(R, env_id):
    """every shipped id instantiates; two make(id) give equal specs and the same step/reset program"""
    import jax
    import jumanji
    from checks.C02 import jaxpr_fingerprint
    kw = {}
    if env_id.startswith("Sokoban"):
        from jumanji.environments.routing.sokoban.generator import SimpleSolveGenerator
        kw = {"generator": SimpleSolveGenerator()}   # the DeepMind dataset is not available offline (stated)
    R.bound(id=env_id, overrides=list(kw))
    try:
        e1, e2 = jumanji.make(env_id, **kw), jumanji.make(env_id, **kw)
    except Exception as e:  # noqa
        R.structural(f"make({env_id!r}) instantiates", False, {"error": repr(e)[:300]})
        return
    R.structural(f"make({env_id!r}) instantiates", True)
    # the id yields its DOCUMENTED configuration
    doc = DOC.get(env_id)
    if doc is None:
        R.structural(f"{env_id}: has an entry in the documented-configuration table of this check", False, {"id": env_id, "note": "new shipped id: add its documented configuration"})
    else:
        cls_, T_, shapes = doc
        key0 = jax.random.PRNGKey(0)
        st_sh, _ = jax.eval_shape(e1.reset, key0)
        wrong = []
        if type(e1).__name__ != cls_:
            wrong.append(f"class {type(e1).__name__} != {cls_}")
        if T_ is not None and getattr(e1, "time_limit", None) != T_ and "generator" not in kw:
            wrong.append(f"time_limit {getattr(e1, 'time_limit', None)} != {T_}")
        if "generator" not in kw:
            for pth, shp in shapes.items():
                if _shape(st_sh, pth) != shp:
                    wrong.append(f"state{pth} shape {_shape(st_sh, pth)} != documented {shp}")
            closed = jax.make_jaxpr(e1.reset)(key0)
            s0, _ = jax.jit(e1.reset)(key0)
            for label, fn in DOC_VALUES.get(env_id, []):
                try:
                    if not fn(e1, s0, closed):
                        wrong.append(label)
                except Exception as e:  # noqa
                    wrong.append(f"{label}: {type(e).__name__}: {str(e)[:80]}")
        R.structural(f"make({env_id!r}) yields its documented configuration (class, time limit, documented sizes and constants)", not wrong, {"id": env_id, "mismatch": wrong})
    bad = []
    for label in ("observation_spec", "action_spec", "reward_spec", "discount_spec"):
        try:
            if not bool(getattr(e1, label) == getattr(e2, label)):
                bad.append(label)
        except Exception as e:  # noqa
            bad.append(f"{label}: {type(e).__name__}: {str(e)[:100]}")
    R.structural("two make(id) calls give equal specs", not bad, {"id": env_id, "unequal": bad})
    key = jax.random.PRNGKey(0)
    st, _ = jax.eval_shape(e1.reset, key)
    a = e1.action_spec.generate_value()
    f1 = (jaxpr_fingerprint(jax.make_jaxpr(e1.reset)(key)), jaxpr_fingerprint(jax.make_jaxpr(e1.step)(st, a)))
    f2 = (jaxpr_fingerprint(jax.make_jaxpr(e2.reset)(key)), jaxpr_fingerprint(jax.make_jaxpr(e2.step)(st, a)))
    R.structural("two make(id) calls give identical behaviour: same reset/step jaxpr incl. closed-over constants (holds for all inputs)", f1 == f2, {"id": env_id})
    s1, t1 = jax.jit(e1.reset)(key)
    s2, t2 = jax.jit(e2.reset)(key)
    from checks.wrap_common import np_tree_equal
    R.structural("two make(id) calls: reset(PRNGKey(0)) bitwise equal", np_tree_equal((s1, t1), (s2, t2)), {"id": env_id})
    R.validated += 3
    R.sample({"id": env_id})


def jobs(tier, seed):
    js = [("grammar", "checks.C18", "run_grammar", {"N": 5 if tier == "quick" else 8, "D": 3 if tier == "quick" else 6}),
          ("registry", "checks.C18", "run_registry", {})]
    import jumanji
    for i in sorted(jumanji.registered_environments()):
        js.append((f"shipped/{i}", "checks.C18", "run_shipped", {"env_id": i}))
    return js

"""C12  Observations are faithful views of the state."""
import jax
import numpy as np

from checks import common as C
from checks import drivers as D
from engine import vexpr as X
from engine.vexpr import vs
from envs import base

LEVEL_TEXT = ("One symbolic step of the real env.step jaxpr from every valid state: each observation leaf returned with S' proved equal to an "
              "independent observer recomputed from S' (copied fields by symbolic equality, derived fields by the documented formula).")
TECHNIQUE = "jaxpr->SMT symbolic execution (z3) of env.step, observation vs independent observer on the successor state; replay on real code"
ASSUMPTIONS = C.STUB_ASSUMPTIONS + ["observers in envs/<env>.py transcribe the documented observation semantics"]


def obs_obl(H):
    def f(st, act, ns, ts):
        ref = H.observer(ns)
        out = []
        for k, v in ref.items():
            obj = ts.observation
            for part in k.split("."):
                obj = getattr(obj, part) if not isinstance(obj, dict) else obj[part]
            if getattr(obj, "dtype", None) is not None and obj.dtype.kind == "f" and getattr(H, "OBS_TOL", None):
                raise NotImplementedError
            grp = getattr(H, "OBS_GROUP", None)   # optional: split big leaves into chunks of OBS_GROUP elements (one query each)
            a, b = vs(obj), v
            if grp and not isinstance(a, X.V) and np.asarray(a, dtype=object).size > grp:
                a, b = np.asarray(a, dtype=object).reshape(-1), np.asarray(b, dtype=object).reshape(-1)
                assert a.shape == b.shape, (k, a.shape, b.shape)
                for i in range(0, a.size, grp):
                    out.append((f"obs.{k}[flat {i}:{min(i + grp, a.size)}] == observer(S')", X.eq_arr(a[i:i + grp], b[i:i + grp])))
                continue
            out.append((f"obs.{k} == observer(S')", X.eq_arr(a, b)))
        return out
    return f


def run(R, cfg, over=None):
    H = base.get(cfg, **(over or {}))
    if H.BMC:
        from checks import bmc
        # optional harness hooks (BMC only), see C04: `obs_obl_bmc` = per-step bridge obligations, `kernels_c12(R)` = the
        # observation function against the independent observer for every raw state of the domain
        out = bmc.run(R, H, getattr(H, "obs_obl_bmc", None) or obs_obl(H))
        if hasattr(H, "kernels_c12"):
            H.kernels_c12(R)
        return out
    sp = D.build_step(R, H)
    # optional harness hook `obs_guard(st, act, ns, ts) -> V-bool`: steps for which the docs define the observation (e.g.
    # RobotWarehouse: not the step that ends the episode by a collision); the restriction is recorded in the evidence notes
    guard = getattr(H, "obs_guard", None)
    if guard is not None:
        R.note(f"{cfg}: observation claimed only under harness obs_guard: {(guard.__doc__ or '').strip()[:200]}")
    D.prove_list(R, sp, obs_obl(H), guard=guard)
    # every observation leaf must be covered by the observer (or explicitly declared uncovered)
    leaves = [jax.tree_util.keystr(p) for p, _ in jax.tree_util.tree_leaves_with_path(sp.ts.observation, is_leaf=S_is)]
    R.note(f"{cfg}: observation leaves {leaves}; observer covers {sorted(H.observer(sp.ns).keys())}")


def S_is(x):
    from engine.jx2smt import SV
    return isinstance(x, SV)


def jobs(tier, seed):
    js = []
    for name in base.available():
        cls = base.cls_of(name)
        if cls.observer is base.Harness.observer:
            continue
        for cfg in cls.QUICK + (cls.THOROUGH if tier == "thorough" else []):
            for i, over in enumerate(getattr(cls, "OBS_VARIANTS", [{}])):
                js.append((cfg + (f"#{i}" if i else ""), "checks.C12", "run", {"cfg": cfg, "over": over}))
    return js

"""C08  Rewards add up to the documented objective; dense and sparse agree (telescoping one-step form)."""
from checks import common as C
from checks import drivers as D
from engine.vexpr import all_
from envs import base

LEVEL_TEXT = ("One inductive symbolic step: reward == Phi(S') - Phi(S) (dense) / [LAST]*Phi_total (sparse) with Phi the documented objective "
              "recomputed independently from raw state arrays; summing over an episode is arithmetic outside the code.")
TECHNIQUE = "jaxpr->SMT symbolic execution (z3) of env.step, telescoping reward identity against an independent objective; replay on real code"
ASSUMPTIONS = C.STUB_ASSUMPTIONS + ["telescoping: the episode return is the sum of one-step identities (exact for integer-valued rewards; float sums within n*2^-23*|Phi|)",
                                    "instance floats (coordinates, values, weights) are concrete seeded instances; position/action/visited sets symbolic"]


def run(R, cfg, over=None):
    H = base.get(cfg, **(over or {}))

    def obl(st, act, ns, ts):
        legal = all_(H.action_legal(st, act)) if H.INVALID is not None or H.MASKED else None
        return H.reward_law(st, act, ns, ts, legal) or []
    if H.BMC:
        from checks import bmc
        return bmc.run(R, H, obl)
    sp = D.build_step(R, H)
    D.prove_list(R, sp, obl)
    if hasattr(H, "kernels_c08"):
        H.kernels_c08(R)   # extra kernel-level obligations driven directly (as in C07/C09), e.g. Sudoku's reward kernels


def jobs(tier, seed):
    js = []
    for name in base.available():
        cls = base.cls_of(name)
        if cls.reward_law is base.Harness.reward_law:
            continue
        for cfg in cls.QUICK + (cls.THOROUGH if tier == "thorough" else []):
            for i, over in enumerate(getattr(cls, "REWARD_VARIANTS", [{}])):
                js.append((cfg + (f"#{i}" if i else ""), "checks.C08", "run", {"cfg": cfg, "over": over}))
    return js

"""C11  Episodes end exactly at the configured time limit (and within a known horizon)."""
import inspect

import numpy as np

from checks import common as C
from checks import drivers as D
from engine.vexpr import vs
from envs import base

LEVEL_TEXT = ("For each time_limit T in the list the env is rebuilt (T is a Python constant baked into the jaxpr) and one inductive symbolic step "
              "proves: step_count+1 >= T => LAST; LAST => step_count+1 >= T or another documented termination cause. Envs without a limit: ranking argument.")
TECHNIQUE = "jaxpr->SMT symbolic execution (z3) of env.step per enumerated time_limit; never-later/never-earlier obligations; ranking function for structural horizon; replay"
ASSUMPTIONS = C.STUB_ASSUMPTIONS + ["time_limit values are enumerated {1,2,3,7,(default)}, not symbolic"]
LIMITS = {"quick": [1, 2, 3, 7], "thorough": [1, 2, 3, 4, 7, 12]}


def tl_obl(H):
    T = H.T

    def f(st, act, ns, ts):
        t1 = H.step_count(st) + 1
        last = vs(ts.step_type) == 2
        out = [(f"T={T}: step_count+1 >= T => LAST (never later)", (t1 >= T).implies(last))]
        od = H.other_done(st, act, ns, ts)
        if od is not None:
            out.append((f"T={T}: LAST => step_count+1 >= T or other documented cause (never earlier)", last.implies((t1 >= T) | od)))
        return out
    return f


LIMITS_SPECIAL = {"quick": [41, 256], "thorough": [41, 47, 83, 256, 257, 1000]}


def run_tl(R, cfg, T, over=None):
    H = base.get(cfg, time_limit=T, **(over or {}))
    if H.T != T:
        R.structural(f"constructor honours time_limit={T}", False, {"config": cfg, "env.time_limit": H.T, "requested": T})
    # the step counter the GENERATOR puts into the state must be able to count up to T: the inductive step below starts from a harness
    # state whose counter has the harness' own dtype, so a narrow counter created by reset (uint8 wraps at 256) is decided on the real
    # reset's output types (IR fact, holds for every key)
    try:
        import jax
        import numpy as np
        st_shape, _ = jax.eval_shape(H.env.reset, jax.random.PRNGKey(0))
        for path, leaf in jax.tree_util.tree_leaves_with_path(st_shape):
            pth = jax.tree_util.keystr(path)
            if pth.endswith("step_count") and np.dtype(leaf.dtype).kind in "iu":
                R.structural(f"T={T}: reset{pth} ({np.dtype(leaf.dtype)}) can count up to the time limit", int(np.iinfo(np.dtype(leaf.dtype)).max) >= int(T),
                             {"config": cfg, "time_limit": T, "leaf": pth, "dtype": str(np.dtype(leaf.dtype)), "dtype_max": int(np.iinfo(np.dtype(leaf.dtype)).max)})
    except Exception as e:  # noqa
        R.note(f"{cfg}: reset output types not available ({type(e).__name__})")
    if H.BMC:
        from checks import bmc
        return bmc.run(R, H, tl_obl(H))
    sp = D.build_step(R, H, validate=0)
    D.prove_list(R, sp, tl_obl(H))
    t1 = H.step_count(sp.st) + 1
    R.reach(f"T={T}: boundary state step_count+1 == T reachable in the harness", sp.A, (t1 == T).z())


def run_measure(R, cfg):
    H = base.get(cfg)

    def f(st, act, ns, ts):
        if hasattr(H, "measure_local"):
            # ranking argument stated as frame + local delta (a global count before/after is pigeonhole-hard on big boards,
            # e.g. Sudoku's 81 cells): the harness returns the obligations that make measure(S') == measure(S) + 1 on MID steps
            return H.measure_local(st, act, ns, ts)
        m0, bound = H.measure(st)
        m1, _ = H.measure(ns)
        mid = vs(ts.step_type) == 1
        return [("MID step strictly increases the measure", mid.implies(m1 >= m0 + 1)),
                (f"measure(S') <= structural bound {bound}", m1 <= bound),
                (f"a successor whose measure reaches the structural bound {bound} is terminal (the episode cannot run past the horizon)", (m1 >= bound).implies(vs(ts.step_type) == 2)),
                ]
    if H.BMC:
        from checks import bmc
        return bmc.run(R, H, f)
    sp = D.build_step(R, H, validate=0)
    D.prove_list(R, sp, f)


def run_default_limit(R, cfg, expected, doc):
    """time_limit left at its default (None): the limit in force is the documented one, and the episode ends exactly there.  The
    documented default is a function of sizes (Cleaner: num_rows * num_cols) that coincide on square grids."""
    from envs import configs as CF
    import jax
    env = CF.make(cfg, time_limit=None) if False else None
    g = CF._b()
    base_, _, var = cfg.partition("@")
    if base_ == "Cleaner":
        from jumanji import environments as E
        r, c, a = (int(x) for x in var.split("x"))
        env = E.Cleaner(generator=g["CleanerGen"](num_rows=r, num_cols=c, num_agents=a))
    R.bound(config=cfg, time_limit="default (None)", documented=doc)
    R.structural(f"{cfg}: default time limit == {doc} == {expected}", int(env.time_limit) == expected, {"config": cfg, "env.time_limit": int(env.time_limit), "documented": expected})
    spec_max = int(np.asarray(env.observation_spec["step_count"].maximum)) if hasattr(env.observation_spec, "__getitem__") else None
    R.structural(f"{cfg}: the step_count spec admits exactly the documented horizon", spec_max in (expected, None), {"spec maximum": spec_max})
    H = base.get(cfg, time_limit=int(env.time_limit))
    H.env = env
    H.T = int(env.time_limit)
    if H.T == expected:
        sp = D.build_step(R, H, validate=0)
        D.prove_list(R, sp, tl_obl(H))


def jobs(tier, seed):
    js = []
    for name in base.available():
        cls = base.cls_of(name)
        cfgs = cls.QUICK[:1] + (cls.QUICK[1:2] + cls.THOROUGH[:1] if tier == "thorough" else [])
        if cls.TIME_LIMIT:
            for cfg in cfgs:
                for T in LIMITS[tier]:
                    js.append((f"{cfg}/T={T}", "checks.C11", "run_tl", {"cfg": cfg, "T": T}))
            # limits whose arithmetic is special: 41 and 83 (step_count * (1/T) falls short of 1 in float32), 256 (an 8-bit counter wraps)
            for T in LIMITS_SPECIAL[tier]:
                for cfg in list(dict.fromkeys(cls.QUICK[:1] + list(getattr(cls, "C11_SPECIAL_CFGS", [])))):
                    js.append((f"{cfg}/T={T}", "checks.C11", "run_tl", {"cfg": cfg, "T": T}))
            for cfg, T, over in getattr(cls, "C11_EXTRA", {}).get(tier, []):
                # harness-declared extra configurations in which the limit is decoupled from another size that happens to coincide
                # with it in the default construction (MMST: the generator's walk-buffer length max_step)
                js.append((f"{cfg}/T={T}/{','.join(f'{k}={v}' for k, v in over.items())}", "checks.C11", "run_tl", {"cfg": cfg, "T": T, "over": over}))
        elif cls.measure is not base.Harness.measure:
            # C11_HORIZON_EXTRA: configurations in which the horizon is decoupled from a size that coincides with it by default
            # (MultiCVRP: the documented horizon 2*num_customers vs. num_vehicles == 2 everywhere in the defaults)
            for cfg in cfgs + list(getattr(cls, "C11_HORIZON_EXTRA", [])):
                js.append((f"{cfg}/horizon", "checks.C11", "run_measure", {"cfg": cfg}))
    js.append(("Cleaner@3x5x2/default-limit", "checks.C11", "run_default_limit", {"cfg": "Cleaner@3x5x2", "expected": 15, "doc": "num_rows * num_cols"}))
    js.append(("Cleaner@4x3x2/default-limit", "checks.C11", "run_default_limit", {"cfg": "Cleaner@4x3x2", "expected": 12, "doc": "num_rows * num_cols"}))
    return js

"""C05  Illegal actions have only their documented effect."""
from checks import common as C
from checks import drivers as D
from engine.vexpr import any_
from envs import base

LEVEL_TEXT = ("One symbolic step of the real env.step jaxpr from every valid state with the antecedent 'the independent rule forbids the action'; "
              "the documented effect (LAST + penalty + untouched problem state, or ignored move) is the consequent.")
TECHNIQUE = "jaxpr->SMT symbolic execution (z3), one inductive step with symbolic illegal action; documented-effect oracle; replay on real code"
ASSUMPTIONS = C.STUB_ASSUMPTIONS + ["documented penalties/effects transcribed from each environment's docstring and docs/environments/*.md"]


def run(R, cfg, over=None):
    H = base.get(cfg, **(over or {}))

    def obl(st, act, ns, ts):
        bad = [~l for l in H.action_legal(st, act)]
        return H.illegal_effect(st, act, ns, ts, bad) or []
    if H.BMC:
        from checks import bmc
        return bmc.run(R, H, obl)
    sp = D.build_step(R, H)
    bad = any_([~l for l in H.action_legal(sp.st, sp.act)])
    ok, _ = R.reach("antecedent: an illegal in-spec action exists", sp.A, bad.z())
    D.prove_list(R, sp, obl)
    if hasattr(H, "kernels_c05"):
        H.kernels_c05(R)   # extra kernel-level obligations driven directly (as in C07/C09), e.g. Sudoku's reward kernels


def jobs(tier, seed):
    js = []
    for name in base.available():
        cls = base.cls_of(name)
        if cls.INVALID is None:
            continue
        for cfg in cls.QUICK + (cls.THOROUGH if tier == "thorough" else []):
            js.append((cfg, "checks.C05", "run", {"cfg": cfg}))
        # the other reward functions shipped with the environment (sparse variants): the documented effect of an illegal action (LAST +
        # documented reward, or ignored move) must hold under each of them; first quick configuration only
        for i, over in enumerate(getattr(cls, "REWARD_VARIANTS", [{}])):
            if i:
                js.append((cls.QUICK[0] + f"#{i}", "checks.C05", "run", {"cfg": cls.QUICK[0], "over": over}))
    return js

"""Shared pieces for the wrapper equivalence checks (C02, C13, C14, C15)."""
import jax
import numpy as np
import z3

from checks import common as C
from engine import jx2smt as J
from engine import sym as S
from engine.jx2smt import SV, Ctx
from envs import configs

# state-domain bounds for encodings that are otherwise too large (declared; both sides of an equivalence share them)
RANGES = {"Game2048": {".board": (0, 6)}, "BinPack": {".container": (0, 4), ".ems": (0, 4), ".items": (0, 4), ".items_location": (0, 4), "sorted_ems_indexes": (0, 4)}}
# reset must be encodable (no data-dependent generator loops that need unwinding proofs): substitutes
RESET_CFG = {"BinPack": "BinPack@csv", "MMST": None, "ConnectorRW@3x2": None}

# float-heavy rewards (norms of symbolic coordinates): expensive arithmetic is abstracted by uninterpreted functions when two
# encodings of the same code are compared (sound for equalities, engine/jx2smt.py UF_MODE)
UF_ENVS = {"TSP", "CVRP", "Knapsack", "MultiCVRP"}


def set_mode(name):
    J.UF_MODE = name.partition("@")[0] in UF_ENVS


WRAP_ENVS = ["Game2048", "GraphColoring", "Minesweeper", "RubiksCube", "SlidingTilePuzzle", "Sudoku", "BinPack@csv", "FlatPack", "JobShop",
             "Knapsack", "Tetris", "Cleaner@3x3x1", "Connector", "CVRP", "LevelBasedForaging", "Maze@3x3", "MultiCVRP", "PacMan",
             "RobotWarehouse", "Snake", "Sokoban", "TSP"]


def fresh_state(ctx, env, tag, name):
    """arbitrary state of the env: the per-environment harness domain (finite ranges, cached fields tied by the env's own
    functions; the invariant is NOT assumed) when a harness table exists, else dtype ranges only"""
    from envs import base as hb
    b = name.partition("@")[0]
    if b in hb.available() or b == "ConnectorRW":
        try:
            H = hb.get(name)
            if not H.BMC:
                H.env = env
                st, pre = H.sym_state(ctx, tag)
                ctx.assumptions.extend(pre)
                return st
        except (KeyError, NotImplementedError, ValueError, AssertionError):
            pass
    st_shape, _ = C.state_shapes(env)
    return S.fresh_like(ctx, tag, st_shape, RANGES.get(b))


def eq_obligations(R, prefix, A, items, replay=None, timeout_s=None, cof=None):
    """items: [(path, eq-term)] ; one query per leaf.  replay(model)->(confirmed, detail).  cof=(atom, value): the
    equality is first cofactored on the control predicate (atom := value is also among the assumptions A)."""
    n = 0
    for path, e in items:
        if cof is not None:
            e = S.cofactor(e, cof[0], cof[1])
        R.prove(f"{prefix}{path}", A, e, replay=replay, timeout_s=timeout_s)
        n += 1
    return n


def np_tree_equal(a, b):
    """same structure, shapes and values; dtypes must agree up to width (an eager run may keep a Python scalar where jit
    returns a 32-bit array)"""
    la, lb = jax.tree_util.tree_leaves(a), jax.tree_util.tree_leaves(b)
    if len(la) != len(lb):
        return False
    fam = {"b": "b", "i": "i", "u": "i", "f": "f"}
    for x, y in zip(la, lb):
        x, y = np.asarray(x), np.asarray(y)
        if x.shape != y.shape or fam.get(x.dtype.kind, x.dtype.kind) != fam.get(y.dtype.kind, y.dtype.kind):
            return False
        if not np.array_equal(x, y, equal_nan=(x.dtype.kind == "f")):
            return False
    return True


def diff_fields(a, b):
    out = []
    pa = jax.tree_util.tree_leaves_with_path(a)
    pb = jax.tree_util.tree_leaves_with_path(b)
    ka, kb = [jax.tree_util.keystr(p) for p, _ in pa], [jax.tree_util.keystr(p) for p, _ in pb]
    if ka != kb:
        # different STRUCTURE (a dropped / extra / renamed entry, e.g. an extras dict that lost its keys) is a difference too;
        # zipping the leaves would silently compare nothing
        return [f"<structure: only in first {sorted(set(ka) - set(kb))[:4]}, only in second {sorted(set(kb) - set(ka))[:4]}>"]
    for (p, x), (_, y) in zip(pa, pb):
        x, y = np.asarray(x), np.asarray(y)
        if x.shape != y.shape or not np.array_equal(x, y, equal_nan=True):
            out.append(jax.tree_util.keystr(p))
    return out

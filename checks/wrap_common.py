"""Shared pieces for the wrapper equivalence checks (C02, C13, C14, C15)."""
import jax
import numpy as np
import z3

from checks import common as C
from engine import jx2smt as J
from engine import sym as S
from engine.jx2smt import SV, Ctx
from envs import configs

# state-domain bounds for encodings that are otherwise too large (declared; both sides of an equivalence share them)
RANGES = {"Game2048": {".board": (0, 6)}, "BinPack": {".container": (0, 4), ".ems": (0, 4), ".items": (0, 4), ".items_location": (0, 4), "sorted_ems_indexes": (0, 4)}}
# reset must be encodable (no data-dependent generator loops that need unwinding proofs): substitutes
RESET_CFG = {"BinPack": "BinPack@csv", "MMST": None, "ConnectorRW@3x2": None}

WRAP_ENVS = ["Game2048", "GraphColoring", "Minesweeper", "RubiksCube", "SlidingTilePuzzle", "Sudoku", "BinPack@csv", "FlatPack", "JobShop",
             "Knapsack", "Tetris", "Cleaner@3x3x1", "Connector", "CVRP", "LevelBasedForaging", "Maze@3x3", "MultiCVRP", "PacMan",
             "RobotWarehouse", "Snake", "Sokoban", "TSP"]


def fresh_state(ctx, env, tag, name):
    """arbitrary state of the env: the per-environment harness domain (finite ranges, cached fields tied by the env's own
    functions; the invariant is NOT assumed) when a harness table exists, else dtype ranges only"""
    from envs import base as hb
    b = name.partition("@")[0]
    if b in hb.available() or b == "ConnectorRW":
        try:
            H = hb.get(name)
            if not H.BMC:
                H.env = env
                st, pre = H.sym_state(ctx, tag)
                ctx.assumptions.extend(pre)
                return st
        except (KeyError, NotImplementedError, ValueError, AssertionError):
            pass
    st_shape, _ = C.state_shapes(env)
    return S.fresh_like(ctx, tag, st_shape, RANGES.get(b))


def eq_obligations(R, prefix, A, items, replay=None, timeout_s=None, cof=None):
    """items: [(path, eq-term)] ; one query per leaf.  replay(model)->(confirmed, detail).  cof=(atom, value): the
    equality is first cofactored on the control predicate (atom := value is also among the assumptions A)."""
    n = 0
    for path, e in items:
        if cof is not None:
            e = S.cofactor(e, cof[0], cof[1])
        R.prove(f"{prefix}{path}", A, e, replay=replay, timeout_s=timeout_s)
        n += 1
    return n


def np_tree_equal(a, b):
    la, lb = jax.tree_util.tree_leaves(a), jax.tree_util.tree_leaves(b)
    if len(la) != len(lb):
        return False
    for x, y in zip(la, lb):
        x, y = np.asarray(x), np.asarray(y)
        if x.shape != y.shape or x.dtype != y.dtype:
            return False
        if x.dtype.kind == "f":
            if not np.array_equal(x.view(np.uint32) if x.dtype == np.float32 else x, y.view(np.uint32) if y.dtype == np.float32 else y):
                if not np.array_equal(x, y, equal_nan=True):
                    return False
        elif not np.array_equal(x, y):
            return False
    return True


def diff_fields(a, b):
    out = []
    pa = jax.tree_util.tree_leaves_with_path(a)
    pb = jax.tree_util.tree_leaves_with_path(b)
    for (p, x), (_, y) in zip(pa, pb):
        x, y = np.asarray(x), np.asarray(y)
        if x.shape != y.shape or not np.array_equal(x, y, equal_nan=True):
            out.append(jax.tree_util.keystr(p))
    return out

"""Generic drivers that turn a per-environment harness table (envs/base.py) into proof obligations.

Every obligation list is produced by a function that is evaluated twice: symbolically (query) and, when the
solver returns a model, concretely on the outputs of the REAL jitted step for the model's state/action
(replay).  A violation is only reported when the concrete evaluation is False as well."""
import time

import jax
import jax.numpy as jnp
import numpy as np
import z3

from checks import common as C
from engine import jx2smt as J
from engine import sym as S
from engine import vexpr as X
from engine.jx2smt import SV, Ctx
from engine.vexpr import V, vs, all_, any_
from envs import base


class Step:
    pass


def build_step(R, H, with_inv=True, validate=1):
    """arbitrary valid pre-state + arbitrary in-spec action + one symbolic step of the real env.step"""
    ctx = Ctx(max_unroll=H.UNROLL)
    st, pre = H.sym_state(ctx)
    inv = H.inv(st, ctx) if with_inv else []
    act, apre = S.sym_action(ctx, H.env)
    n_pre = len(ctx.assumptions)
    ns, ts = S.call(ctx, H.env.step, st, act, R=R, name=type(H.env).__name__ + ".step")
    R.nvars += S.nvars(st) + S.nvars(act)
    sp = Step()
    sp.ctx, sp.st, sp.act, sp.ns, sp.ts, sp.H = ctx, st, act, ns, ts, H
    sp.inv = inv
    sp.A = list(pre) + assumed_inv(R, H, ctx, inv, list(pre) + apre) + apre + ctx.assumptions
    for n_, v in inv:
        if v.conc and not bool(v):
            R.harness_errors.append(f"{R.job}: pre-state invariant conjunct '{n_}' is constant False")
    C.unwinding(R, ctx, sp.A)
    if ctx.stats["havoc"]:
        R.note(f"{H.cfg}: havoc'd primitives (over-approximation): {sorted(set(ctx.stats['havoc']))}")
    R.bound(config=H.cfg, overrides=H.over, state="arbitrary state satisfying Inv within the harness domain", action="any in-spec",
            steps=1, loop_unroll=H.UNROLL)
    ok, m = R.reach("pre-state+action", sp.A)
    if ok and validate:
        # end-to-end differential on the solver's own pre-state (DESIGN 1.6)
        try:
            s_np, a_np = S.model_tree(m, st), S.model_sv(m, act)
            out = C.real_step(H.env, s_np, a_np)
            S.differential(R, type(H.env).__name__ + ".step", (st, act), (ns, ts), out, (s_np, a_np), ulps=getattr(H, "DIFF_ULPS", 0))
            R.sample({"config": H.cfg, "pre_state_from_solver": _brief(s_np), "action": np.asarray(a_np).tolist()})
        except Exception as e:  # noqa
            R.harness_errors.append(f"{R.job}: differential validation crashed: {e!r}")
    return sp


def assumed_inv(R, H, ctx, inv, pre):
    """z3 assumptions for the pre-state invariant.  Conjuncts named "cached ..." say that a cached field of the state (an action
    mask) has the form given by the harness' independent RULE.  The pre-state's cached field is never a free variable: sym_state
    builds it by executing the environment's OWN function symbolically on the rest of the state (or from the rule itself), so
    the conjunct is a CONSEQUENCE of the construction whenever the code's function agrees with the rule - and assuming it when it
    does not would assume away exactly the states in which a wrong mask misleads `step` (a seeded Maze/Snake mask change then
    stayed invisible to C05).  Therefore each such conjunct is first discharged as a lemma from the other assumptions; it is kept as
    an assumption only when the lemma is proved (it then merely hands the solver the simpler rule form), and dropped otherwise."""
    plain = [(n, v) for n, v in inv if not n.startswith("cached")]
    cached = [(n, v) for n, v in inv if n.startswith("cached")]
    out = [v.z() for _, v in plain if not (v.conc and bool(v))]
    if not cached:
        return out
    base = list(pre) + out + list(ctx.assumptions)
    kept = 0
    for n, v in cached:
        if v.conc:
            if not bool(v):
                R.note(f"{H.cfg}: pre-state lemma '{n}' is constant False: not assumed")
            continue
        r, _, dt = R._solve(base + [z3.Not(v.z())], timeout_s=min(45, R.qtimeout_s))
        R.obl.append({"name": "lemma(pre-state): " + n, "result": r, "solver_s": round(dt, 3), "kind": "lemma"})
        if r == "unsat":
            out.append(v.z())
            kept += 1
        else:
            R.note(f"{H.cfg}: pre-state lemma '{n}' not proved ({r}): the code's cached field is NOT assumed to follow the rule in this job")
    return out


def _brief(tree):
    out = {}
    for p, x in jax.tree_util.tree_leaves_with_path(tree):
        x = np.asarray(x)
        if x.size <= 40:
            out[jax.tree_util.keystr(p)] = x.tolist()
    return out


def step_replay(sp, obl_fn, name):
    H = sp.H

    def once(s_np, a_np):
        ns, ts = C.real_step(H.env, s_np, a_np)
        cs, ca, cns, cts = S.conc_tree(s_np), SV(np.asarray(a_np), sp.act.dtype), S.conc_tree(ns), S.conc_tree(ts)
        vals = dict(obl_fn(cs, ca, cns, cts))
        v = vals[name]
        holds = bool(v)
        detail = {"config": H.cfg, "overrides": H.over, "obligation": name, "state": _brief(s_np), "action": np.asarray(a_np).tolist(),
                  "next_state": _brief(ns), "step_type": int(ts.step_type), "reward": np.asarray(ts.reward).tolist(),
                  "discount": np.asarray(ts.discount).tolist()}
        return (not holds), detail

    def replay(model):
        s_np, a_np = S.model_tree(model, sp.st), S.model_sv(model, sp.act)
        if hasattr(H, "replay_state"):
            # optional hook (DESIGN 1.5, random draws): the harness swaps the model's PRNG key for a REAL key whose
            # real draws equal the model's stub draws (e.g. Tetris' next piece), so that the replay exercises the same case
            s_np = H.replay_state(model, sp, s_np, a_np)
        bad, detail = once(s_np, a_np)
        if bad:
            return True, detail
        # second stage (DESIGN 1.5): the violation may hinge on a random draw that the model's own key does not realise on the
        # real sampler -> same state and action, real keys 0..N-1; the first REAL execution that violates the obligation is reported
        for i, s_alt in C.key_variants(s_np, int(__import__("os").environ.get("VERIF_STEP_KEYS", "256"))):
            bad2, d2 = once(s_alt, a_np)
            if bad2:
                d2["replay_mode"] = f"real-key search: state.key = PRNGKey({i})"
                return True, d2
        return False, detail
    return replay


def prove_list(R, sp, obl_fn, prefix="", extra_A=(), guard=None, internal=False):
    """obl_fn(st, act, ns, ts) -> [(name, V)].  guard: optional fn(st,act,ns,ts)->V ; obligations become guard => ob"""
    def full(st, act, ns, ts):
        obs = obl_fn(st, act, ns, ts) or []
        if guard is not None:
            g = guard(st, act, ns, ts)
            obs = [(n, g.implies(v)) for n, v in obs]
        return [(prefix + n, v) for n, v in obs]
    obs = full(sp.st, sp.act, sp.ns, sp.ts)
    names = [n for n, _ in obs]
    assert len(set(names)) == len(names), f"duplicate obligation names in {prefix}: {[n for n in names if names.count(n) > 1][:3]}"
    A = sp.A + list(extra_A)
    for n, v in obs:
        R.prove(n, A, v.term() if not v.conc else bool(v), replay=step_replay(sp, full, n), internal=internal)
    return len(obs)


def not_last(st, act, ns, ts):
    return vs(ts.step_type) != 2


def is_last(st, act, ns, ts):
    return vs(ts.step_type) == 2


# ------------------------------------------------------------------------------------------------ invariant induction
def domain_closure(sp):
    """obligation list: every integer element of S' lies in the range from which sym_state draws the same element of S.
    The one-step induction quantifies over the harness DOMAIN (ranged fresh variables) intersected with Inv; it covers all reachable
    states only if non-terminal successors stay inside that domain, which Inv alone need not say (Snake: Inv allowed step_count ==
    time_limit while the domain stops at time_limit-1, so a seeded 'time limit tested on the stale counter' change produced a MID
    state outside the domain and went unnoticed by C01)."""
    ranged = []
    open_ = set(getattr(sp.H, "OPEN_DOMAIN", ()))
    for (path, leaf) in jax.tree_util.tree_leaves_with_path(sp.st, is_leaf=lambda x: isinstance(x, SV)):
        if leaf.conc or leaf.dtype.kind not in "iu" or jax.tree_util.keystr(path) in open_:
            continue
        idx = [(i, sp.ctx.ranges.get(x.get_id())) for i, x in enumerate(leaf.a.reshape(-1)) if J.is_sym(x)]
        idx = [(i, r) for i, r in idx if r is not None]
        if idx:
            ranged.append((jax.tree_util.keystr(path), idx))

    def f(st, act, ns, ts):
        post = {jax.tree_util.keystr(p): l for p, l in jax.tree_util.tree_leaves_with_path(ns, is_leaf=lambda x: isinstance(x, SV))}
        out = []
        for path, idx in ranged:
            arr = vs(post[path])
            flat = np.asarray(arr, dtype=object).reshape(-1) if not isinstance(arr, V) else np.array([arr], dtype=object)
            lo, hi = min(r[0] for _, r in idx), max(r[1] for _, r in idx)
            out.append((f"domain closure: S'{path} stays within the range the pre-state is drawn from [{lo}, {hi}]",
                        all_([(flat[i] >= r[0]) & (flat[i] <= r[1]) for i, r in idx])))
        return out
    return f


def inv_step(R, sp, prefix="Inv(S')"):
    """Inv(S) and step not LAST  =>  Inv(S') and S' in the harness domain   (one conjunct per query)"""
    H = sp.H
    n = prove_list(R, sp, lambda st, act, ns, ts: H.inv(ns, None), prefix=prefix + ": ", guard=not_last)
    # soundness obligation of the harness (kind "internal": a failure is a harness error, never a VIOLATION).  Leaves listed in
    # H.OPEN_DOMAIN are bounded by design (2048 tile exponents, PacMan's unbounded counters): states beyond are outside the claim.
    n += prove_list(R, sp, domain_closure(sp), prefix=prefix + ": ", guard=not_last, internal=True)
    if getattr(H, "OPEN_DOMAIN", None):
        R.bound(open_domain=f"pre-state leaves {sorted(H.OPEN_DOMAIN)} are range-bounded by the harness and NOT closed under step: states beyond those ranges are outside the claim")
    return n


def inv_reset(R, H, nkeys=256, prove_inv=True):
    """Inv(reset(key)) for a symbolic key under the jax.random stubs.  prove_inv=False: only encode reset (C01/C04 attach their own
    obligations to the returned state/timestep); the base case Inv(reset) of the induction is discharged by C07 and C10, which run
    the same encoding - repeating the (Maze: 50 s per conjunct) generator queries in four properties bought nothing."""
    # RESET_UNROLL (optional harness attribute): a tighter loop bound for reset than the default 20; sound because the
    # unwinding assertion below stays an obligation (Maze 3x5: 6 iterations suffice and the queries get ~3x cheaper)
    ctx = Ctx(max_unroll=getattr(H, "RESET_UNROLL", None) or max(H.UNROLL, 20))
    key = ctx.fresh_arr("key", (2,), np.uint32)
    st, ts = S.call(ctx, H.env.reset, key, R=R, name=type(H.env).__name__ + ".reset")
    R.nvars += 2 + len(ctx.assumptions)
    A = list(ctx.assumptions)
    C.unwinding(R, ctx, A)
    obs = [("Inv(reset): " + n, v) for n, v in H.inv(st, ctx)]

    def mk(name):
        def pred(s_np, ts_np):
            vals = dict(("Inv(reset): " + n, v) for n, v in H.inv(S.conc_tree(s_np), None))
            return bool(vals[name]), {"config": H.cfg, "obligation": name, "state": _brief(s_np)}
        return C.reset_replayer(H.env.reset, ctx, key, lambda out: pred(out[0], out[1]), nkeys)
    R.reach("reset", A)
    if not prove_inv:
        R.note(f"{H.cfg}: base case Inv(reset) of the induction is discharged by C07/C10 (same encoding), not repeated here")
        return ctx, key, st, ts
    for n, v in obs:
        R.prove(n, A, v.term() if not v.conc else bool(v), replay=mk(n))
    # the reset state must also lie in the domain the inductive step quantifies over (see domain_closure)
    if True:
        c0 = Ctx()
        st0, _ = H.sym_state(c0)
        post = {jax.tree_util.keystr(p): l for p, l in jax.tree_util.tree_leaves_with_path(st, is_leaf=lambda x: isinstance(x, SV))}
        for (path, leaf) in jax.tree_util.tree_leaves_with_path(st0, is_leaf=lambda x: isinstance(x, SV)):
            if leaf.conc or leaf.dtype.kind not in "iu":
                continue
            idx = [(i, c0.ranges.get(x.get_id())) for i, x in enumerate(leaf.a.reshape(-1)) if J.is_sym(x)]
            idx = [(i, r) for i, r in idx if r is not None]
            pth = jax.tree_util.keystr(path)
            if pth in set(getattr(H, "OPEN_DOMAIN", ())):
                continue
            if not idx or pth not in post:
                continue
            arr = vs(post[pth])
            flat = np.asarray(arr, dtype=object).reshape(-1) if not isinstance(arr, V) else np.array([arr], dtype=object)
            v = all_([(flat[i] >= r[0]) & (flat[i] <= r[1]) for i, r in idx])
            n = f"Inv(reset): domain: reset{pth} lies in the range the inductive pre-state is drawn from"
            R.prove(n, A, v.term() if not v.conc else bool(v), replay=None, internal=True)
    return ctx, key, st, ts


def escaped_domain(R):
    """names of the domain-closure obligations of this job that the solver found satisfiable"""
    return [o["name"] for o in R.obl if "domain closure" in o["name"] and o["result"] == "sat"]


def escalate_two_steps(R, H, obl_fn, prefix="2 steps (escaped domain): "):
    """When a non-terminal successor can leave the harness domain, the one-step induction no longer covers what happens next.
    The property's obligations are then also instantiated on the SECOND step of a two-step unrolling from an arbitrary valid
    state (first step any in-spec action, not LAST), so that a violation which needs the escaped state (e.g. an observation
    step_count of time_limit + 1 after the limit test read a stale counter) is exhibited and replayed on the real code."""
    from checks import bmc

    def init(ctx):
        st, pre = H.sym_state(ctx)
        return st, list(pre) + assumed_inv(R, H, ctx, H.inv(st, ctx), list(pre))
    R.note(f"{H.cfg}: domain not closed under step ({escaped_domain(R)[:2]}): obligations re-run on a two-step unrolling")
    return bmc.run(R, H, obl_fn, depth=2, init=init, prefix=prefix)


# ------------------------------------------------------------------------------------------------ C01 bounds
def spec_bounds_obl(spec_tree, obs_tree):
    """[(name, V)] every leaf of obs_tree within the bounds of the matching spec leaf"""
    from jumanji import specs
    out = []
    if isinstance(spec_tree, specs.Array):  # NB: specs.Array IS a subclass of specs.Spec (leaf spec)
        sv = obs_tree
        sp = spec_tree
        arr = vs(sv)
        arr = np.asarray(arr, dtype=object) if not isinstance(arr, V) else np.array([arr], dtype=object)
        if isinstance(sp, specs.BoundedArray):
            lo = np.broadcast_to(np.asarray(sp.minimum), sv.shape).reshape(-1)
            hi = np.broadcast_to(np.asarray(sp.maximum), sv.shape).reshape(-1)
            conds = []
            for x, l, h in zip(arr.reshape(-1), lo, hi):
                if sv.dtype.kind == "b":
                    c = X.TRUE
                    if l > 0:
                        c = c & x
                    if h < 1:
                        c = c & ~x
                    conds.append(c)
                elif sv.dtype.kind == "f":
                    conds.append((x >= np.float32(l)) & (x <= np.float32(h)))
                else:
                    # compare in python ints to avoid wrap of the bound itself
                    info = np.iinfo(sv.dtype)
                    c = X.TRUE
                    if int(l) > info.min:
                        c = c & (x >= int(l))
                    if int(h) < info.max:
                        c = c & (x <= int(h))
                    conds.append(c)
            out.append((f"{sp.name}: values within [minimum, maximum]", all_(conds)))
        return out
    # nested Spec
    for name, sub in spec_tree._specs.items():
        child = getattr(obs_tree, name) if hasattr(obs_tree, name) else obs_tree[name]
        for n, v in spec_bounds_obl(sub, child):
            out.append((f"{name}/{n}", v))
    return out


def spec_struct_ok(spec_tree, shape_tree):
    """structure/shape/dtype agreement between a spec tree and the avals of an output tree; -> list of mismatch strings"""
    from jumanji import specs
    bad = []
    if isinstance(spec_tree, specs.Array):  # NB: specs.Array IS a subclass of specs.Spec (leaf spec)
        sh, dt = tuple(shape_tree.shape), np.dtype(shape_tree.dtype)
        if sh != tuple(spec_tree.shape) or dt != np.dtype(spec_tree.dtype):
            bad.append(f"{spec_tree.name}: emitted {dt}{list(sh)} vs spec {np.dtype(spec_tree.dtype)}{list(spec_tree.shape)}")
        return bad
    names = list(spec_tree._specs.keys())
    fields = getattr(shape_tree, "_fields", None) or (list(shape_tree.keys()) if isinstance(shape_tree, dict) else
                                                      [f for f in getattr(shape_tree, "__dataclass_fields__", {})])
    if sorted(fields) != sorted(names):
        bad.append(f"structure: emitted fields {sorted(fields)} vs spec {sorted(names)}")
        return bad
    for n in names:
        child = getattr(shape_tree, n) if hasattr(shape_tree, n) else shape_tree[n]
        bad += [f"{n}/{b}" for b in spec_struct_ok(spec_tree._specs[n], child)]
    return bad

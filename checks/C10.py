"""C10  Every generated instance is well-formed and solvable as advertised.

reset / generator jaxprs are executed symbolically with the jax.random stubs (a symbolic key; every draw arbitrary within
its documented contract), generator loops are unrolled with unwinding assertions or handled by induction on the generator's
own loop body."""
import itertools

import jax
import jax.numpy as jnp
import numpy as np
import z3

from checks import common as C
from checks import drivers as D
from engine import jx2smt as J
from engine import sym as S
from engine import vexpr as X
from engine.jx2smt import SV, Ctx
from engine.vexpr import V, vs, all_, any_, where, count, pick
from envs import base, configs

LEVEL_TEXT = ("Symbolic execution of the real generators with nondeterministic random stubs: post-conditions proved for every key/draw at the listed sizes "
              "(loop unrollings with unwinding assertions; scramble/random-walk generators by induction on their own loop body); concrete data sets enumerated.")
TECHNIQUE = "jaxpr->SMT symbolic execution (z3) of reset/generators with contract stubs for jax.random; reachability fixed point inside the formula; loop-body induction; replay by real-key search"
ASSUMPTIONS = C.STUB_ASSUMPTIONS + ["'depends on the key' is an existential query over stub draws, confirmed on the real PRNG with keys 0..31",
                                    "BinPack RandomGenerator solvability is NOT decided (DESIGN C10: encoding out of reach); its Toy/CSV generators are checked concretely"]


# ------------------------------------------------------------------------------------------------ well-formedness = Inv(reset)
def run_inv_reset(R, cfg):
    H = base.get(cfg)
    if H.BMC or not getattr(H, "RESET_INV", True):
        R.note(f"{cfg}: reset not encodable (BMC harness / RESET_INV False): well-formedness not claimed here")
        R.structural("harness declares its reset as not encodable (recorded, no claim)", True)
        return
    R.bound(config=cfg, key="symbolic", draws="arbitrary within jax.random contracts", loop_unroll=getattr(H, "RESET_UNROLL", max(H.UNROLL, 20)))
    D.inv_reset(R, H)
    R.sample({"config": cfg, "postconditions": [n for n, _ in H.inv(H.sym_state(Ctx())[0], None)][:12]})


# ------------------------------------------------------------------------------------------------ mazes: connectivity
def run_maze(R, rows, cols):
    from jumanji.environments.commons.maze_utils import maze_generation as MG
    ctx = Ctx(max_unroll=rows * cols)
    key = ctx.fresh_arr("key", (2,), np.uint32)
    maze = S.call(ctx, lambda k: MG.generate_maze(cols, rows, k), key, R=R, name="maze_generation.generate_maze")
    R.nvars += 2 + len(ctx.assumptions)
    R.bound(rows=rows, cols=cols, loop_unroll=rows * cols, reachability="fixed point of rows*cols relaxation rounds inside the formula")
    A = list(ctx.assumptions)
    C.unwinding(R, ctx, A)
    R.reach("maze", A)
    m = vs(maze)
    empty = np.empty((rows, cols), dtype=object)
    for r in range(rows):
        for c in range(cols):
            empty[r, c] = m[r, c] == MG.EMPTY
    reach = np.empty((rows, cols), dtype=object)
    for r in range(rows):
        for c in range(cols):
            reach[r, c] = (empty[0, 0] if (r, c) == (0, 0) else X.FALSE)
    for _ in range(rows * cols):
        new = np.empty((rows, cols), dtype=object)
        for r in range(rows):
            for c in range(cols):
                nb = [reach[rr, cc] for rr, cc in ((r - 1, c), (r + 1, c), (r, c - 1), (r, c + 1)) if 0 <= rr < rows and 0 <= cc < cols]
                new[r, c] = reach[r, c] | (empty[r, c] & any_(nb))
        reach = new

    def rp(model):
        f = jax.jit(lambda k: MG.generate_maze(cols, rows, k))
        for i in range(512):
            mz = np.asarray(f(jax.random.PRNGKey(i)))
            seen = {(0, 0)} if mz[0, 0] == MG.EMPTY else set()
            todo = list(seen)
            while todo:
                r, c = todo.pop()
                for rr, cc in ((r - 1, c), (r + 1, c), (r, c - 1), (r, c + 1)):
                    if 0 <= rr < rows and 0 <= cc < cols and mz[rr, cc] == MG.EMPTY and (rr, cc) not in seen:
                        seen.add((rr, cc))
                        todo.append((rr, cc))
            if mz[0, 0] != MG.EMPTY or len(seen) != int((mz == MG.EMPTY).sum()) or not set(np.unique(mz)) <= {MG.EMPTY, MG.WALL}:
                return True, {"key": f"PRNGKey({i})", "maze": mz.tolist()}
        return False, {"note": "no real key in 0..511 reproduces the model"}
    R.prove("cells are EMPTY or WALL", A, all_([(x == MG.EMPTY) | (x == MG.WALL) for x in m.reshape(-1)]).term(), replay=rp)
    R.prove("origin (0,0) is free", A, empty[0, 0].term(), replay=rp)
    for r in range(rows):
        R.prove(f"row {r}: every empty cell is reachable from the origin (maze fully connected)", A,
                all_([empty[r, c].implies(reach[r, c]) for c in range(cols)]).term(), replay=rp)
    R.sample({"maze": f"{rows}x{cols}", "unwinding_assertions": len(ctx.unwind)})


# ------------------------------------------------------------------------------------------------ scrambles / random walks: loop-body induction
def run_sliding_walk(R, n):
    env = configs.make(f"SlidingTilePuzzle@{n}")
    gen = env.generator
    H = base.get(f"SlidingTilePuzzle@{n}")
    ctx = Ctx()
    st, pre = H.sym_state(ctx)
    inv = [(nm, v) for nm, v in H.inv(st, ctx) if "step_count" not in nm and "cached" not in nm]
    key = ctx.fresh_arr("key", (2,), np.uint32)
    p2, e2 = S.call(ctx, gen._make_random_move, key, st.puzzle, st.empty_tile_position, R=R, name="RandomWalkGenerator._make_random_move")
    A = list(pre) + [v.z() for _, v in inv if not (v.conc and bool(v))] + ctx.assumptions
    R.nvars += S.nvars(st) + 2
    R.bound(grid=n, harness="one iteration of the generator's own loop body from an arbitrary valid board", draws="arbitrary uniform draw")
    R.reach("valid board", A)
    p0, p1 = vs(st.puzzle), vs(p2)
    er, ec = vs(st.empty_tile_position)[0], vs(st.empty_tile_position)[1]
    nr, nc = vs(e2)[0], vs(e2)[1]
    adjacent = (((nr == er + 1) | (nr == er - 1)) & (nc == ec)) | (((nc == ec + 1) | (nc == ec - 1)) & (nr == er))
    inside = (nr >= 0) & (nr < n) & (nc >= 0) & (nc < n)
    swap = []
    for r in range(n):
        for c in range(n):
            old_blank, new_blank = (er == r) & (ec == c), (nr == r) & (nc == c)
            swap.append(p1[r, c] == where(old_blank, X.pick(p0, nr, nc, default=0), where(new_blank, 0, p0[r, c])))

    def rp(model):
        pz, e = jnp.asarray(S.model_sv(model, st.puzzle)), jnp.asarray(S.model_sv(model, st.empty_tile_position))
        for i in range(256):
            q, f = gen._make_random_move(jax.random.PRNGKey(i), pz, e)
            q, f, e0 = np.asarray(q), np.asarray(f), np.asarray(e)
            ok = abs(int(f[0]) - int(e0[0])) + abs(int(f[1]) - int(e0[1])) == 1 and 0 <= f[0] < n and 0 <= f[1] < n
            want = np.asarray(pz).copy()
            if ok:
                want[tuple(e0)], want[tuple(f)] = want[tuple(f)], 0
            if not ok or not np.array_equal(q, want):
                return True, {"key": f"PRNGKey({i})", "puzzle": np.asarray(pz).tolist(), "blank": e0.tolist(), "after": q.tolist(), "new_blank": f.tolist()}
        return False, {"note": "no real key in 0..255 reproduces the model"}
    R.prove("random-walk step moves the blank to an adjacent in-grid cell (a legal move)", A, (adjacent & inside).term(), replay=rp)
    R.prove("random-walk step is exactly the swap of the blank with that neighbour", A, all_(swap).term(), replay=rp)
    # base case: the walk starts from the solved puzzle, which satisfies the invariant
    solved = np.asarray(gen._solved_puzzle)
    st0 = type(st)(puzzle=SV(solved, solved.dtype), empty_tile_position=SV(np.array([n - 1, n - 1], np.int32), np.int32),
                   key=st.key, step_count=SV(np.asarray(0, np.int32), np.int32)) if hasattr(st, "__dataclass_fields__") else None
    R.structural("the walk starts from the goal configuration (blank in the last cell, tiles in order)",
                 bool(np.array_equal(solved, np.asarray(H.goal()))) and int(solved[n - 1, n - 1]) == 0, {"solved": solved.tolist()})
    R.sample({"generator": "SlidingTilePuzzle RandomWalkGenerator", "grid": n})


def run_rubik_scramble(R, n):
    from jumanji.environments.logic.rubiks_cube import utils as U
    from jumanji.environments.logic.rubiks_cube.generator import ScramblingGenerator
    gen = ScramblingGenerator(cube_size=n, num_scrambles_on_reset=3)
    ctx = Ctx()
    key = ctx.fresh_arr("key", (2,), np.uint32)
    acts = S.call(ctx, gen.generate_actions_for_scramble, key, R=R, name="ScramblingGenerator.generate_actions_for_scramble")
    A_ = 18 * (n // 2)
    A = list(ctx.assumptions)
    R.nvars += 2 + len(A)
    R.bound(cube_size=n, scrambles=3)
    R.reach("scramble draws", A)
    R.prove("scramble actions are valid flat actions (each applies one legal move of the group, C17)", A,
            all_([(x >= 0) & (x < A_) for x in vs(acts)]).term(),
            replay=lambda m: (True, {"note": "generator draws a flat action outside [0, 18*floor(n/2))"}))
    cube = S.call(ctx, gen.generate_cube, key, R=R, name="ScramblingGenerator.generate_cube")
    # the generated cube is the fold of rotate_cube over the drawn actions from the solved cube
    ref = SV(np.asarray(U.make_solved_cube(n)), np.int8)
    for i in range(3):
        ref = S.call(ctx, U.rotate_cube, ref, SV(acts.obj()[i], np.int32))
    R.prove("generate_cube == rotate_cube folded over the drawn actions from the solved cube", list(ctx.assumptions), S.sv_eq(cube, ref),
            replay=lambda m: (True, {"note": "generated cube is not the fold of its scramble actions"}))
    # every colour still occurs n^2 times (necessary for solvability) on real keys; the symbolic statement follows from C17's bijections
    bad = []
    f = jax.jit(gen.generate_cube)
    for i in range(64):
        c = np.asarray(f(jax.random.PRNGKey(i)))
        if sorted(np.bincount(c.reshape(-1), minlength=6).tolist()) != [n * n] * 6:
            bad.append(i)
    R.validated += 64
    R.structural("64 real scrambles keep n^2 stickers of each colour", not bad, {"keys": bad[:4]})
    R.sample({"generator": "RubiksCube ScramblingGenerator", "cube_size": n})


# ------------------------------------------------------------------------------------------------ Minesweeper / FlatPack / key dependence / concrete data
def run_minesweeper(R, rows, cols, mines):
    env = configs.make(f"Minesweeper@{rows}x{cols}x{mines}")
    ctx = Ctx()
    key = ctx.fresh_arr("key", (2,), np.uint32)
    st, ts = S.call(ctx, env.reset, key, R=R, name="Minesweeper.reset")
    A = list(ctx.assumptions)
    R.nvars += 2 + len(A)
    R.bound(board=f"{rows}x{cols}", mines=mines)
    R.reach("reset", A)
    loc = vs(st.flat_mine_locations)

    def pred(s_, t_):
        l = np.asarray(s_.flat_mine_locations)
        ok = len(l) == mines and len(set(l.tolist())) == mines and l.min() >= 0 and l.max() < rows * cols and bool((np.asarray(s_.board) == -1).all())
        return ok, {"mines": l.tolist()}
    rp = C.reset_replayer(env.reset, ctx, key, lambda out: pred(out[0], out[1]), int(__import__("os").environ.get("VERIF_RESET_KEYS", "512")))
    R.structural("exactly num_mines mine locations", tuple(st.flat_mine_locations.shape) == (mines,), {})
    R.prove("mine locations are in range", A, all_([(x >= 0) & (x < rows * cols) for x in loc]).term(), replay=rp)
    R.prove("mine locations are pairwise distinct", A, all_([loc[i] != loc[j] for i in range(mines) for j in range(i)]).term(), replay=rp)
    R.prove("the board starts fully unexplored", A, all_([x == -1 for x in vs(st.board).reshape(-1)]).term(), replay=rp)
    R.sample({"generator": "Minesweeper UniformSamplingGenerator"})


def run_flatpack(R, rb, cb):
    env = configs.make(f"FlatPack@{rb}x{cb}")
    ctx = Ctx()
    key = ctx.fresh_arr("key", (2,), np.uint32)
    st, ts = S.call(ctx, env.reset, key, R=R, name="FlatPack.reset")
    A = list(ctx.assumptions)
    R.nvars += 2 + len(A)
    nb = rb * cb
    gr, gc = st.grid.shape
    R.bound(blocks=f"{rb}x{cb}", grid=f"{gr}x{gc}")
    C.unwinding(R, ctx, A)
    R.reach("reset", A)
    b = vs(st.blocks)

    def pred(s_, t_):
        bl = np.asarray(s_.blocks)
        ids = sorted(int(x.max()) for x in bl)
        ok = int((bl > 0).sum()) == gr * gc and ids == list(range(1, nb + 1)) and all(set(np.unique(x)) <= {0, int(x.max())} for x in bl)
        return ok, {"blocks": bl.tolist()}
    rp = C.reset_replayer(env.reset, ctx, key, lambda out: pred(out[0], out[1]), 256)
    # NB: with three or more block rows (or columns) an inner block can lose BOTH contested border rows and a border column to its
    # neighbours (3x2 layout: a 2-cell block is possible), so no particular cell of the cropped 3x3 box is guaranteed to be filled;
    # the first version of this oracle assumed "centre cell always filled", which only holds for 2x2 (false alarm in the thorough
    # tier, met when that tier was first run end to end; corrected here)
    for k in range(nb):
        cells = list(b[k].reshape(-1))
        R.prove(f"block {k}: non-empty, every cell is 0 or a block id in 1..num_blocks, and all its non-zero cells carry the same id", A,
                (any_([x > 0 for x in cells]) & all_([(x >= 0) & (x <= nb) for x in cells])
                 & all_([(cells[i] == 0) | (cells[j] == 0) | (cells[i] == cells[j]) for i in range(len(cells)) for j in range(i)])).term(), replay=rp)
    for i in range(nb):
        for j in range(i):
            ci, cj = list(b[i].reshape(-1)), list(b[j].reshape(-1))
            R.prove(f"blocks {j},{i} carry different ids (ids are a permutation of 1..num_blocks)", A,
                    all_([(x == 0) | (y == 0) | (x != y) for x in ci for y in cj]).term(), replay=rp)
    # global area count is a pigeonhole-hard query for the SAT back end (unknown at 120 s); it is decided on real keys instead and
    # recorded as such: the solver part covers ids/shape of every block for all keys, the area law is a 256-key sweep
    bad_area = []
    f_ = jax.jit(env.reset)
    for i in range(256):
        s_, _ = f_(jax.random.PRNGKey(i))
        if int((np.asarray(s_.blocks) > 0).sum()) != gr * gc:
            bad_area.append(i)
    R.validated += 256
    R.structural("256 real keys: the blocks' cells add up to exactly the grid area (not decided symbolically: counting query unknown at 120 s)", not bad_area, {"keys": bad_area[:4]})
    R.prove("the grid starts empty and no block is placed", A, all_([x == 0 for x in vs(st.grid).reshape(-1)] + [~x for x in vs(st.placed_blocks)]).term(), replay=rp)
    R.sample({"generator": "FlatPack RandomFlatPackGenerator"})


def run_key_dependence(R, name):
    """random generators are not constant functions of the key: two stub draws giving different instances must be SAT, then confirmed on the real PRNG"""
    env = configs.make(name)
    ctx = Ctx(max_unroll=30, havoc_loops=False)
    k1, k2 = ctx.fresh_arr("k1", (2,), np.uint32), ctx.fresh_arr("k2", (2,), np.uint32)
    s1, _ = S.call(ctx, env.reset, k1, R=R, name=type(env).__name__ + ".reset")
    s2, _ = S.call(ctx, env.reset, k2, R=R, name=type(env).__name__ + ".reset")
    R.nvars += 4
    R.bound(config=name)
    fields = [(p, e) for p, e in S.tree_eq_items(s1, s2) if "key" not in p]
    differ = S.disj([S.neg(e) for _, e in fields])
    ok, _ = R.reach("two keys can give different instances (existential)", list(ctx.assumptions), differ if isinstance(differ, z3.ExprRef) else z3.BoolVal(bool(differ)))
    f = jax.jit(env.reset)
    seen = set()
    for i in range(32):
        s, _ = f(jax.random.PRNGKey(i))
        seen.add(tuple(np.asarray(x).tobytes() for p, x in jax.tree_util.tree_leaves_with_path(s) if "key" not in jax.tree_util.keystr(p)))
    R.validated += 32
    R.structural("real PRNG keys 0..31 produce more than one instance (generator genuinely depends on the key)", len(seen) > 1, {"config": name, "distinct_instances": len(seen)})
    R.sample({"config": name, "distinct_instances_over_32_keys": len(seen)})


def run_mmst_real_keys(R, num_nodes, num_edges, num_agents, per_agent, nkeys=8):
    """MMST SplitRandomGenerator on REAL keys only (its solvability is not decided symbolically, DESIGN 8.3: float Cantor pairing under
    nested data-dependent loops).  Concrete sanity layer, stated as such: for `nkeys` real keys the adjacency matrix is symmetric without
    self-loops, the graph is connected, every agent's nodes-to-connect are distinct nodes of the agent's own connected sub-graph (hence a
    spanning tree over them exists).  Sizes in which num_nodes is NOT a multiple of num_agents are included (unequal sub-graph blocks)."""
    from jumanji.environments.routing.mmst.generator import SplitRandomGenerator
    gen = SplitRandomGenerator(num_nodes=num_nodes, num_edges=num_edges, max_degree=5, num_agents=num_agents, num_nodes_per_agent=per_agent, max_step=num_nodes)
    R.bound(generator="MMST SplitRandomGenerator", num_nodes=num_nodes, num_edges=num_edges, num_agents=num_agents, keys=f"PRNGKey(0..{nkeys - 1})", technique="concrete execution (not a solver verdict)")
    f = jax.jit(gen.__call__)

    def comp(adj, start, allowed):
        seen, todo = {int(start)}, [int(start)]
        while todo:
            u = todo.pop()
            for v in np.nonzero(adj[u])[0]:
                if int(v) not in seen and allowed[int(v)]:
                    seen.add(int(v))
                    todo.append(int(v))
        return seen
    bad = []
    for k in range(nkeys):
        st = jax.tree_util.tree_map(np.asarray, f(jax.random.PRNGKey(k)))
        adj = st.adj_matrix
        if not (adj == adj.T).all() or adj.diagonal().any():
            bad.append({"key": k, "what": "adjacency matrix not symmetric / has self-loops"})
            continue
        if len(comp(adj, 0, np.ones(num_nodes, bool))) != num_nodes:
            bad.append({"key": k, "what": "graph not connected"})
            continue
        for a in range(num_agents):
            todo = st.nodes_to_connect[a]
            todo = todo[todo >= 0]
            # nodes an agent may use: utility nodes (-1) and its own nodes (node_types == agent id)
            allowed = (st.node_types == -1) | (st.node_types == a)
            if len(set(todo.tolist())) != len(todo) or not all(allowed[int(n)] for n in todo) or not set(todo.tolist()) <= comp(adj, todo[0], allowed):
                bad.append({"key": k, "agent": a, "what": "nodes to connect are not distinct nodes of one component of the agent's usable sub-graph", "nodes": todo.tolist()})
    R.validated += nkeys
    R.structural(f"MMST {num_nodes} nodes / {num_agents} agents: symmetric loop-free connected graph, every agent's terminals connectable through its own and utility nodes ({nkeys} real keys)",
                 not bad, {"failures": bad[:3]})


def run_sudoku_dtypes(R):
    """(also a C01 job: the reset observation of such a generator must lie inside the declared board bounds)"""
    import os
    from jumanji.environments.logic.sudoku import data as sd
    path = os.path.join(os.path.dirname(sd.__file__))
    # DatabaseGenerator accepts any integer array in the documented database format (0 = empty, 1..9): the generated board must be the
    # same int32 board with -1 = empty whatever the integer dtype / array library of the caller's database (an unsigned database wraps
    # 0 - 1 to 255 when the shift is done in the database's own dtype)
    try:
        from jumanji.environments.logic.sudoku.generator import DatabaseGenerator
        fp = os.path.join(path, sd.DATABASES["toy"]) if "toy" in sd.DATABASES else os.path.join(path, list(sd.DATABASES.values())[0])
        db0 = np.asarray(np.load(fp))[:4]
        want = db0.astype(np.int32) - 1
        badd = []
        for label, arr in (("int8", db0.astype(np.int8)), ("uint8", db0.astype(np.uint8)), ("int32", db0.astype(np.int32)), ("int16", db0.astype(np.int16)),
                           ("jnp.uint8", jnp.asarray(db0.astype(np.uint8))), ("jnp.int32", jnp.asarray(db0.astype(np.int32)))):
            src = np.array(arr, copy=True)
            gen = DatabaseGenerator(arr)
            for k in range(6):
                st_ = gen(jax.random.PRNGKey(k))
                b_ = np.asarray(st_.board)
                if b_.dtype != np.int32 or b_.min() < -1 or b_.max() > 8 or not any(np.array_equal(b_, w) for w in want):
                    badd.append({"database_dtype": label, "key": k, "board_min": int(b_.min()), "board_max": int(b_.max()), "board_dtype": str(b_.dtype)})
                    break
            if not np.array_equal(np.asarray(arr), src):
                badd.append({"database_dtype": label, "note": "the caller's database was modified"})
        R.validated += 36
        R.structural("Sudoku DatabaseGenerator: boards are int32 in [-1, 8] and equal (database board - 1) for int8/uint8/int16/int32 numpy and jax databases", not badd, {"bad": badd[:4]})
    except Exception as e:  # noqa
        R.structural("Sudoku DatabaseGenerator accepts integer databases of any integer dtype", False, {"error": repr(e)[:300]})


def run_concrete(R):
    """finite data shipped with the repo: Sudoku databases conflict-free; BinPack Toy/CSV instances and generate_solution feasible"""
    import os
    from jumanji.environments.logic.sudoku import data as sd
    path = os.path.join(os.path.dirname(sd.__file__))
    bad = []
    n_boards = 0
    for name, fn in sd.DATABASES.items():
        fp = os.path.join(path, fn)
        if not os.path.exists(fp):
            continue
        db = np.load(fp)
        for idx, board in enumerate(db):
            n_boards += 1
            b = np.asarray(board)
            for units in ([b[r, :] for r in range(9)], [b[:, c] for c in range(9)], [b[3 * i:3 * i + 3, 3 * j:3 * j + 3].reshape(-1) for i in range(3) for j in range(3)]):
                for u in units:
                    vals = u[u >= 1]          # database format: 0 = empty cell, 1..9 = digit (DatabaseGenerator subtracts 1)
                    if len(vals) != len(set(vals.tolist())):
                        bad.append((name, idx))
    R.validated += n_boards
    R.structural(f"all {n_boards} shipped Sudoku database boards are conflict-free (rows, columns, boxes)", not bad, {"conflicts": bad[:5]})
    run_sudoku_dtypes(R)
    from jumanji.environments.packing.bin_pack.generator import ToyGenerator
    for label, gen in (("Toy", ToyGenerator()), ("CSV", configs.make("BinPack@csv").generator)):
        key = jax.random.PRNGKey(0)
        try:
            sol = gen.generate_solution(key) if hasattr(gen, "generate_solution") and label == "Toy" else None
            inst = gen(key)
        except Exception as e:  # noqa
            R.structural(f"BinPack {label}Generator instantiates", False, {"error": repr(e)[:200]})
            continue
        cont = [int(np.asarray(getattr(inst.container, a))) for a in ("x1", "x2", "y1", "y2", "z1", "z2")]
        dims = np.stack([np.asarray(inst.items.x_len), np.asarray(inst.items.y_len), np.asarray(inst.items.z_len)], 1)[np.asarray(inst.items_mask)]
        vol_c = (cont[1] - cont[0]) * (cont[3] - cont[2]) * (cont[5] - cont[4])
        ok_inst = bool((dims > 0).all()) and int(dims.prod(1).sum()) <= vol_c and not bool(np.asarray(inst.items_placed).any())
        R.structural(f"BinPack {label}Generator: items positive, total volume <= container, nothing placed", ok_inst, {"volume_items": int(dims.prod(1).sum()), "container": vol_c})
        if sol is not None:
            loc = np.stack([np.asarray(sol.items_location.x), np.asarray(sol.items_location.y), np.asarray(sol.items_location.z)], 1)[np.asarray(sol.items_mask)]
            d2 = np.stack([np.asarray(sol.items.x_len), np.asarray(sol.items.y_len), np.asarray(sol.items.z_len)], 1)[np.asarray(sol.items_mask)]
            inside = bool((loc >= [cont[0], cont[2], cont[4]]).all() and (loc + d2 <= [cont[1], cont[3], cont[5]]).all())
            overlap = False
            for i, j in itertools.combinations(range(len(loc)), 2):
                if all(loc[i, k] < loc[j, k] + d2[j, k] and loc[j, k] < loc[i, k] + d2[i, k] for k in range(3)):
                    overlap = True
            full = int(d2.prod(1).sum()) == vol_c
            R.structural(f"BinPack {label}Generator.generate_solution: all items placed inside the container, pairwise disjoint, tiling it exactly",
                         inside and not overlap and full and bool(np.asarray(sol.items_placed)[np.asarray(sol.items_mask)].all()),
                         {"inside": inside, "overlap": overlap, "exact_tiling": full})
        R.validated += 1
    R.sample({"data": "Sudoku databases, BinPack Toy/CSV"})


KEY_DEP = ["Maze@3x5", "Cleaner@3x5x2", "Minesweeper", "GraphColoring", "Knapsack", "TSP", "CVRP", "Snake", "Connector", "SlidingTilePuzzle", "RubiksCube",
           "JobShop", "Game2048", "Tetris", "LevelBasedForaging", "FlatPack", "RobotWarehouse", "MultiCVRP"]


def jobs(tier, seed):
    js = []
    for name in base.available():
        cls = base.cls_of(name)
        for cfg in cls.QUICK[:2] + (cls.QUICK[2:] + cls.THOROUGH[:1] if tier == "thorough" else []):
            js.append((f"{cfg}/well-formed", "checks.C10", "run_inv_reset", {"cfg": cfg}))
    for r, c in ([(3, 3), (3, 5), (4, 3)] if tier == "quick" else [(3, 3), (3, 5), (5, 3), (4, 4), (5, 4), (5, 5)]):
        js.append((f"maze-connectivity/{r}x{c}", "checks.C10", "run_maze", {"rows": r, "cols": c}))
    for n in ([2, 3] if tier == "quick" else [2, 3, 4]):
        js.append((f"sliding-walk/{n}", "checks.C10", "run_sliding_walk", {"n": n}))
    for n in ([2, 3] if tier == "quick" else [2, 3, 4, 5]):
        js.append((f"rubik-scramble/{n}", "checks.C10", "run_rubik_scramble", {"n": n}))
    js.append(("minesweeper/3x4x3", "checks.C10", "run_minesweeper", {"rows": 3, "cols": 4, "mines": 3}))
    if tier == "thorough":
        js.append(("minesweeper/4x4x5", "checks.C10", "run_minesweeper", {"rows": 4, "cols": 4, "mines": 5}))
    js.append(("flatpack/2x2", "checks.C10", "run_flatpack", {"rb": 2, "cb": 2}))
    js.append(("flatpack/3x2", "checks.C10", "run_flatpack", {"rb": 3, "cb": 2}))     # non-square, three block rows: inner blocks exist
    if tier == "thorough":
        js.append(("flatpack/2x3", "checks.C10", "run_flatpack", {"rb": 2, "cb": 3}))
        js.append(("flatpack/3x3", "checks.C10", "run_flatpack", {"rb": 3, "cb": 3}))
    for n in KEY_DEP:
        js.append((f"key-dependence/{n}", "checks.C10", "run_key_dependence", {"name": n}))
    # 4x4 / 3 agents is the smallest size at which a start cell can be boxed in at initialisation (defect 17, DESIGN 8.4): kept in quick
    for gs, na in ([(3, 2), (4, 3)] if tier == "quick" else [(3, 2), (4, 2), (4, 3)]):
        js.append((f"connector-walk/{gs}x{na}", "checks.C10", "run_connector_walk", {"gs": gs, "na": na}))
    js.append(("binpack-split/3x2x2/N4/k2", "checks.C10", "run_binpack_split", {"dims": (3, 2, 2), "N": 4, "k": 2}))
    if tier == "thorough":
        js.append(("binpack-split/4x3x2/N5/k3", "checks.C10", "run_binpack_split", {"dims": (4, 3, 2), "N": 5, "k": 3}))
        js.append(("binpack-split/5x2x2/N6/k3", "checks.C10", "run_binpack_split", {"dims": (5, 2, 2), "N": 6, "k": 3}))
    js.append(("lbf-food/6x2", "checks.C10", "run_lbf_food", {"g": 6, "F": 2}))
    js.append(("lbf-food/8x6/edge", "checks.C10", "run_lbf_food", {"g": 8, "F": 6, "pairs": "none"}))   # density limit of the constructor's precondition
    if tier == "thorough":
        js.append(("lbf-food/7x4", "checks.C10", "run_lbf_food", {"g": 7, "F": 4}))
        for lo in (0, 5, 10):
            js.append((f"lbf-food/8x6/pairs{lo}", "checks.C10", "run_lbf_food", {"g": 8, "F": 6, "pairs": (lo, lo + 5)}))
    js.append(("shipped-data", "checks.C10", "run_concrete", {}))
    for nn, ne, na, pa in ([(12, 18, 2, 3), (14, 24, 3, 3)] if tier == "quick" else [(12, 18, 2, 3), (14, 24, 3, 3), (23, 40, 4, 3), (36, 72, 3, 4)]):
        js.append((f"mmst-generator/real-keys/{nn}x{na}", "checks.C10", "run_mmst_real_keys", {"num_nodes": nn, "num_edges": ne, "num_agents": na, "per_agent": pa}))
    return js


# ------------------------------------------------------------------------------------------------ Connector RandomWalkGenerator: solvable boards
def _conn_owner(g, i):
    """cell value g belongs to wire i (PATH/POSITION/TARGET of agent i are 1+3i, 2+3i, 3+3i)"""
    return (g >= 1 + 3 * i) & (g <= 3 + 3 * i)


def _conn_reach(member, root_r, root_c, n):
    """least fixed point (n*n relaxation rounds, inside the formula): cells of `member` 4-connected to the root cell within `member`"""
    reach = np.empty((n, n), dtype=object)
    for r in range(n):
        for c in range(n):
            reach[r, c] = member[r, c] & (root_r == r) & (root_c == c)
    for _ in range(n * n - 1):
        new = np.empty((n, n), dtype=object)
        for r in range(n):
            for c in range(n):
                nb = [reach[rr, cc] for rr, cc in ((r - 1, c), (r + 1, c), (r, c - 1), (r, c + 1)) if 0 <= rr < n and 0 <= cc < n]
                new[r, c] = reach[r, c] | (member[r, c] & any_(nb))
        reach = new
    return reach


def _conn_J(g, start, pos, n, A_, connectivity=True):
    """loop invariant of the random walk: every cell holds 0 or a wire value; wire i has exactly one POSITION cell (= agents.position[i])
    and exactly one TARGET-valued cell (= agents.start[i], the generator marks the walk's origin with the TARGET value); the cells of wire i
    form a 4-connected set (hence contain a path from its origin to its head)."""
    ob = [("cells hold 0 or a wire value", all_([(g[r, c] >= 0) & (g[r, c] <= 3 * A_) for r in range(n) for c in range(n)]))]
    for i in range(A_):
        sr, sc, pr, pc = start[i, 0], start[i, 1], pos[i, 0], pos[i, 1]
        ob.append((f"wire {i}: origin and head inside the grid", (sr >= 0) & (sr < n) & (sc >= 0) & (sc < n) & (pr >= 0) & (pr < n) & (pc >= 0) & (pc < n)))
        ob.append((f"wire {i}: POSITION value exactly at agents.position", all_([(g[r, c] == 2 + 3 * i).iff((pr == r) & (pc == c)) for r in range(n) for c in range(n)])))
        ob.append((f"wire {i}: TARGET value exactly at agents.start (origin of the walk)", all_([(g[r, c] == 3 + 3 * i).iff((sr == r) & (sc == c)) for r in range(n) for c in range(n)])))
        if connectivity:
            member = np.empty((n, n), dtype=object)
            for r in range(n):
                for c in range(n):
                    member[r, c] = _conn_owner(g[r, c], i)
            reach = _conn_reach(member, sr, sc, n)
            ob.append((f"wire {i}: its cells are 4-connected to the origin", all_([member[r, c].implies(reach[r, c]) for r in range(n) for c in range(n)])))
    return ob


def run_connector_walk(R, gs, na):
    """Connector RandomWalkGenerator boards are solvable for EVERY key (loop-invariant argument on the real generator code):
      base   J holds after the real _initialize_agents (symbolic key, arbitrary draws);
      step   J(grid, agents) => J after one real _step (all agents move at once, collisions corrected), stated as frame + local
             delta (each wire keeps its cells and gains at most the new head cell, adjacent to the old head, taken from EMPTY cells);
             the graph lemma 'a connected set plus a neighbour of one of its members is connected' is discharged by the solver for
             this grid size, which closes the induction on connectivity;
      use    the real __call__ with its while loop summarised by an arbitrary J-state at which the loop condition is false:
             start/target/position/grid of the returned State are as documented and the wires of the J-state are pairwise disjoint
             connected cell sets joining each start to its target through cells that are free (or the agent's own) on the returned
             board = a complete solution.  Partial correctness (termination of the walk is not claimed)."""
    from jumanji.environments.routing.connector.types import Agent
    env = configs.make(f"ConnectorRW@{gs}x{na}")
    gen = env._generator
    n, A_ = gs, na
    R.bound(grid=f"{n}x{n}", agents=A_, loop="summarised by invariant (base + step + use), any number of iterations", draws="arbitrary within jax.random contracts")

    def sym_loop_state(ctx, tag):
        grid = ctx.fresh_arr(tag + ".grid", (n, n), np.int32, 0, 3 * A_)
        start = ctx.fresh_arr(tag + ".start", (A_, 2), np.int32, 0, n - 1)
        pos = ctx.fresh_arr(tag + ".position", (A_, 2), np.int32, 0, n - 1)
        agents = Agent(id=SV(np.arange(A_, dtype=np.int32), np.int32), start=start, target=SV(np.full((A_, 2), -1, np.int32), np.int32), position=pos)
        return grid, agents

    # ---------------- step
    ctx = Ctx()
    grid, agents = sym_loop_state(ctx, "W")
    key = ctx.fresh_arr("W.key", (2,), np.uint32)
    J0 = _conn_J(vs(grid), vs(agents.start), vs(agents.position), n, A_, connectivity=False)
    k2, grid2, agents2 = S.call(ctx, gen._step, (key, grid, agents), R=R, name="RandomWalkGenerator._step")
    R.nvars += S.nvars(grid) + S.nvars(agents.start) + S.nvars(agents.position) + 2
    A = [v.z() for _, v in J0 if not (v.conc and bool(v))] + list(ctx.assumptions)
    C.unwinding(R, ctx, A)
    R.reach("walk state (J)", A)
    g0, g1 = vs(grid), vs(grid2)
    s0, p0, s1, p1 = vs(agents.start), vs(agents.position), vs(agents2.start), vs(agents2.position)

    def step_pred(names):
        def rp(model):
            g_np, st_np, po_np = (jnp.asarray(S.model_sv(model, x)) for x in (grid, agents.start, agents.position))
            ag = Agent(id=jnp.arange(A_, dtype=jnp.int32), start=st_np, target=jnp.full((A_, 2), -1, jnp.int32), position=po_np)
            f = jax.jit(gen._step)
            for i in range(128):
                _, gg, aa = f((jax.random.PRNGKey(i), g_np, ag))
                vals = dict(step_obl(vs(S.conc_tree(np.asarray(g_np))), vs(S.conc_tree(np.asarray(st_np))), vs(S.conc_tree(np.asarray(po_np))),
                                     vs(S.conc_tree(np.asarray(gg))), vs(S.conc_tree(np.asarray(aa.start))), vs(S.conc_tree(np.asarray(aa.position)))))
                if not bool(vals[names]):
                    return True, {"key": f"PRNGKey({i})", "grid": np.asarray(g_np).tolist(), "start": np.asarray(st_np).tolist(), "position": np.asarray(po_np).tolist(),
                                  "grid_after": np.asarray(gg).tolist(), "position_after": np.asarray(aa.position).tolist(), "obligation": names}
            return False, {"note": "no real key in 0..127 reproduces the model"}
        return rp

    def step_obl(g0, s0, p0, g1, s1, p1):
        ob = [("step: J(S') " + nm, v) for nm, v in _conn_J(g1, s1, p1, n, A_, connectivity=False)]
        for i in range(A_):
            moved = ~((p1[i, 0] == p0[i, 0]) & (p1[i, 1] == p0[i, 1]))
            dr, dc = p1[i, 0] - p0[i, 0], p1[i, 1] - p0[i, 1]
            adj = ((dr == 1) | (dr == -1)) & (dc == 0) | ((dc == 1) | (dc == -1)) & (dr == 0)
            ob.append((f"step: wire {i} origin unchanged", (s1[i, 0] == s0[i, 0]) & (s1[i, 1] == s0[i, 1])))
            ob.append((f"step: wire {i} head stays or moves to a 4-neighbour", moved.implies(adj)))
            keep, gain = [], []
            for r in range(n):
                for c in range(n):
                    was, now = _conn_owner(g0[r, c], i), _conn_owner(g1[r, c], i)
                    keep.append(was.implies(now))
                    gain.append((now & ~was).implies((g0[r, c] == 0) & (p1[i, 0] == r) & (p1[i, 1] == c)))
            ob.append((f"step: wire {i} keeps all its cells (frame)", all_(keep)))
            ob.append((f"step: wire {i} gains at most its new head cell, taken from an EMPTY cell (local delta)", all_(gain)))
        return ob
    for nm, v in step_obl(g0, s0, p0, g1, s1, p1):
        R.prove(nm, A, v.term() if not v.conc else bool(v), replay=step_pred(nm))

    # ---------------- graph lemma closing the induction on connectivity (pure SMT, this grid size)
    lctx = Ctx()
    member = vs(lctx.fresh_arr("L.member", (n, n), np.bool_))
    rr, rc = vs(lctx.fresh_arr("L.root", (2,), np.int32, 0, n - 1))
    pr, pc = vs(lctx.fresh_arr("L.p", (2,), np.int32, 0, n - 1))
    qr, qc = vs(lctx.fresh_arr("L.q", (2,), np.int32, 0, n - 1))
    reach = _conn_reach(member, rr, rc, n)
    connected = all_([member[r, c].implies(reach[r, c]) for r in range(n) for c in range(n)])
    p_in = pick(member, pr, pc, default=X.FALSE)
    adjq = (((qr - pr == 1) | (qr - pr == -1)) & (qc == pc)) | (((qc - pc == 1) | (qc - pc == -1)) & (qr == pr))
    member2 = np.empty((n, n), dtype=object)
    for r in range(n):
        for c in range(n):
            member2[r, c] = member[r, c] | ((qr == r) & (qc == c))
    reach2 = _conn_reach(member2, rr, rc, n)
    connected2 = all_([member2[r, c].implies(reach2[r, c]) for r in range(n) for c in range(n)])
    LA = list(lctx.assumptions) + [connected.z(), p_in.z(), adjq.z(), pick(member, rr, rc, default=X.FALSE).z()]
    R.reach("graph lemma premises", LA)
    R.prove(f"graph lemma ({n}x{n}): connected set + a 4-neighbour of one of its members is connected (closes the induction: frame + delta => connectivity)",
            LA, connected2.term(), replay=None, internal=True)

    # ---------------- base: after the real _initialize_agents
    bctx = Ctx()
    bkey = bctx.fresh_arr("B.key", (2,), np.uint32)
    bgrid, bagents = S.call(bctx, lambda k: gen._initialize_agents(k, jnp.zeros((n, n), jnp.int32)), bkey, R=R, name="RandomWalkGenerator._initialize_agents")
    BA = list(bctx.assumptions)
    C.unwinding(R, bctx, BA)
    R.reach("base", BA)

    def base_rp(nm):
        def pred(out):
            gg, aa = out
            vals = dict(("base: " + k, v) for k, v in _conn_J(vs(S.conc_tree(np.asarray(gg))), vs(S.conc_tree(np.asarray(aa.start))), vs(S.conc_tree(np.asarray(aa.position))), n, A_))
            return bool(vals[nm]), {"grid": np.asarray(gg).tolist(), "start": np.asarray(aa.start).tolist(), "position": np.asarray(aa.position).tolist(), "obligation": nm}
        return C.reset_replayer(lambda k: gen._initialize_agents(k, jnp.zeros((n, n), jnp.int32)), bctx, bkey, pred, 256)
    for nm, v in _conn_J(vs(bgrid), vs(bagents.start), vs(bagents.position), n, A_):
        R.prove("base: " + nm, BA, v.term() if not v.conc else bool(v), replay=base_rp("base: " + nm))

    # ---------------- use: the real __call__ with the walk loop summarised by J
    uctx = Ctx()
    exits = []

    def summary(c_, eqn, carry):
        # the generator's walk loop carries (key, grid, agents.id, agents.start, agents.target, agents.position) = 6 leaves
        if len(carry) != 6 or tuple(carry[1].shape) != (n, n):
            return None
        g_, ag_ = sym_loop_state(c_, "X")
        # carry = flattened (key, grid, agents); chex dataclasses flatten their fields in sorted order, so let jax order the leaves
        out = jax.tree_util.tree_leaves((c_.fresh_arr("X.key", carry[0].shape, carry[0].dtype), g_, ag_), is_leaf=lambda x: isinstance(x, SV))
        assert [tuple(o.shape) for o in out] == [tuple(x.shape) for x in carry], ([o.shape for o in out], [x.shape for x in carry])
        exits.append((g_, ag_))
        return out
    uctx.while_summary = summary
    ukey = uctx.fresh_arr("U.key", (2,), np.uint32)
    st = S.call(uctx, gen, ukey, R=R, name="RandomWalkGenerator.__call__")
    if len(exits) != 1:
        R.harness_errors.append(f"{R.job}: expected exactly one summarised walk loop, found {len(exits)}")
        return
    xg, xa = exits[0]
    JX = _conn_J(vs(xg), vs(xa.start), vs(xa.position), n, A_)
    UA = list(uctx.assumptions) + [v.z() for _, v in JX if not (v.conc and bool(v))]
    R.reach("loop exit state (J and not cond)", UA)
    G, W = vs(st.grid), vs(xg)
    fs, ft, fp = vs(st.agents.start), vs(st.agents.target), vs(st.agents.position)
    use = [("use: step_count starts at 0", vs(st.step_count) == 0)]
    for i in range(A_):
        use.append((f"use: agent {i}: start = origin of its walk, target = head of its walk, position = start",
                    all_([fs[i, k] == vs(xa.start)[i, k] for k in range(2)] + [ft[i, k] == vs(xa.position)[i, k] for k in range(2)] + [fp[i, k] == fs[i, k] for k in range(2)])))
        use.append((f"use: agent {i}: start and target inside the grid and distinct", (fs[i, 0] >= 0) & (fs[i, 0] < n) & (fs[i, 1] >= 0) & (fs[i, 1] < n) & (ft[i, 0] >= 0) & (ft[i, 0] < n)
                    & (ft[i, 1] >= 0) & (ft[i, 1] < n) & ~((fs[i, 0] == ft[i, 0]) & (fs[i, 1] == ft[i, 1]))))
        for j in range(i):
            use.append((f"use: agents {j},{i}: starts and targets on pairwise distinct cells",
                        all_([~((a_[0] == b_[0]) & (a_[1] == b_[1])) for a_ in (fs[i], ft[i]) for b_ in (fs[j], ft[j])])))
        member = np.empty((n, n), dtype=object)
        for r in range(n):
            for c in range(n):
                member[r, c] = _conn_owner(W[r, c], i)
        reach = _conn_reach(member, fs[i, 0], fs[i, 1], n)
        use.append((f"use: agent {i}: SOLVABLE - its target is 4-connected to its start inside its own wire cells, which hold only 0 / its own POSITION / its own TARGET on the returned board "
                    f"(wires of different agents are disjoint cell sets by construction)",
                    pick(reach, ft[i, 0], ft[i, 1], default=X.FALSE)
                    & all_([member[r, c].implies((G[r, c] == 0) | (G[r, c] == 2 + 3 * i) | (G[r, c] == 3 + 3 * i)) for r in range(n) for c in range(n)])))
    use.append(("use: returned board holds exactly the heads (POSITION at start) and the targets, all other cells EMPTY",
                all_([G[r, c] == X.sum_([where((fs[i, 0] == r) & (fs[i, 1] == c), 2 + 3 * i, 0) + where((ft[i, 0] == r) & (ft[i, 1] == c), 3 + 3 * i, 0) for i in range(A_)])
                      for r in range(n) for c in range(n)])))

    def use_rp(nm):
        def pred(out):
            s_ = out
            g_, a_ = np.asarray(s_.grid), s_.agents
            fs_, ft_, fp_ = np.asarray(a_.start), np.asarray(a_.target), np.asarray(a_.position)
            ok = bool((fp_ == fs_).all()) and len({tuple(x) for x in np.concatenate([fs_, ft_]).tolist()}) == 2 * A_ and bool(((fs_ >= 0) & (fs_ < n) & (ft_ >= 0) & (ft_ < n)).all())
            want = np.zeros((n, n), np.int32)
            for i in range(A_):
                want[tuple(fs_[i])] = 2 + 3 * i
                want[tuple(ft_[i])] = 3 + 3 * i
            ok = ok and np.array_equal(g_, want)
            # solvability on the real board: disjoint paths exist iff ... (NP-hard in general); the replay only checks the cheap facts above
            return ok, {"grid": g_.tolist(), "start": fs_.tolist(), "target": ft_.tolist(), "obligation": nm}
        return C.reset_replayer(gen, uctx, ukey, pred, 256)
    for nm, v in use:
        R.prove(nm, UA, v.term() if not v.conc else bool(v), replay=use_rp(nm))
    R.sample({"generator": "Connector RandomWalkGenerator", "grid": n, "agents": A_, "argument": "base + step(frame/delta + graph lemma) + use"})


# ------------------------------------------------------------------------------------------------ LBF: food placement
def run_lbf_food(R, g, F, pairs="all"):
    """LevelBasedForaging RandomGenerator.sample_food for EVERY key: no food on the grid's edge, no two foods on the same or on
    4-adjacent cells ('ensuring no 2 are adjacent and none placed on the grid's edge').  Configurations at the density limit
    accepted by the constructor are the interesting ones: when the running mask can become all-False, jax.random.choice silently
    returns index 0 (a corner).  pairs: 'all' | 'none' | (lo, hi) slice of the pair list (8x8/6 food: ~10 min of solver time)."""
    from jumanji.environments.routing.lbf.generator import RandomGenerator
    gen = RandomGenerator(grid_size=g, num_agents=2, num_food=F, fov=2)
    ctx = Ctx()
    key = ctx.fresh_arr("key", (2,), np.uint32)
    pos = S.call(ctx, gen.sample_food, key, R=R, name="lbf.RandomGenerator.sample_food")
    A = list(ctx.assumptions)
    R.nvars += 2 + len(A)
    R.bound(grid=f"{g}x{g}", num_food=F, key="symbolic", draws="arbitrary uniform draws", pairs=str(pairs))
    C.unwinding(R, ctx, A)
    R.reach("sample_food", A)
    p = vs(pos)

    def conc_ok(P):
        P = np.asarray(P)
        inner = bool(((P >= 1) & (P <= g - 2)).all())
        apart = all(abs(int(P[i, 0]) - int(P[j, 0])) + abs(int(P[i, 1]) - int(P[j, 1])) >= 2 for i in range(F) for j in range(i))
        return inner and apart, {"grid": g, "food_positions": P.tolist()}
    rp = C.reset_replayer(gen.sample_food, ctx, key, conc_ok, 2048)
    for i in range(F):
        R.prove(f"food {i} is not on the grid's edge", A, ((p[i, 0] >= 1) & (p[i, 0] <= g - 2) & (p[i, 1] >= 1) & (p[i, 1] <= g - 2)).term(), replay=rp)
    pl = [(j, i) for i in range(F) for j in range(i)]
    if pairs == "none":
        pl = []
    elif pairs != "all":
        pl = pl[pairs[0]:pairs[1]]
    for j, i in pl:
        dr, dc = p[i, 0] - p[j, 0], p[i, 1] - p[j, 1]
        R.prove(f"foods {j},{i} are neither on the same cell nor 4-adjacent", A,
                (~(((dr == 0) & ((dc == 0) | (dc == 1) | (dc == -1))) | ((dc == 0) & ((dr == 1) | (dr == -1))))).term(), replay=rp)
    R.sample({"generator": "LBF RandomGenerator.sample_food", "grid": g, "food": F})


# ------------------------------------------------------------------------------------------------ BinPack RandomGenerator: items exactly tile the container
def _bp_J(sp, mask, dims, N):
    """loop invariant of BinPack RandomGenerator's container splitting: every ACTIVE slot is a non-empty box inside the container
    and every unit cell of the container lies in exactly one active box (= the active boxes tile the container exactly)"""
    CX, CY, CZ = dims
    x1, x2, y1, y2, z1, z2 = (vs(getattr(sp, f)) for f in ("x1", "x2", "y1", "y2", "z1", "z2"))
    m = vs(mask)
    ob = []
    for i in range(N):
        ob.append((f"slot {i}: if active, a non-empty box inside the container",
                   m[i].implies((x1[i] >= 0) & (x1[i] < x2[i]) & (x2[i] <= CX) & (y1[i] >= 0) & (y1[i] < y2[i]) & (y2[i] <= CY) & (z1[i] >= 0) & (z1[i] < z2[i]) & (z2[i] <= CZ))))
    for a in range(CX):
        for b in range(CY):
            ob.append((f"unit cells ({a},{b},*) each lie in exactly one active box",
                       all_([count([m[i] & (x1[i] <= a) & (a < x2[i]) & (y1[i] <= b) & (b < y2[i]) & (z1[i] <= c) & (c < z2[i]) for i in range(N)]) == 1 for c in range(CZ)])))
    return ob


def run_binpack_split(R, dims, N, k):
    """BinPack RandomGenerator: for EVERY key the generated items exactly tile the container and generate_solution is that tiling
    (loop-invariant argument on the real code, like the Connector walk):
      base  J on the real initial carry of the splitting loop (read off the traced generator);
      step  J(S) and the loop condition => J after one real _split_space_into_sub_spaces (random axis, random item, split once /
            into up to split_num_same_items equal parts incl. the float division and int truncation of the cut positions);
      use   real generate_solution / __call__ with the loop summarised by a J-state: the solution places every item at its box
            (location + length == box), the instance has the same items unplaced, one EMS = the container.
    J states exact tiling pointwise (each unit cell in exactly one active box), so no counting over volumes is needed.
    Partial correctness (termination of the splitting loop is not claimed)."""
    from jumanji.environments.packing.bin_pack.generator import RandomGenerator
    from jumanji.environments.packing.bin_pack.space import Space
    gen = RandomGenerator(max_num_items=N, max_num_ems=N + 2, split_num_same_items=k, container_dims=dims)
    F6 = ("x1", "x2", "y1", "y2", "z1", "z2")
    ax = {"x": 0, "y": 1, "z": 2}
    R.bound(container=dims, max_num_items=N, split_num_same_items=k, loop="summarised by invariant (base + step + use), any number of iterations",
            draws="arbitrary within jax.random contracts", split_eps=gen._split_eps)

    def sym_carry(ctx, tag):
        sp = Space(**{f: ctx.fresh_arr(f"{tag}.{f}", (N,), np.int32, 0, dims[ax[f[0]]]) for f in F6})
        mask = ctx.fresh_arr(f"{tag}.mask", (N,), np.bool_)
        return sp, mask

    # ---------------- step
    ctx = Ctx(max_unroll=k + 1)
    sp, mask = sym_carry(ctx, "B")
    key = ctx.fresh_arr("B.key", (2,), np.uint32)
    J0 = _bp_J(sp, mask, dims, N)
    cond = count(list(vs(mask))) < N - k + 1
    sp2, mask2 = S.call(ctx, gen._split_space_into_sub_spaces, sp, mask, key, R=R, name="RandomGenerator._split_space_into_sub_spaces")
    R.nvars += 7 * N + 2
    A = [v.z() for _, v in J0 if not (v.conc and bool(v))] + [cond.z()] + list(ctx.assumptions)
    C.unwinding(R, ctx, A)
    R.reach("tiling state with room for one more split", A)

    def rp_step(nm):
        def rp(model):
            s_np = {f: jnp.asarray(S.model_sv(model, getattr(sp, f))) for f in F6}
            m_np = jnp.asarray(S.model_sv(model, mask))
            f_ = jax.jit(gen._split_space_into_sub_spaces)
            for i in range(256):
                o_sp, o_m = f_(Space(**s_np), m_np, jax.random.PRNGKey(i))
                vals = dict(("step: " + n_, v_) for n_, v_ in _bp_J(S.conc_tree(jax.tree_util.tree_map(np.asarray, o_sp)), S.conc_tree(np.asarray(o_m)), dims, N))
                if not bool(vals[nm]):
                    return True, {"key": f"PRNGKey({i})", "boxes_before": {f: np.asarray(s_np[f]).tolist() for f in F6}, "mask_before": np.asarray(m_np).tolist(),
                                  "boxes_after": {f: np.asarray(getattr(o_sp, f)).tolist() for f in F6}, "mask_after": np.asarray(o_m).tolist(), "obligation": nm}
            return False, {"note": "no real key in 0..255 reproduces the model"}
        return rp
    for nm, v in [("step: " + n_, v_) for n_, v_ in _bp_J(sp2, mask2, dims, N)]:
        R.prove(nm, A, v.term() if not v.conc else bool(v), replay=rp_step(nm))

    # ---------------- base + use: the real generate_solution / __call__ with the splitting loop summarised
    for label, fn in (("generate_solution", gen.generate_solution), ("__call__", gen.__call__)):
        uctx = Ctx(max_unroll=k + 1)
        seen = []

        def summary(c_, eqn, carry, seen=seen):
            # carry of the splitting loop = flattened (Space of (N,) arrays, mask (N,), key): 8 leaves
            if len(carry) != 8 or tuple(carry[0].shape) != (N,):
                return None
            e_sp, e_mask = sym_carry(c_, "X")
            out = jax.tree_util.tree_leaves((e_sp, e_mask, c_.fresh_arr("X.key", carry[-1].shape, carry[-1].dtype)), is_leaf=lambda x: isinstance(x, SV))
            assert [tuple(o.shape) for o in out] == [tuple(x.shape) for x in carry], ([o.shape for o in out], [x.shape for x in carry])
            ent = jax.tree_util.tree_unflatten(jax.tree_util.tree_structure((e_sp, e_mask, 0), is_leaf=lambda x: isinstance(x, SV)), list(carry))
            seen.append((ent, e_sp, e_mask))
            return out
        uctx.while_summary = summary
        ukey = uctx.fresh_arr("U.key", (2,), np.uint32)
        st = S.call(uctx, fn, ukey, R=R, name=f"RandomGenerator.{label}")
        if len(seen) != 1:
            R.harness_errors.append(f"{R.job}: expected exactly one summarised splitting loop in {label}, found {len(seen)}")
            return
        (ent_sp, ent_mask, _), xsp, xmask = seen[0]
        if label == "generate_solution":
            for nm, v in _bp_J(ent_sp, ent_mask, dims, N):
                R.prove("base: " + nm, list(uctx.assumptions), v.term() if not v.conc else bool(v), replay=None, internal=not True)
        JX = _bp_J(xsp, xmask, dims, N)
        UA = list(uctx.assumptions) + [v.z() for _, v in JX if not (v.conc and bool(v))]
        R.reach(f"{label}: loop exit state (J and not cond)", UA)
        it, loc = st.items, st.items_location
        m = vs(xmask)
        use = []
        for i in range(N):
            box = [vs(getattr(xsp, f))[i] for f in F6]
            use.append((f"{label}: item {i}: lengths and location are those of its box (x_len = x2-x1, location = (x1,y1,z1)); item mask = loop mask",
                        (vs(st.items_mask)[i].iff(m[i])) & m[i].implies((vs(it.x_len)[i] == box[1] - box[0]) & (vs(it.y_len)[i] == box[3] - box[2]) & (vs(it.z_len)[i] == box[5] - box[4])
                                                                       & ((vs(loc.x)[i] == box[0]) & (vs(loc.y)[i] == box[2]) & (vs(loc.z)[i] == box[4]) if label == "generate_solution" else X.TRUE))))
        if label == "generate_solution":
            use.append((f"{label}: every item is placed (items_placed == items_mask): the solution is the exact tiling J", all_([vs(st.items_placed)[i].iff(vs(st.items_mask)[i]) for i in range(N)])))
        else:
            use.append((f"{label}: no item is placed, all locations are 0, exactly one EMS (= the container) is active",
                        all_([~vs(st.items_placed)[i] & (vs(loc.x)[i] == 0) & (vs(loc.y)[i] == 0) & (vs(loc.z)[i] == 0) for i in range(N)])
                        & vs(st.ems_mask)[0] & all_([~vs(st.ems_mask)[j] for j in range(1, N + 2)])
                        & (vs(st.ems.x1)[0] == 0) & (vs(st.ems.x2)[0] == dims[0]) & (vs(st.ems.y1)[0] == 0) & (vs(st.ems.y2)[0] == dims[1]) & (vs(st.ems.z1)[0] == 0) & (vs(st.ems.z2)[0] == dims[2])))
        use.append((f"{label}: container is {dims}", (vs(st.container.x1) == 0) & (vs(st.container.x2) == dims[0]) & (vs(st.container.y1) == 0) & (vs(st.container.y2) == dims[1])
                    & (vs(st.container.z1) == 0) & (vs(st.container.z2) == dims[2])))

        def rp_use(model, label=label, fn=fn):
            f_ = jax.jit(fn)
            for i in range(128):
                s_ = jax.tree_util.tree_map(np.asarray, f_(jax.random.PRNGKey(i)))
                mk = np.asarray(s_.items_mask)
                L = np.stack([s_.items.x_len, s_.items.y_len, s_.items.z_len], 1)[mk]
                P_ = np.stack([s_.items_location.x, s_.items_location.y, s_.items_location.z], 1)[mk]
                vol = int(L.prod(1).sum())
                ok = vol == dims[0] * dims[1] * dims[2] and bool((L > 0).all())
                if label == "generate_solution":
                    occ = np.zeros(dims, np.int32)
                    for p_, l_ in zip(P_, L):
                        occ[p_[0]:p_[0] + l_[0], p_[1]:p_[1] + l_[1], p_[2]:p_[2] + l_[2]] += 1
                    ok = ok and bool((occ == 1).all()) and bool((np.asarray(s_.items_placed) == mk).all())
                if not ok:
                    return True, {"key": f"PRNGKey({i})", "function": label, "item_lengths": L.tolist(), "locations": P_.tolist()}
            return False, {"note": "no real key in 0..127 reproduces the model"}
        for nm, v in use:
            R.prove(nm, UA, v.term() if not v.conc else bool(v), replay=rp_use)
    R.sample({"generator": "BinPack RandomGenerator", "container": dims, "max_num_items": N, "split_num_same_items": k})

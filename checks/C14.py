"""C14  Batched wrappers equal per-instance execution; VmapAutoReset == Vmap(AutoReset); render = first element."""
import jax
import jax.numpy as jnp
import numpy as np
import z3

from checks import common as C
from checks import wrap_common as WC
from engine import jx2smt as J
from engine import sym as S
from engine.jx2smt import SV, Ctx
from envs import configs

LEVEL_TEXT = ("Equivalence checking of jaxprs on shared symbolic per-lane states/actions: VmapWrapper lanes vs the unwrapped env, VmapAutoResetWrapper vs "
              "VmapWrapper(AutoResetWrapper) (every termination pattern is inside one query because each lane's state is arbitrary), batch sizes 1..3.")
TECHNIQUE = "jaxpr->SMT symbolic execution (z3) of vmapped wrappers vs per-lane env.step on shared symbolic inputs, per-leaf equivalence queries; replay on real code"
ASSUMPTIONS = C.STUB_ASSUMPTIONS


def batch_inputs(ctx, env, name, B):
    lanes = [WC.fresh_state(ctx, env, f"S{i}", name) for i in range(B)]
    acts, pre = [], []
    for i in range(B):
        a, p = S.sym_action(ctx, env, tag=f"a{i}")
        acts.append(a)
        pre += p
    return lanes, acts, pre, S.stack(lanes), S.stack(acts)


def run(R, name, B, only=None, flags=(False, True), auto_only=False):
    """only: list of path substrings - restrict the VmapAutoReset == Vmap(AutoReset) comparison to those leaves (a cheap variant for
    the quick tier: LevelBasedForaging is the one environment whose episodes can end by TRUNCATION (LAST with discount 1), i.e. the
    one place where 'reset when LAST' and 'reset when the discount is 0' differ; the full leaf-by-leaf comparison needs 18 min).
    auto_only: skip the VmapWrapper-vs-per-lane, reset and render parts."""
    from jumanji.wrappers import AutoResetWrapper, VmapAutoResetWrapper, VmapWrapper
    WC.set_mode(name)
    env = configs.make(name)
    ctx = Ctx(max_unroll=24)
    lanes, acts, pre, SB, AB = batch_inputs(ctx, env, name, B)
    R.nvars += sum(S.nvars(l) for l in lanes) + sum(S.nvars(a) for a in acts)
    R.bound(config=name, batch=B, state="arbitrary per lane", action="any in-spec per lane", steps=1)
    V = VmapWrapper(env)
    vs_, vt = S.call(ctx, V.step, SB, AB, R=R, name="VmapWrapper.step")
    per = [S.call(ctx, env.step, lanes[i], acts[i], R=R, name=type(env).__name__ + ".step") for i in range(B)]
    A = pre + ctx.assumptions
    C.unwinding(R, ctx, A)
    R.reach("batch", A)
    fV, fE = jax.jit(V.step), jax.jit(env.step)

    def replay(model):
        sb = jax.tree_util.tree_map(jnp.asarray, S.model_tree(model, SB))
        ab = jnp.asarray(S.model_sv(model, AB))
        out = fV(sb, ab)
        bad = []
        for i in range(B):
            si = jax.tree_util.tree_map(lambda x: x[i], sb)
            o = fE(si, ab[i])
            li = jax.tree_util.tree_map(lambda x: x[i], out)
            d = WC.diff_fields(li, o)
            if d:
                bad.append({"lane": i, "differs": d})
        return bool(bad), {"config": name, "batch": B, "lanes_differ": bad}
    for i in range(B if not auto_only else 0):
        WC.eq_obligations(R, f"VmapWrapper.step lane {i} == env.step: state", A, S.tree_eq_items(S.lane(vs_, i), per[i][0]), replay)
        WC.eq_obligations(R, f"VmapWrapper.step lane {i} == env.step: timestep", A, S.tree_eq_items(S.lane(vt, i), per[i][1]), replay)

    # VmapAutoResetWrapper == VmapWrapper(AutoResetWrapper), both flags
    for flag in flags:
        X_, Y_ = VmapAutoResetWrapper(env, next_obs_in_extras=flag), VmapWrapper(AutoResetWrapper(env, next_obs_in_extras=flag))
        xs, xt = S.call(ctx, X_.step, SB, AB, R=R, name="VmapAutoResetWrapper.step")
        ys, yt = S.call(ctx, Y_.step, SB, AB, R=R, name="VmapWrapper(AutoResetWrapper).step")
        A2 = pre + ctx.assumptions
        fX, fY = jax.jit(X_.step), jax.jit(Y_.step)

        def replay2(model, fX=fX, fY=fY, flag=flag):
            sb = jax.tree_util.tree_map(jnp.asarray, S.model_tree(model, SB))
            ab = jnp.asarray(S.model_sv(model, AB))
            a, b = fX(sb, ab), fY(sb, ab)
            d = WC.diff_fields(a, b)
            return bool(d), {"config": name, "batch": B, "flag": flag, "differs": d}
        # cofactor on every lane's LAST predicate: 2^B termination patterns, each solved separately
        lasts = [S.st_is(per[i][1], 2) for i in range(B)]
        items = S.tree_eq_items(xs, ys) + [("timestep" + p, e) for p, e in S.tree_eq_items(xt, yt)]
        if only:
            items = [(p, e) for p, e in items if any(o in p for o in only)]
            R.bound(compared_leaves=[p for p, _ in items])
        for pat in np.ndindex(*([2] * B)):
            conds = []
            for i, bit in enumerate(pat):
                l = lasts[i] if isinstance(lasts[i], z3.ExprRef) else z3.BoolVal(bool(lasts[i]))
                conds.append(l if bit else z3.Not(l))
            for path, e in items:
                for i, bit in enumerate(pat):
                    if isinstance(lasts[i], z3.ExprRef):
                        e = S.cofactor(e, lasts[i], bool(bit))
                R.prove(f"VmapAutoReset == Vmap(AutoReset) [next_obs={flag}, LAST pattern {''.join(map(str, pat))}]: {path}", A2 + conds, e, replay=replay2)
        if B == 2 and not flag:
            R.reach("some lane ends while another continues", A2, z3.And(lasts[0] if isinstance(lasts[0], z3.ExprRef) else z3.BoolVal(bool(lasts[0])),
                                                                          z3.Not(lasts[1]) if isinstance(lasts[1], z3.ExprRef) else z3.BoolVal(not lasts[1])))

    if auto_only:
        R.sample({"config": name, "batch": B, "obligations": len(R.obl), "variant": "auto-reset equivalence only"})
        return
    # reset: lanes and wrapper equivalence
    keys = ctx.fresh_arr("keys", (B, 2), np.uint32)
    vrs, vrt = S.call(ctx, V.reset, keys, R=R, name="VmapWrapper.reset")
    A3 = list(ctx.assumptions)

    def replay3(model):
        k = jnp.asarray(S.model_sv(model, keys))
        out = V.reset(k)
        bad = []
        for i in range(B):
            d = WC.diff_fields(jax.tree_util.tree_map(lambda x: x[i], out), env.reset(k[i]))
            if d:
                bad.append({"lane": i, "differs": d})
        return bool(bad), {"config": name, "lanes_differ": bad}
    for i in range(B):
        rs, rt = S.call(ctx, env.reset, SV(keys.a[i], np.uint32), R=R, name=type(env).__name__ + ".reset")
        A3 = list(ctx.assumptions)
        R.prove(f"VmapWrapper.reset lane {i} == env.reset(keys[{i}])", A3, S.conj([S.tree_eq(S.lane(vrs, i), rs), S.tree_eq(S.lane(vrt, i), rt)]), replay=replay3)
    xr = S.call(ctx, VmapAutoResetWrapper(env).reset, keys, R=R, name="VmapAutoResetWrapper.reset")
    yr = S.call(ctx, VmapWrapper(AutoResetWrapper(env)).reset, keys, R=R, name="VmapWrapper(AutoResetWrapper).reset")
    R.prove("VmapAutoResetWrapper.reset == VmapWrapper(AutoResetWrapper).reset", list(ctx.assumptions), S.tree_eq(xr, yr),
            replay=lambda m: (bool(WC.diff_fields(VmapAutoResetWrapper(env).reset(jnp.asarray(S.model_sv(m, keys))),
                                                  VmapWrapper(AutoResetWrapper(env)).reset(jnp.asarray(S.model_sv(m, keys))))), {"config": name}))

    # render: both wrappers hand lane 0 of the batch to the inner env's render (inner render replaced by the identity)
    if B >= 2:
        for Wc in (VmapWrapper, VmapAutoResetWrapper):
            env2 = configs.make(name)
            env2.render = lambda s: s
            Wi = Wc(env2)
            out = S.call(ctx, Wi.render, SB, R=R, name=Wc.__name__ + ".render (inner render := identity)")

            def replay4(model, Wi=Wi):
                sb = jax.tree_util.tree_map(jnp.asarray, S.model_tree(model, SB))
                got = Wi.render(sb)
                d = WC.diff_fields(got, jax.tree_util.tree_map(lambda x: x[0], sb))
                return bool(d), {"config": name, "differs": d}
            R.prove(f"{Wc.__name__}.render renders element 0 of the batch", A, S.tree_eq(out, lanes[0]), replay=replay4)
    # the same law on states whose keys are NEW-STYLE typed keys (jax.random.key): a batch of typed keys has shape (B,), not (B, 2), so
    # any logic that inspects the key's rank to decide whether a state is batched goes wrong exactly there.  Concrete states from
    # the real vmapped reset (the renderer is the identity, so the rendered object is compared leaf by leaf with element 0).
    for Wc in (VmapWrapper, VmapAutoResetWrapper):
        env2 = configs.make(name)
        env2.render = lambda s: s
        Wi = Wc(env2)
        try:
            tk = jax.random.split(jax.random.key(R.seed + 7), B)
            sb, _ = jax.vmap(env2.reset)(tk)
        except Exception as e:  # noqa
            R.note(f"{name}: reset does not accept typed keys ({type(e).__name__}); typed-key render not checked")
            break
        try:
            got = Wi.render(sb)
            want = jax.tree_util.tree_map(lambda x: x[0], sb)
            unkey = lambda t: jax.tree_util.tree_map(lambda x: jax.random.key_data(x) if jax.dtypes.issubdtype(getattr(x, "dtype", np.int32), jax.dtypes.prng_key) else x, t)  # noqa
            d = WC.diff_fields(unkey(got), unkey(want))
            shapes_ok = [tuple(np.shape(a)) for a in jax.tree_util.tree_leaves(unkey(got))] == [tuple(np.shape(a)) for a in jax.tree_util.tree_leaves(unkey(want))]
            R.structural(f"{Wc.__name__}.render renders element 0 of a batch of {B} states created from typed keys (jax.random.key)", not d and shapes_ok,
                         {"config": name, "batch": B, "differs": d, "shapes_match": shapes_ok})
        except Exception as e:  # noqa
            R.structural(f"{Wc.__name__}.render renders element 0 of a batch of {B} states created from typed keys (jax.random.key)", False,
                         {"config": name, "batch": B, "error": f"{type(e).__name__}: {str(e)[:160]}"})
        R.validated += 1
    R.sample({"config": name, "batch": B, "obligations": len(R.obl)})


QUICK_ENVS = ["Knapsack", "Maze@3x3", "Snake", "Cleaner@3x3x1", "GraphColoring", "TSP", "SlidingTilePuzzle", "Connector", "Minesweeper", "CVRP", "JobShop"]
# heavier equivalence queries (minutes each): thorough tier only
# RobotWarehouse: claimed again since the random stubs case-split a key that is itself an ite (engine/jx2smt._key_cases, DESIGN 8.9); before
# that the per-agent key chain of its step (scan + cond) got different draws in the batched and the per-lane encoding (models did not replay)
THOROUGH_ENVS = ["Tetris", "RubiksCube", "LevelBasedForaging", "Sudoku", "FlatPack", "Sokoban", "MultiCVRP", "Game2048", "BinPack@csv", "RobotWarehouse"]
JOBTIMEOUT = {"quick": 600, "thorough": 2400}


def jobs(tier, seed):
    js = []
    for n in QUICK_ENVS + (THOROUGH_ENVS if tier == "thorough" else []):
        js.append((f"{n}/B=2", "checks.C14", "run", {"name": n, "B": 2}))
    for n in (["Knapsack", "Maze@3x3"] if tier == "quick" else QUICK_ENVS):
        js.append((f"{n}/B=1", "checks.C14", "run", {"name": n, "B": 1}))
        js.append((f"{n}/B=3", "checks.C14", "run", {"name": n, "B": 3}))
    if tier == "quick":
        js.append(("LevelBasedForaging/B=2/truncation", "checks.C14", "run",
                   {"name": "LevelBasedForaging", "B": 2, "only": ["step_count", "step_type", "discount"], "flags": [False], "auto_only": True}))
    return js

"""C03  FIRST, MID*, LAST protocol with sane reward and discount.

step: one symbolic step from an ARBITRARY state (dtype ranges only; 'steps after LAST' included) with an
arbitrary in-spec action.  reset: symbolic key with jax.random stubs."""
import jax
import numpy as np
import z3

from checks import common as C
from engine import jx2smt as J
from engine import sym as S
from engine.jx2smt import to_z3
from envs import configs

LEVEL_TEXT = ("Bounded symbolic model checking of the real jaxprs of env.step / env.reset: unsat = holds for every state, action and "
              "random draw at the listed sizes.")
TECHNIQUE = "jaxpr->SMT symbolic execution of env.step/env.reset (z3 QF_BV/FP), one step from an arbitrary state; counterexample replay on the real jitted function"
ASSUMPTIONS = C.STUB_ASSUMPTIONS

QUICK = list(configs.ALL) + ["Cleaner@4x4x2", "LevelBasedForaging@6x2x2", "Maze@5x5", "Tetris@6x6", "Snake@4x3", "RubiksCube@3",
                             "SlidingTilePuzzle@2", "ConnectorRW@3x2", "Connector@4x3", "Game2048@4", "Cleaner@3x3x1"]
THOROUGH_EXTRA = ["Cleaner@5x6x3", "Maze@5x4", "Snake@5x5", "Tetris@10x10", "GraphColoring@6", "Knapsack@6", "TSP@6", "CVRP@6",
                  "Minesweeper@4x4x4", "JobShop@3x3x3x3", "FlatPack@3x2", "Connector@5x3", "LevelBasedForaging@7x3x2", "RubiksCube@4"]

# state-domain bounds needed for the encoding to stay small (declared, part of the claim)
RANGES = {"BinPack": {".container": (0, 4), ".ems": (0, 4), ".items": (0, 4), ".items_location": (0, 4), "sorted_ems_indexes": (0, 4)}}


def check_step(R, name, default=False):
    env = configs.make_default(name) if default else configs.make(name)
    cls = type(env).__name__
    rng = RANGES.get(name)
    R.bound(config=name, default_config=default, state="arbitrary (dtype ranges only)" if not rng else f"integer fields in {rng}",
            action="any in-spec", steps=1)
    ctx, st, act, pre, ns, ts = C.step_harness(R, env, ranges=rng)
    A = pre + ctx.assumptions
    C.unwinding(R, ctx, pre)
    stt = S.scalar(ts.step_type)
    disc = ts.discount.obj().reshape(-1)
    is_last = S.st_is(ts, 2)
    is_mid = S.st_is(ts, 1)
    lbf = cls == "LevelBasedForaging"

    def pred(s, a, ns_, ts_):
        d = np.asarray(ts_.discount).reshape(-1)
        stp = int(ts_.step_type)
        ok = stp in (1, 2) and bool(np.all((d >= 0) & (d <= 1)))
        if stp == 1:
            ok &= bool(np.any(d != 0))
        if stp == 2 and not lbf:
            ok &= bool(np.all(d == 0))
        if stp == 2 and lbf and np.any(d != 0):
            ok &= bool(int(ns_.step_count) >= env.time_limit and not np.all(ns_.food_items.eaten))
        return ok, {"step_type": stp, "discount": d.tolist()}
    rp = C.step_replayer(env, st, act, pred)
    R.reach("step", A)
    R.prove("step_type in {MID,LAST}", A, S.disj([is_mid, is_last]), rp)
    R.prove("discount in [0,1]", A, S.conj([S.fp_in(d, 0.0, 1.0) for d in disc]), rp)
    zero = [J.s_cmp("eq", d, np.float32(0), np.float32) for d in disc]
    R.prove("MID => discount not all zero", A, S.implies(is_mid, S.neg(S.conj(zero))), rp)
    if not lbf:
        R.prove("LAST => discount == 0", A, S.implies(is_last, S.conj(zero)), rp)
    else:
        trunc = S.conj([J.s_cmp("ge", S.scalar(ns.step_count), env.time_limit, np.int32),
                        S.neg(S.conj(list(ns.food_items.eaten.obj().reshape(-1))))])
        R.prove("LAST and discount != 0 => documented truncation (time limit reached, food left)", A,
                S.implies(S.conj([is_last, S.neg(S.conj(zero))]), trunc), rp)
        R.reach("LBF truncation branch", A, S.conj([is_last, S.neg(S.conj(zero))]))
    # reward/discount shapes and dtypes from the IR's own types (valid for all inputs)
    sh = jax.eval_shape(env.step, *jax.eval_shape(lambda k: (env.reset(k)[0], env.action_spec.generate_value()), jax.random.PRNGKey(0)))[1]
    R.structural("reward/discount avals match specs",
                 tuple(sh.reward.shape) == tuple(env.reward_spec.shape) and tuple(sh.discount.shape) == tuple(env.discount_spec.shape)
                 and sh.reward.dtype == env.reward_spec.dtype and sh.discount.dtype == env.discount_spec.dtype,
                 {"reward": str(sh.reward), "discount": str(sh.discount), "reward_spec": str(env.reward_spec), "discount_spec": str(env.discount_spec)})
    R.sample({"env": name, "obligations": [o["name"] for o in R.obl][:8], "state_vars": R.nvars})


def check_step_domain(R, cfg, over=None):
    """the same protocol obligations from the per-environment harness DOMAIN (ranged fields, cached mask tied by the code's own mask
    function, invariant NOT assumed): a much smaller formula than the arbitrary-dtype-range state of check_step, so that a
    wrong termination construction stays decidable where the big query goes `unknown` (PacMan: a seeded 'MID with zero discount at
    the time limit' change was unknown at 120 s from the arbitrary state and sat in seconds from the domain)."""
    from checks import drivers as D
    from envs import base
    from engine.vexpr import vs, all_, any_
    H = base.get(cfg, **(over or {}))
    sp = D.build_step(R, H, with_inv=False, validate=0)
    lbf = type(H.env).__name__ == "LevelBasedForaging"
    F0, F1 = np.float32(0), np.float32(1)

    def obl(st, act, ns, ts):
        d = np.asarray(vs(ts.discount), dtype=object).reshape(-1)
        stp = vs(ts.step_type)
        zero = all_([x == F0 for x in d])
        out = [("domain: step_type in {MID,LAST}", (stp == 1) | (stp == 2)),
               ("domain: discount in [0,1]", all_([(x >= F0) & (x <= F1) for x in d])),
               ("domain: MID => discount not all zero", (stp == 1).implies(~zero))]
        if not lbf:
            out.append(("domain: LAST => discount == 0", (stp == 2).implies(zero)))
        else:
            trunc = (vs(ns.step_count) >= H.env.time_limit) & ~all_(list(np.asarray(vs(ns.food_items.eaten), dtype=object).reshape(-1)))
            out.append(("domain: LAST and discount != 0 => documented truncation (time limit reached, food left)", ((stp == 2) & ~zero).implies(trunc)))
        return out
    D.prove_list(R, sp, obl)
    R.sample({"config": cfg, "state": "harness domain, invariant not assumed"})


def check_reset(R, name):
    env = configs.make(name)
    R.bound(config=name, key="symbolic uint32[2]", draws="arbitrary within jax.random contracts")
    # generator loops beyond 4 iterations are over-approximated by an arbitrary carry (sound for this property)
    ctx, key, st, ts = C.reset_harness(R, env, unroll=4, havoc_loops=True)
    R.bound(loop_unroll=4, beyond="loop carry havoc'd (over-approximation)")
    A = ctx.assumptions

    def pred(s_, ts_):
        ok = int(ts_.step_type) == 0 and bool(np.all(np.asarray(ts_.reward) == 0)) and bool(np.all(np.asarray(ts_.discount) == 1))
        ok &= tuple(np.shape(ts_.reward)) == tuple(env.reward_spec.shape) and tuple(np.shape(ts_.discount)) == tuple(env.discount_spec.shape)
        return ok, {"step_type": int(ts_.step_type), "reward": np.asarray(ts_.reward).tolist(), "discount": np.asarray(ts_.discount).tolist()}
    rp = C.reset_key_search(env, pred, 64)
    R.prove("reset: step_type == FIRST", A, S.st_is(ts, 0), rp)
    R.prove("reset: reward == 0", A, S.conj([J.s_cmp("eq", x, 0, ts.reward.dtype) for x in ts.reward.obj().reshape(-1)]), rp)
    R.prove("reset: discount == 1", A, S.conj([J.s_cmp("eq", x, 1, ts.discount.dtype) for x in ts.discount.obj().reshape(-1)]), rp)
    R.structural("reset: reward/discount shapes+dtypes match specs",
                 tuple(ts.reward.shape) == tuple(env.reward_spec.shape) and tuple(ts.discount.shape) == tuple(env.discount_spec.shape)
                 and ts.reward.dtype == env.reward_spec.dtype and ts.discount.dtype == env.discount_spec.dtype,
                 {"reward": str(ts.reward), "discount": str(ts.discount)})
    R.sample({"env": name, "reset": "symbolic key", "stub_assumptions": len(ctx.assumptions)})


RESET_SKIP = {"BinPack"}
RESET_EXTRA = ["BinPack@toy"]  # RandomGenerator reset encoding explodes (DESIGN C10); BinPack@toy is used instead


def jobs(tier, seed):
    names = list(QUICK) + (THOROUGH_EXTRA if tier == "thorough" else [])
    js = [(f"{n}/step", "checks.C03", "check_step", {"name": n}) for n in names]
    js += [(f"{n}/reset", "checks.C03", "check_reset", {"name": n}) for n in names + RESET_EXTRA if n not in RESET_SKIP]
    from envs import base
    for n in base.available():
        cls = base.cls_of(n)
        if cls.BMC:
            continue
        for cfg in cls.QUICK[:1] + (cls.QUICK[1:] if tier == "thorough" else []):
            js.append((f"{cfg}/step@domain", "checks.C03", "check_step_domain", {"cfg": cfg}))
        # the protocol does not depend on which pluggable reward / done function, observer or scalar option is configured: the
        # non-default variants of the harness tables (plus C03_VARIANTS: e.g. a Minesweeper done function that plays on after a mine)
        seen = []
        for over in list(getattr(cls, "C03_VARIANTS", [])) + list(getattr(cls, "REWARD_VARIANTS", [])):
            if over and str(over) not in seen:
                seen.append(str(over))
                js.append((f"{cls.QUICK[0]}#variant{len(seen)}/step@domain", "checks.C03", "check_step_domain", {"cfg": cls.QUICK[0], "over": over}))
    if tier == "thorough":
        js += [(f"{n}@default/step", "checks.C03", "check_step", {"name": n, "default": True}) for n in configs.DEFAULT_OK]
    return js

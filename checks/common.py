"""Shared harness pieces for the per-property checks."""
import time

import jax
import jax.numpy as jnp
import numpy as np
import z3

from engine import jx2smt as J
from engine import sym as S
from engine.jx2smt import SV, Ctx, is_sym, to_z3

STUB_ASSUMPTIONS = [
    "jax.random stubs (DESIGN 1.4): randint/uniform return an arbitrary value inside [minval,maxval); random_bits arbitrary uint32; "
    "split/fold_in return fresh keys; every stub is a function of its key (same key => same draw)",
    "XLA:CPU executes the jaxpr as modelled (gather PROMISE_IN_BOUNDS clamps, scatter FILL_OR_DROP drops, integer div/rem conventions)",
    "z3 is sound",
]


def state_shapes(env):
    key = jax.random.PRNGKey(0)
    st, ts = jax.eval_shape(env.reset, key)
    return st, ts


def step_harness(R, env, ranges=None, unroll=16, tag="S", ctx=None, state=None, havoc_loops=False, validate=2):
    """arbitrary pre-state (dtype ranges only unless `ranges`), arbitrary in-spec action, one symbolic step."""
    ctx = ctx or Ctx(max_unroll=unroll, havoc_loops=havoc_loops)
    st_shape, _ = state_shapes(env)
    st = state if state is not None else S.fresh_like(ctx, tag, st_shape, ranges)
    act, pre = S.sym_action(ctx, env)
    t0 = time.time()
    ns, ts = S.call(ctx, env.step, st, act, R=R, name=type(env).__name__ + ".step")
    R.nvars += S.nvars(st) + S.nvars(act)
    if validate and state is None:
        validate_step(R, env, st, act, ns, ts, validate)
    return ctx, st, act, pre, ns, ts


def validate_step(R, env, st, act, ns, ts, n=2):
    """end-to-end differential (DESIGN 1.6): real jitted step vs. the encoding under concrete inputs taken
    from a real rollout (reset state, then successive states under spec-random actions)."""
    spec = env.action_spec
    rng = np.random.default_rng(R.seed)
    s0, _ = jax.jit(env.reset)(jax.random.PRNGKey(R.seed))
    f = jax.jit(env.step)
    lo = np.broadcast_to(np.asarray(getattr(spec, "minimum", 0)), spec.shape)
    hi = np.broadcast_to(np.asarray(getattr(spec, "maximum", 0)), spec.shape)
    for _ in range(n):
        a0 = jnp.asarray(rng.integers(lo, hi + 1).astype(spec.dtype))
        out = f(s0, a0)
        # float leaves may differ in the last bits: the jitted program fuses/reassociates reductions (a 20-city tour length differs by
        # 1 ulp from the equation-by-equation evaluation); integer and boolean leaves are compared exactly
        S.differential(R, type(env).__name__ + ".step", (st, act), (ns, ts), out, (s0, a0), ulps=8)
        s0 = out[0]


def reset_harness(R, env, unroll=16, ctx=None, havoc_loops=False):
    ctx = ctx or Ctx(max_unroll=unroll, havoc_loops=havoc_loops)
    key = ctx.fresh_arr("key", (2,), np.uint32)
    st, ts = S.call(ctx, env.reset, key, R=R, name=type(env).__name__ + ".reset")
    R.nvars += 2 + len(ctx.assumptions)
    return ctx, key, st, ts


def real_step(env, state_np, act_np):
    st = jax.tree_util.tree_map(jnp.asarray, state_np)
    ns, ts = jax.jit(env.step)(st, jnp.asarray(act_np))
    return jax.tree_util.tree_map(np.asarray, ns), jax.tree_util.tree_map(np.asarray, ts)


def step_replayer(env, st, act, pred):
    """replay(model): run the real jitted step on the model's state/action; pred(s, a, ns, ts) -> (holds, detail)"""
    def replay(model):
        s_np = S.model_tree(model, st)
        a_np = S.model_sv(model, act)
        ns, ts = real_step(env, s_np, a_np)
        ok, detail = pred(s_np, a_np, ns, ts)
        d = {"state": jax.tree_util.tree_map(lambda x: np.asarray(x).tolist(), s_np).__dict__ if hasattr(s_np, "__dict__") else str(s_np),
             "action": np.asarray(a_np).tolist(), "observed": detail}
        return (not ok), d
    return replay


def reset_key_search(env, pred, n=2048):
    """replay for reset obligations: search real PRNG keys for one violating pred(state, ts) -> (holds, detail)"""
    f = jax.jit(env.reset)

    def replay(model):
        for i in range(n):
            st, ts = f(jax.random.PRNGKey(i))
            ok, detail = pred(jax.tree_util.tree_map(np.asarray, st), jax.tree_util.tree_map(np.asarray, ts))
            if not ok:
                return True, {"key": f"PRNGKey({i})", "observed": detail}
        return False, {"note": f"no real key in PRNGKey(0..{n - 1}) reproduces the model"}
    return replay


def unwinding(R, ctx, pre):
    """loop bound obligations: the loop condition after the last unrolled iteration must be unsat"""
    if ctx.unwind:
        R.prove("unwinding-assertions", list(pre) + ctx.assumptions, z3.Not(z3.Or(ctx.unwind)), internal=True)


def reset_replayer(env_reset, ctx, key_sv, pred, n=512, what="reset"):
    """two-stage replay for obligations over random draws (DESIGN 1.5):
    (1) search real PRNG keys 0..n-1 for one whose REAL execution violates pred(outputs) -> (holds, detail);
    (2) otherwise re-execute the traced program with the jax.random stubs returning the MODEL's draws (which satisfy the
        documented contracts) and every other equation evaluated by the real primitive: replay_mode = stub-draw."""
    f = jax.jit(env_reset)

    def replay(model):
        for i in range(n):
            out = f(jax.random.PRNGKey(i))
            ok, detail = pred(jax.tree_util.tree_map(np.asarray, out))
            if not ok:
                return True, {"replay_mode": "real-key", "key": f"PRNGKey({i})", "observed": detail}
        ctx2 = Ctx(max_unroll=ctx.max_unroll, havoc_loops=ctx.havoc_loops)
        ctx2.memo = ctx.memo
        ctx2.replay_model = model
        out2, _ = J.sym_call(env_reset, (key_sv,), ctx2)

        def conc(sv):
            if sv.conc:
                return np.asarray(sv.a)
            return np.asarray(J._concretize(model, sv).a)     # leaves that are keys stay symbolic tokens: valued by the model
        out_np = S.tmap(conc, out2)
        ok, detail = pred(out_np)
        if not ok:
            return True, {"replay_mode": "stub-draw", "note": "no real key in 0..%d reproduces it; reproduced with the jax.random samplers returning "
                          "the model's draws (all within their documented contracts), all other equations on real primitives" % (n - 1), "observed": detail}
        return False, {"note": "neither a real key nor the stub-draw execution reproduces the model"}
    return replay


def key_variants(state_np, n=256, start=0):
    """generator: the same state with every PRNG-key leaf (uint32[2] leaf whose path mentions 'key') replaced by the real keys
    PRNGKey(start..start+n-1).  The jax.random stubs leave every draw arbitrary within its contract, so the PRNG key the
    solver happens to put into the model need not realise the modelled draw on the real sampler; a violation that depends on a
    draw is therefore replayed by searching real keys for one whose REAL execution violates the same obligation."""
    paths = [jax.tree_util.keystr(p) for p, x in jax.tree_util.tree_leaves_with_path(state_np)
             if "key" in jax.tree_util.keystr(p).lower() and np.asarray(x).dtype == np.uint32 and np.asarray(x).shape == (2,)]
    if not paths:
        return
    for i in range(start, start + n):
        k = np.asarray(jax.random.key_data(jax.random.PRNGKey(i)) if hasattr(jax.random, "key_data") else jax.random.PRNGKey(i)).astype(np.uint32)
        yield i, jax.tree_util.tree_map_with_path(lambda p, x: k if jax.tree_util.keystr(p) in paths else x, state_np)

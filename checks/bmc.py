"""Bounded unrolling from a symbolic instance (DESIGN 1.7, second harness shape) for environments whose useful
invariant would be as complex as the code (BinPack EMS bookkeeping, JobShop schedule tables, MMST, MultiCVRP).

H.bmc_init(ctx) -> (initial state of a symbolic instance, [assumptions]); k symbolic in-spec actions; the
obligation list is instantiated after every step, guarded by 'the episode has not ended before'."""
import jax
import jax.numpy as jnp
import numpy as np

from checks import common as C
from engine import sym as S
from engine.jx2smt import SV, Ctx
from engine.vexpr import V, vs, all_, any_
from engine import vexpr as X


def _legal(H, emitted, cs, ca, prev_ts):
    """legality of action ca in state cs: by the independent rule, or (emitted=True, after the first step) by the
    mask the environment itself handed out with the previous timestep"""
    if emitted and prev_ts is not None:
        m = np.asarray(vs(H.mask_of(prev_ts.observation, H.OBS_MASK)), dtype=object)
        return all_((getattr(H, "play_allowed_by", None) or H.allowed_by)(m, ca))   # same hook for an emitted mask with an all-False row
    # optional harness hook `play_legal`: what "mask-respecting play" means where the plain rule has no legal action for an
    # agent (e.g. MMST: a finished agent's mask is all False, any action of it then stands for a no-op)
    return all_((getattr(H, "play_legal", None) or H.action_legal)(cs, ca))


def run(R, H, obl_fn, reset_obl=None, legal_only=False, depth=None, init=None, emitted=False, prefix=""):
    k = depth or H.BMC_DEPTH[R.tier]
    ctx = Ctx(max_unroll=H.UNROLL)
    st0, pre = (init or H.bmc_init)(ctx)
    R.nvars += S.nvars(st0)
    R.bound(config=H.cfg, overrides=H.over, harness="bounded unrolling from a symbolic instance", steps=k, loop_unroll=H.UNROLL,
            actions="any in-spec" if not legal_only else "rule-legal (mask-respecting)")
    states, acts, tss = [st0], [], []
    A = list(pre)
    alive = X.TRUE          # no LAST so far
    legal_so_far = X.TRUE
    fstep = jax.jit(H.env.step)

    def make_replay(d, name):
        def replay(model):
            s0 = jax.tree_util.tree_map(jnp.asarray, S.model_tree(model, st0))
            res = once(model, s0)
            # optional harness hook `replay_variants(s0)`: the jax.random stubs leave the draws (e.g. MMST's tie-break shuffle)
            # arbitrary, so the model's own PRNG key need not realise the modelled draw on the real code; the harness may
            # offer the same initial state with other real keys and the first one that reproduces the violation is reported
            if res is not None and not res[0] and hasattr(H, "replay_variants"):
                for s_alt in H.replay_variants(s0):
                    r2 = once(model, s_alt)
                    if r2 is not None and r2[0]:
                        return r2
            # generic second stage: the same initial state with real PRNG keys (see common.key_variants)
            if res is not None and not res[0]:
                for i, s_alt in C.key_variants(jax.tree_util.tree_map(np.asarray, s0), int(__import__("os").environ.get("VERIF_STEP_KEYS", "256")) // 4):
                    r2 = once(model, jax.tree_util.tree_map(jnp.asarray, s_alt))
                    if r2 is not None and r2[0]:
                        r2[1]["replay_mode"] = f"real-key search: initial state.key = PRNGKey({i})"
                        return r2
            return res

        def once(model, s):
            s_init = s
            alive_c, legal_c = True, True
            tr = []
            prev = None
            for i in range(d + 1):
                a = jnp.asarray(S.model_sv(model, acts[i]))
                cs = S.conc_tree(jax.tree_util.tree_map(np.asarray, s))
                ns, ts = fstep(s, a)
                cns, cts = S.conc_tree(jax.tree_util.tree_map(np.asarray, ns)), S.conc_tree(jax.tree_util.tree_map(np.asarray, ts))
                ca = SV(np.asarray(a), acts[i].dtype)
                tr.append({"action": np.asarray(a).tolist(), "step_type": int(ts.step_type), "reward": np.asarray(ts.reward).tolist()})
                if i == d:
                    vals = dict(obl_fn(cs, ca, cns, cts))
                    holds = bool(vals[name])
                    if legal_only:
                        legal_c = legal_c and bool(_legal(H, emitted, cs, ca, prev))
                    if not (alive_c and legal_c):
                        return False, {"note": "guard false on real run", "trace": tr}
                    from checks.drivers import _brief
                    return (not holds), {"config": H.cfg, "obligation": name, "depth": d + 1, "initial_state": _brief(jax.tree_util.tree_map(np.asarray, s_init)),
                                         "trace": tr, "final_state": _brief(jax.tree_util.tree_map(np.asarray, ns))}
                if legal_only:
                    legal_c = legal_c and bool(_legal(H, emitted, cs, ca, prev))
                alive_c = alive_c and int(ts.step_type) != 2
                s = ns
                prev = cts
        return replay

    if reset_obl is not None and hasattr(H, "bmc_first_timestep"):
        ts0 = H.bmc_first_timestep(ctx, st0)
        for n, v in reset_obl(st0, ts0):
            R.prove(n, A + ctx.assumptions, v.term() if not v.conc else bool(v), replay=None, internal=True)
    for d in range(k):
        act, apre = S.sym_action(ctx, H.env, tag=f"a{d}")
        R.nvars += S.nvars(act)
        ns, ts = S.call(ctx, H.env.step, states[-1], act, R=R, name=type(H.env).__name__ + ".step")
        acts.append(act)
        A += apre
        guard = alive
        if legal_only:
            legal_so_far = legal_so_far & _legal(H, emitted, states[-1], act, tss[-1] if tss else None)
            guard = guard & legal_so_far
        AA = A + ctx.assumptions + ([guard.z()] if not guard.conc else [])
        C.unwinding(R, ctx, AA)
        if d == 0:
            ok, m = R.reach(prefix + "instance+action", AA)
            if ok:
                try:
                    s_np, a_np = S.model_tree(m, st0), S.model_sv(m, act)
                    out = C.real_step(H.env, s_np, a_np)
                    S.differential(R, type(H.env).__name__ + ".step", (st0, act), (ns, ts), out, (s_np, a_np), ulps=getattr(H, "DIFF_ULPS", 0))
                    from checks.drivers import _brief
                    R.sample({"config": H.cfg, "instance_from_solver": _brief(s_np), "action": np.asarray(a_np).tolist()})
                except Exception as e:  # noqa
                    R.harness_errors.append(f"{R.job}: differential validation crashed: {e!r}")
        else:
            R.reach(f"{prefix}depth {d + 1} reachable", AA)
        obs = obl_fn(states[-1], act, ns, ts) or []
        for n, v in obs:
            name = f"{prefix}step {d + 1}: {n}"
            R.prove(name, AA, v.term() if not v.conc else bool(v), replay=make_replay(d, n))
        alive = alive & (vs(ts.step_type) != 2)
        states.append(ns)
        tss.append(ts)
    return ctx, states, acts, tss

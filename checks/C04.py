"""C04  The action mask is exactly the set of legal moves.
(a) the mask returned with S' (and with reset) equals the independent rule evaluated on S', for EVERY action;
(b) the environment's own reaction treats an action as invalid iff the rule forbids it."""
import numpy as np

from checks import common as C
from checks import drivers as D
from engine import sym as S
from engine import vexpr as X
from engine.vexpr import vs, all_, any_
from envs import base

LEVEL_TEXT = ("One inductive symbolic step of the real env.step jaxpr from every state satisfying the harness invariant (or bounded unrolling "
              "from a symbolic instance for BMC envs); mask entries compared with an independent statement of the rules for every action.")
TECHNIQUE = "jaxpr->SMT symbolic execution (z3), inductive one-step / bounded unrolling; mask vs independent rule oracle for all actions; replay on real code"
ASSUMPTIONS = C.STUB_ASSUMPTIONS + ["the independent legality rules in envs/<env>.py transcribe the documented rules of each problem"]
GROUP = 12


def mask_obl(H):
    def f(st, act, ns, ts):
        m = vs(H.mask_of(ts.observation, H.OBS_MASK))
        r = H.mask_rule(ns)
        m, r = np.asarray(m, dtype=object).reshape(-1), np.asarray(r, dtype=object).reshape(-1)
        assert m.shape == r.shape, (m.shape, r.shape)
        out = []
        for k in range(0, len(m), GROUP):
            out.append((f"mask(S')[{k}:{min(k + GROUP, len(m))}] == rule(S')", all_([a.iff(b) for a, b in zip(m[k:k + GROUP], r[k:k + GROUP])])))
        return out
    return f


def reaction_obl(H):
    def f(st, act, ns, ts):
        legal = H.action_legal(st, act)
        inv = H.treated_invalid(st, act, ns, ts)
        if inv is None:
            return []
        return [(f"agent{i}: treated as invalid <=> rule forbids the action", t.iff(~l)) for i, (l, t) in enumerate(zip(legal, inv))]
    return f


def run(R, cfg, over=None):
    H = base.get(cfg, **(over or {}))
    if H.BMC:
        from checks import bmc
        # optional harness hooks (BMC only): `mask_obl_bmc(st, act, ns, ts)` replaces the direct comparison mask(S') == rule(S')
        # by a kernel+bridge decomposition where the direct query on a deeply unrolled S' is out of reach (BinPack): bridge
        # = "the emitted mask is the environment's own view function of S'" per step, kernel = "that view function equals
        # the independent rule for EVERY raw state of the domain", discharged once in `kernels_c04(R)`
        mo = getattr(H, "mask_obl_bmc", None) or mask_obl(H)
        out = bmc.run(R, H, lambda st, act, ns, ts: D_guard(mo, st, act, ns, ts) + reaction_obl(H)(st, act, ns, ts),
                      reset_obl=lambda st, ts: reset_mask(H, st, ts))
        if hasattr(H, "kernels_c04"):
            H.kernels_c04(R)
        return out
    sp = D.build_step(R, H)
    D.prove_list(R, sp, mask_obl(H), guard=D.not_last)
    D.prove_list(R, sp, reaction_obl(H))
    bad = any_([~l for l in H.action_legal(sp.st, sp.act)])
    R.reach("an illegal action exists", sp.A, bad.z())
    R.reach("a legal action exists", sp.A, (~bad).z())
    # reset mask
    if not getattr(H, "RESET_INV", True):
        R.note(f"{cfg}: reset not encodable (harness RESET_INV=False); reset mask not checked")
        return
    ctx, key, st, ts = D.inv_reset(R, H, prove_inv=False)
    obs = reset_mask(H, st, ts)
    for n, v in obs:
        def pred(s_np, ts_np, n=n):
            vals = dict(reset_mask(H, S.conc_tree(s_np), S.conc_tree(ts_np)))
            return bool(vals[n]), {"config": H.cfg, "obligation": n}
        R.prove(n, list(ctx.assumptions), v.term() if not v.conc else bool(v), replay=C.reset_replayer(H.env.reset, ctx, key, lambda out, pred=pred: pred(out[0], out[1]), 256))


def D_guard(f, st, act, ns, ts):
    g = D.not_last(st, act, ns, ts)
    return [(n, g.implies(v)) for n, v in f(st, act, ns, ts)]


def reset_mask(H, st, ts):
    m = np.asarray(vs(H.mask_of(ts.observation, H.OBS_MASK)), dtype=object).reshape(-1)
    r = np.asarray(H.mask_rule(st), dtype=object).reshape(-1)
    return [(f"reset: mask[{k}:{min(k + GROUP, len(m))}] == rule", all_([a.iff(b) for a, b in zip(m[k:k + GROUP], r[k:k + GROUP])]))
            for k in range(0, len(m), GROUP)]


def jobs(tier, seed):
    js = []
    for name in base.available():
        cls = base.cls_of(name)
        if not cls.MASKED:
            continue
        for cfg in cls.QUICK + (cls.THOROUGH if tier == "thorough" else []):
            js.append((cfg, "checks.C04", "run", {"cfg": cfg}))
    return js

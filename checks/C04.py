"""C04  The action mask is exactly the set of legal moves.
(a) the mask returned with S' (and with reset) equals the independent rule evaluated on S', for EVERY action;
(b) the environment's own reaction treats an action as invalid iff the rule forbids it."""
import numpy as np

from checks import common as C
from checks import drivers as D
from engine import sym as S
from engine import vexpr as X
from engine.vexpr import vs, all_, any_
from envs import base

LEVEL_TEXT = ("One inductive symbolic step of the real env.step jaxpr from every state satisfying the harness invariant (or bounded unrolling "
              "from a symbolic instance for BMC envs); mask entries compared with an independent statement of the rules for every action.")
TECHNIQUE = "jaxpr->SMT symbolic execution (z3), inductive one-step / bounded unrolling; mask vs independent rule oracle for all actions; replay on real code"
ASSUMPTIONS = C.STUB_ASSUMPTIONS + ["the independent legality rules in envs/<env>.py transcribe the documented rules of each problem"]
GROUP = 12


def mask_obl(H):
    def f(st, act, ns, ts):
        m = vs(H.mask_of(ts.observation, H.OBS_MASK))
        r = H.mask_rule(ns)
        m, r = np.asarray(m, dtype=object).reshape(-1), np.asarray(r, dtype=object).reshape(-1)
        assert m.shape == r.shape, (m.shape, r.shape)
        out = []
        for k in range(0, len(m), GROUP):
            out.append((f"mask(S')[{k}:{min(k + GROUP, len(m))}] == rule(S')", all_([a.iff(b) for a, b in zip(m[k:k + GROUP], r[k:k + GROUP])])))
        return out
    return f


def reaction_obl(H):
    def f(st, act, ns, ts):
        legal = H.action_legal(st, act)
        inv = H.treated_invalid(st, act, ns, ts)
        if inv is None:
            return []
        return [(f"agent{i}: treated as invalid <=> rule forbids the action", t.iff(~l)) for i, (l, t) in enumerate(zip(legal, inv))]
    return f


def run(R, cfg, over=None):
    H = base.get(cfg, **(over or {}))
    if H.BMC:
        from checks import bmc
        # optional harness hooks (BMC only): `mask_obl_bmc(st, act, ns, ts)` replaces the direct comparison mask(S') == rule(S')
        # by a kernel+bridge decomposition where the direct query on a deeply unrolled S' is out of reach (BinPack): bridge
        # = "the emitted mask is the environment's own view function of S'" per step, kernel = "that view function equals
        # the independent rule for EVERY raw state of the domain", discharged once in `kernels_c04(R)`
        mo = getattr(H, "mask_obl_bmc", None) or mask_obl(H)
        out = bmc.run(R, H, lambda st, act, ns, ts: D_guard(mo, st, act, ns, ts) + reaction_obl(H)(st, act, ns, ts),
                      reset_obl=lambda st, ts: reset_mask(H, st, ts))
        if hasattr(H, "kernels_c04"):
            H.kernels_c04(R)
        return out
    sp = D.build_step(R, H)
    D.prove_list(R, sp, mask_obl(H), guard=D.not_last)
    D.prove_list(R, sp, reaction_obl(H))
    bad = any_([~l for l in H.action_legal(sp.st, sp.act)])
    R.reach("an illegal action exists", sp.A, bad.z())
    R.reach("a legal action exists", sp.A, (~bad).z())
    # reset mask
    if not getattr(H, "RESET_INV", True):
        R.note(f"{cfg}: reset not encodable (harness RESET_INV=False); reset mask not checked")
        return
    ctx, key, st, ts = D.inv_reset(R, H, prove_inv=False)
    obs = reset_mask(H, st, ts)
    for n, v in obs:
        def pred(s_np, ts_np, n=n):
            vals = dict(reset_mask(H, S.conc_tree(s_np), S.conc_tree(ts_np)))
            return bool(vals[n]), {"config": H.cfg, "obligation": n}
        R.prove(n, list(ctx.assumptions), v.term() if not v.conc else bool(v), replay=C.reset_replayer(H.env.reset, ctx, key, lambda out, pred=pred: pred(out[0], out[1]), 256))


def D_guard(f, st, act, ns, ts):
    g = D.not_last(st, act, ns, ts)
    return [(n, g.implies(v)) for n, v in f(st, act, ns, ts)]


def reset_mask(H, st, ts):
    m = np.asarray(vs(H.mask_of(ts.observation, H.OBS_MASK)), dtype=object).reshape(-1)
    r = np.asarray(H.mask_rule(st), dtype=object).reshape(-1)
    return [(f"reset: mask[{k}:{min(k + GROUP, len(m))}] == rule", all_([a.iff(b) for a, b in zip(m[k:k + GROUP], r[k:k + GROUP])]))
            for k in range(0, len(m), GROUP)]


def jobs(tier, seed):
    js = []
    for name in base.available():
        cls = base.cls_of(name)
        if not cls.MASKED:
            continue
        for cfg in cls.QUICK + (cls.THOROUGH if tier == "thorough" else []):
            js.append((cfg, "checks.C04", "run", {"cfg": cfg}))
    js.append(("PacMan@default/mask-vs-movement", "checks.C04", "run_pacman_default_mask", {}))
    return js


def run_pacman_default_mask(R):
    """PacMan on the DEFAULT maze (31x28, with the tunnel row): for every corridor cell the player can stand on and every move, the
    mask entry agrees with the environment's own reaction (form (b) of C04): masked-in <=> `step`'s movement code
    (check_wall_collisions(player_step(...))) actually moves the player.  The harness mazes have closed borders, so the wrap-around
    through the tunnel mouths - where mask (JAX index wrap/clamp) and movement (modulo) are two different pieces of arithmetic - is
    only exercised here.  Player position symbolic over the whole grid, everything else from the real reset(PRNGKey(0))."""
    import jax
    import jax.numpy as jnp
    from engine.jx2smt import SV, Ctx
    from engine.vexpr import pick
    from jumanji import environments as E
    from jumanji.environments.routing.pac_man.types import Position
    env = E.PacMan()
    s0, _ = jax.jit(env.reset)(jax.random.PRNGKey(0))
    s_np = jax.tree_util.tree_map(np.asarray, s0)
    xs, ys = int(env.x_size), int(env.y_size)
    ctx = Ctx()
    px = ctx.fresh_arr("P.x", (), np.int32, 0, xs - 1)
    py = ctx.fresh_arr("P.y", (), np.int32, 0, ys - 1)
    st = S.conc_tree(s_np).replace(player_locations=Position(x=px, y=py))
    grid = vs(S.conc_tree(s_np).grid)
    # the player stands on a corridor cell (the mask function reads grid[x][y] with x = player.x, y = player.y)
    on_corridor = pick(grid, vs(px), vs(py), default=X.const(0)) == 1 if np.asarray(s_np.grid).shape == (xs, ys) else pick(grid, vs(py), vs(px), default=X.const(0)) == 1
    mask = S.call(ctx, env._compute_action_mask, st, R=R, name="PacMan._compute_action_mask (default maze)")
    R.nvars += 2
    A = list(ctx.assumptions) + [on_corridor.z()]
    R.bound(maze="default 31x28 (tunnel row included)", player="any corridor cell", moves="0..3", other_state="reset(PRNGKey(0))")
    R.reach("player on a corridor cell", A)
    m = vs(mask)
    for a in range(4):
        act = SV(np.asarray(a, np.int32), np.int32)
        new = S.call(ctx, lambda s_, a_: env.check_wall_collisions(s_, env.player_step(s_, a_)), st, act, R=R, name="PacMan.check_wall_collisions(player_step)")
        moved = ~((vs(new.x) == vs(px)) & (vs(new.y) == vs(py)))
        mk = m[a] if m[a].dt == np.bool_ else (m[a] != 0)

        def rp(model, a=a):
            x0, y0 = int(S.model_sv(model, px)), int(S.model_sv(model, py))
            s_ = s0.replace(player_locations=Position(x=jnp.asarray(x0, jnp.int32), y=jnp.asarray(y0, jnp.int32)))
            mreal = bool(np.asarray(env._compute_action_mask(s_))[a])
            n_ = env.check_wall_collisions(s_, env.player_step(s_, a))
            mv = (int(n_.x), int(n_.y)) != (x0, y0)
            return (mreal != mv), {"player": [x0, y0], "action": a, "mask": mreal, "step_moves_the_player": mv, "new_position": [int(n_.x), int(n_.y)]}
        R.prove(f"default maze, action {a}: masked in <=> the movement code of step moves the player (tunnel mouths included)", A, mk.iff(moved).term(), replay=rp)
    R.sample({"env": "PacMan default", "cells": xs * ys})

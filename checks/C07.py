"""C07  Game and grid worlds stay physically consistent under any actions.
Phys(S) is part of the harness invariant: Inv(reset), Inv(S) & not LAST => Inv(S') for ANY in-spec action,
plus conservation laws stated as frame + local delta."""
from checks import common as C
from checks import drivers as D
from envs import base

LEVEL_TEXT = ("Inductive invariant checking on the real env.step/env.reset jaxprs: physical-consistency predicate proved on reset and preserved "
              "by every non-terminal step from an arbitrary consistent state under any in-spec action; conservation as frame+delta laws.")
TECHNIQUE = "jaxpr->SMT symbolic execution (z3), inductive invariant (one conjunct per query) + conservation laws; replay on real code"
ASSUMPTIONS = C.STUB_ASSUMPTIONS
ENVS = ["Maze", "Cleaner", "PacMan", "Sokoban", "Snake", "Tetris", "Game2048", "Minesweeper", "Connector", "LevelBasedForaging", "RobotWarehouse"]


def run(R, cfg, over=None):
    H = base.get(cfg, **(over or {}))
    sp = D.build_step(R, H)
    D.inv_step(R, sp)
    D.prove_list(R, sp, lambda st, act, ns, ts: H.conserve(st, act, ns, ts) or [], prefix="conservation: ", guard=D.not_last)
    if D.escaped_domain(R):
        D.escalate_two_steps(R, H, lambda st, act, ns, ts: [(n, D.not_last(st, act, ns, ts).implies(v)) for n, v in
                                                           [("Inv(S''): " + n_, v_) for n_, v_ in H.inv(ns, None)] + [("conservation: " + n_, v_) for n_, v_ in (H.conserve(st, act, ns, ts) or [])]])
    if getattr(H, "RESET_INV", True):
        D.inv_reset(R, H)
    if hasattr(H, "kernels_c07"):
        H.kernels_c07(R)


def jobs(tier, seed):
    js = []
    for name in base.available():
        if name not in ENVS:
            continue
        cls = base.cls_of(name)
        for cfg in cls.QUICK + (cls.THOROUGH if tier == "thorough" else []):
            js.append((cfg, "checks.C07", "run", {"cfg": cfg}))
    return js

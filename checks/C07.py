"""C07  Game and grid worlds stay physically consistent under any actions.
Phys(S) is part of the harness invariant: Inv(reset), Inv(S) & not LAST => Inv(S') for ANY in-spec action,
plus conservation laws stated as frame + local delta."""
from checks import common as C
from checks import drivers as D
from envs import base

LEVEL_TEXT = ("Inductive invariant checking on the real env.step/env.reset jaxprs: physical-consistency predicate proved on reset and preserved "
              "by every non-terminal step from an arbitrary consistent state under any in-spec action; conservation as frame+delta laws.")
TECHNIQUE = "jaxpr->SMT symbolic execution (z3), inductive invariant (one conjunct per query) + conservation laws; replay on real code"
ASSUMPTIONS = C.STUB_ASSUMPTIONS
ENVS = ["Maze", "Cleaner", "PacMan", "Sokoban", "Snake", "Tetris", "Game2048", "Minesweeper", "Connector", "LevelBasedForaging", "RobotWarehouse"]


def run(R, cfg, over=None):
    H = base.get(cfg, **(over or {}))
    sp = D.build_step(R, H)
    D.inv_step(R, sp)
    D.prove_list(R, sp, lambda st, act, ns, ts: H.conserve(st, act, ns, ts) or [], prefix="conservation: ", guard=D.not_last)
    if D.escaped_domain(R):
        D.escalate_two_steps(R, H, lambda st, act, ns, ts: [(n, D.not_last(st, act, ns, ts).implies(v)) for n, v in
                                                           [("Inv(S''): " + n_, v_) for n_, v_ in H.inv(ns, None)] + [("conservation: " + n_, v_) for n_, v_ in (H.conserve(st, act, ns, ts) or [])]])
    if getattr(H, "RESET_INV", True):
        D.inv_reset(R, H)
    if hasattr(H, "kernels_c07"):
        H.kernels_c07(R)


def run_capacity(R, name):
    """IR-type side condition of the bounded claim: the inductive step is decided on boards of at most ~16 cells, where every counter
    fits any integer dtype.  At the DEFAULT configuration the state leaves that count cells / steps must have a dtype that can hold the
    largest value the rules give them (Snake: `body_state` numbers the body 1..length <= rows*cols; a seeded int8 `body_state` wraps at
    length 128 on the 12x12 default board).  Decided on the avals of the real reset/step jaxprs (no solver query, kind "structural")."""
    import jax
    import numpy as np
    from envs import configs
    try:
        env = configs.make_default(name)
    except Exception as e:  # noqa  (Sokoban needs its dataset)
        R.note(f"{name}: default configuration cannot be built offline ({type(e).__name__}); capacity side condition skipped")
        return
    st, _ = jax.eval_shape(env.reset, jax.random.PRNGKey(0))
    act = env.action_spec.generate_value()
    ns, _ = jax.eval_shape(env.step, st, act)
    cls = base.cls_of(name)
    need = dict(cls.capacity(env)) if hasattr(cls, "capacity") else {}
    T = getattr(env, "time_limit", None)
    R.bound(config=name + "@default", what="dtype capacity of counting state leaves", required=need, time_limit=T)
    for which, tree in (("reset", st), ("step", ns)):
        for path, leaf in jax.tree_util.tree_leaves_with_path(tree):
            pth = jax.tree_util.keystr(path)
            dt = np.dtype(leaf.dtype) if not jax.dtypes.issubdtype(leaf.dtype, jax.dtypes.prng_key) else None
            if dt is None or dt.kind not in "iu":
                continue
            req = need.get(pth)
            if req is None and pth.endswith("step_count") and T is not None:
                req = int(T)
            if req is None:
                continue
            ok = np.iinfo(dt).max >= int(req)
            R.structural(f"capacity: {which}{pth} dtype {dt} holds the largest rule value {int(req)}", ok,
                         {"config": name + "@default", "leaf": pth, "dtype": str(dt), "dtype_max": int(np.iinfo(dt).max), "required": int(req)})


def jobs(tier, seed):
    js = []
    for name in ENVS:
        if name == "Sokoban":      # the default Sokoban needs its dataset (network): its levels are 10x10 with int32/uint8 grids
            continue
        js.append((f"capacity/{name}@default", "checks.C07", "run_capacity", {"name": name}))
    for name in base.available():
        if name not in ENVS:
            continue
        cls = base.cls_of(name)
        for cfg in cls.QUICK + (cls.THOROUGH if tier == "thorough" else []):
            js.append((cfg, "checks.C07", "run", {"cfg": cfg}))
    return js

"""C09  Transitions follow the published rules (reference-model agreement)."""
import numpy as np

from checks import common as C
from checks import drivers as D
from engine import vexpr as X
from engine.vexpr import V, vs, all_
from envs import base

LEVEL_TEXT = ("One symbolic step of the real env.step jaxpr from every valid state vs. an independent plain-Python re-implementation of the rules "
              "over symbolic scalars: successor state fields, reward and termination flag proved equal for every state/action at the listed sizes.")
TECHNIQUE = "jaxpr->SMT symbolic execution (z3) of env.step vs symbolic reference model, field-by-field equivalence; replay on real code"
ASSUMPTIONS = C.STUB_ASSUMPTIONS + ["reference models in envs/<env>.py transcribe the documented game rules"]


def ref_obl(H):
    def f(st, act, ns, ts):
        ref = H.ref_step(st, act)
        out = []
        for k, v in ref.items():
            if k == "reward":
                out.append(("reward == reference", X.eq_arr(vs(ts.reward), v)))
            elif k == "last":
                out.append(("step_type LAST <=> reference termination", (vs(ts.step_type) == 2).iff(v)))
            else:
                obj = ns
                for part in k.split("."):
                    obj = getattr(obj, part)
                out.append((f"S'.{k} == reference", X.eq_arr(vs(obj), v)))
        return out
    return f


def run(R, cfg, over=None):
    H = base.get(cfg, **(over or {}))
    if H.BMC:
        from checks import bmc
        bmc.run(R, H, ref_obl(H))
    else:
        sp = D.build_step(R, H)
        D.prove_list(R, sp, ref_obl(H))
    if hasattr(H, "kernels_c09"):
        H.kernels_c09(R)


def jobs(tier, seed):
    js = []
    for name in base.available():
        cls = base.cls_of(name)
        if cls.ref_step is base.Harness.ref_step:
            continue
        for cfg in cls.QUICK + (cls.THOROUGH if tier == "thorough" else []):
            js.append((cfg, "checks.C09", "run", {"cfg": cfg}))
    return js

"""C09  Transitions follow the published rules (reference-model agreement)."""
import numpy as np

from checks import common as C
from checks import drivers as D
from engine import vexpr as X
from engine.vexpr import V, vs, all_
from envs import base

LEVEL_TEXT = ("One symbolic step of the real env.step jaxpr from every valid state vs. an independent plain-Python re-implementation of the rules "
              "over symbolic scalars: successor state fields, reward and termination flag proved equal for every state/action at the listed sizes.")
TECHNIQUE = "jaxpr->SMT symbolic execution (z3) of env.step vs symbolic reference model, field-by-field equivalence; replay on real code"
ASSUMPTIONS = C.STUB_ASSUMPTIONS + ["reference models in envs/<env>.py transcribe the documented game rules"]


def ref_obl(H):
    def f(st, act, ns, ts):
        # REF_DRAWS: the reference additionally receives S' so that it can READ the fields that depend on fresh randomness
        # (next piece, spawned tile ...) -- "compared modulo the shared stub draw"; it must not copy anything else from S'
        ref = dict(H.ref_step(st, act, ns) if getattr(H, "REF_DRAWS", False) else H.ref_step(st, act))
        out = []
        # optional "_when": V-bool under which the successor-STATE claims are made (where the docs leave the successor
        # state of e.g. an illegal, terminal action undetermined); reward and termination are always claimed
        when = ref.pop("_when", None)
        when_last = ref.pop("_when_last", None)   # optional guard of the termination claim (e.g. an in-spec action the docs do not cover)
        for k, v in ref.items():
            if k == "reward":
                out.append(("reward == reference", X.eq_arr(vs(ts.reward), v)))
            elif k == "reward_range":
                # (lo, hi) V float32: reference reward known up to float rounding only (Euclidean envs, tolerance stated by the harness)
                r = vs(ts.reward)
                out.append(("reward within the reference band [lo, hi]", (r >= v[0]) & (r <= v[1])))
            elif k == "last":
                iff = (vs(ts.step_type) == 2).iff(v)
                out.append(("step_type LAST <=> reference termination", iff if when_last is None else when_last.implies(iff)))
            else:
                obj = ns
                for part in k.split("."):
                    obj = getattr(obj, part)
                if k in getattr(H, "REF_SPLIT", ()):
                    # one obligation per leading index of a large array field (keeps every query far below the timeout)
                    got = vs(obj)
                    for i in range(len(v)):
                        eq = X.eq_arr(got[i], v[i])
                        out.append((f"S'.{k}[{i}] == reference", eq if when is None else when.implies(eq)))
                    continue
                eq = X.eq_arr(vs(obj), v)
                out.append((f"S'.{k} == reference", eq if when is None else when.implies(eq)))
        return out
    return f


def run(R, cfg, over=None):
    H = base.get(cfg, **(over or {}))
    if H.BMC:
        from checks import bmc
        bmc.run(R, H, ref_obl(H))
    else:
        sp = D.build_step(R, H)
        D.prove_list(R, sp, ref_obl(H))
    if hasattr(H, "kernels_c09"):
        H.kernels_c09(R)


def jobs(tier, seed):
    js = []
    for name in base.available():
        cls = base.cls_of(name)
        if cls.ref_step is base.Harness.ref_step:
            continue
        for cfg in cls.QUICK + (cls.THOROUGH if tier == "thorough" else []):
            js.append((cfg, "checks.C09", "run", {"cfg": cfg}))
        # harnesses whose reference model follows the constants / reward function of a constructor variant (REF_REWARD_VARIANTS) also
        # run their non-default variants (first quick configuration): non-default reward functions and scalars are code paths of their own
        if getattr(cls, "REF_REWARD_VARIANTS", False):
            for i, over in enumerate(getattr(cls, "REWARD_VARIANTS", [{}])):
                if i:
                    js.append((cls.QUICK[0] + f"#{i}", "checks.C09", "run", {"cfg": cls.QUICK[0], "over": over}))
    return js

"""C02  reset/step are pure functions and commute with jit, vmap and scan."""
import jax
import jax.numpy as jnp
import numpy as np
import z3

from checks import common as C
from checks import wrap_common as WC
from engine import jx2smt as J
from engine import sym as S
from engine.jx2smt import SV, Ctx
from envs import configs

LEVEL_TEXT = ("IR-level facts valid for all inputs (no effects/callbacks in the jaxpr; identical jaxpr incl. closed-over constants across fresh instances "
              "and call histories; argument pytrees untouched by tracing) plus SMT equivalence of the jit / vmap (batch 2,3) / scan (length 2,3) "
              "programs with per-call execution on shared symbolic states, actions and keys.")
TECHNIQUE = "jaxpr alpha-equivalence + jaxpr->SMT symbolic execution (z3) of jit/vmap/scan-transformed step and reset vs per-call composition on shared symbolic inputs; replay on real code"
ASSUMPTIONS = C.STUB_ASSUMPTIONS + ["eager execution, jit and the encoding all execute the same jaxpr (XLA compilation itself is trusted)"]

BAD_PRIMS = ("callback", "debug_print", "infeed", "outfeed", "host_", "io_")


def walk(jaxpr, fn):
    for e in jaxpr.eqns:
        fn(e)
        for v in e.params.values():
            for sub in (v if isinstance(v, (list, tuple)) else [v]):
                if hasattr(sub, "jaxpr") and hasattr(sub, "consts"):
                    walk(sub.jaxpr, fn)
                elif hasattr(sub, "eqns"):
                    walk(sub, fn)


def jaxpr_fingerprint(closed):
    consts = []
    for c in closed.consts:
        a = np.asarray(c)
        consts.append((str(a.dtype), a.shape, a.tobytes()))
    return str(closed.jaxpr), consts


def run_ir(R, name, over=None):
    """effects, callbacks, determinism of the trace across instances and histories, arguments untouched.
    over: constructor overrides of a non-default variant (reward function, observer, normalisation flags ...) built through the harness
    table, so that the variant's own code is traced too"""
    def build():
        if over:
            from envs import base as hb
            return hb.get(name, **over).env
        return configs.make(name)
    env = build()
    key = jax.random.PRNGKey(0)
    a0 = env.action_spec.generate_value()
    R.bound(config=name, overrides=str(over or {}), facts="hold for every input (properties of the traced program)")
    try:
        st_shape, _ = jax.eval_shape(env.reset, key)
        j_step = jax.make_jaxpr(env.step)(st_shape, a0)
        j_reset = jax.make_jaxpr(env.reset)(key)
    except Exception as e:  # noqa  (python control flow / float() / bool() on a traced value: works eagerly, fails under jit, vmap and scan)
        eager_ok = True
        try:
            s_, _ = env.reset(key)
            env.step(s_, a0)
        except Exception:  # noqa
            eager_ok = False
        R.validated += 1
        R.structural("reset/step can be traced: jit, vmap and scan of them are defined (and then equal per-call execution)", False,
                     {"config": name, "overrides": str(over or {}), "error": f"{type(e).__name__}: {str(e)[:300]}", "eager_call_works": eager_ok})
        return
    for nm, j in (("step", j_step), ("reset", j_reset)):
        bad = []
        walk(j.jaxpr, lambda e: bad.append(e.primitive.name) if any(b in e.primitive.name for b in BAD_PRIMS) else None)
        R.structural(f"{nm}: jaxpr has no side effects (effects == {{}}, no callback/IO primitive)", not j.effects and not bad,
                     {"config": name, "effects": str(j.effects), "primitives": bad})
    # history on the same object: other keys, other actions, jit, a short rollout
    try:
        s, t = jax.jit(env.reset)(jax.random.PRNGKey(7))
        for i in range(3):
            s, t = jax.jit(env.step)(s, a0)
        env.reset(jax.random.PRNGKey(11))
    except Exception as e:  # noqa  (e.g. a value cached during an earlier trace: UnexpectedTracerError)
        R.structural("reset/step can be called eagerly after having been traced/jitted on the same instance (no state leaks out of a trace)", False,
                     {"config": name, "error": f"{type(e).__name__}: {str(e)[:200]}"})
        return
    _ = env.observation_spec, env.action_spec
    j_step2 = jax.make_jaxpr(env.step)(st_shape, a0)
    j_reset2 = jax.make_jaxpr(env.reset)(key)
    env3 = build()
    j_step3 = jax.make_jaxpr(env3.step)(st_shape, a0)
    j_reset3 = jax.make_jaxpr(env3.reset)(key)
    for nm, a, b, c in (("step", j_step, j_step2, j_step3), ("reset", j_reset, j_reset2, j_reset3)):
        fa, fb, fc = jaxpr_fingerprint(a), jaxpr_fingerprint(b), jaxpr_fingerprint(c)
        R.structural(f"{nm}: same program (equations and closed-over constants) after a call history on the same instance", fa == fb,
                     {"config": name, "note": "jaxpr text or constants changed after reset/step/jit calls: hidden state"})
        R.structural(f"{nm}: same program on a fresh instance with the same configuration", fa == fc,
                     {"config": name, "note": "jaxpr text or constants differ between two instances built with equal arguments"})
    R.validated += 2

    # arguments not modified: python control flow cannot depend on traced values, so one trace decides it for all inputs
    untouched = {}

    def probe_step(s_, a_):
        before = jax.tree_util.tree_leaves(s_)
        ids = [id(x) for x in before]
        env.step(s_, a_)
        after = jax.tree_util.tree_leaves(s_)
        untouched["step"] = len(after) == len(before) and all(id(x) == i for x, i in zip(after, ids))
        return 0

    def probe_reset(k_):
        kid = id(k_)
        env.reset(k_)
        untouched["reset"] = id(k_) == kid
        return 0
    jax.make_jaxpr(probe_step)(st_shape, a0)
    jax.make_jaxpr(probe_reset)(key)
    R.structural("step does not modify its state argument (all leaves are the identical objects after the call)", untouched.get("step", False), {"config": name})
    R.structural("reset does not modify its key argument", untouched.get("reset", False), {"config": name})
    # results are VALUES: a state returned by an eager call must not change when the environment is called again (a generator that
    # caches one State object and rewrites it, an in-place update shared between input and output), and the arguments must still be
    # usable afterwards (a buffer donated to an inner jit is deleted under the caller's feet).  Eager calls, real objects.
    try:
        kA, kB = jax.random.PRNGKey(101), jax.random.PRNGKey(202)
        rA = env.reset(kA)
        snapA = jax.tree_util.tree_map(lambda x: np.array(x, copy=True), rA)
        rB = env.reset(kB)
        jax.make_jaxpr(env.reset)(key)      # a later trace must not leak into earlier results either
        same_after = WC.np_tree_equal(rA, snapA)
        again = env.reset(kA)
        R.structural("reset: an eagerly returned (state, timestep) is unchanged by later reset calls / traces, and reset(k) is reproducible after them",
                     same_after and WC.np_tree_equal(again, snapA), {"config": name, "first_result_changed": not same_after, "differs": WC.diff_fields(rA, snapA) if not same_after else WC.diff_fields(again, snapA)})
        s0 = rA[0]
        snapS = jax.tree_util.tree_map(lambda x: np.array(x, copy=True), s0)
        oA = env.step(s0, a0)
        snapO = jax.tree_util.tree_map(lambda x: np.array(x, copy=True), oA)
        arg_ok = WC.np_tree_equal(s0, snapS)
        oB = env.step(s0, a0)              # replay from the SAME input state
        R.structural("step: the state argument is intact after an eager call (values and buffers) and replaying step(state, action) gives the same transition",
                     arg_ok and WC.np_tree_equal(oB, snapO) and WC.np_tree_equal(oA, snapO),
                     {"config": name, "argument_changed": not arg_ok, "differs": WC.diff_fields(oB, snapO)})
    except Exception as e:  # noqa
        R.structural("eager reset/step leave their arguments and earlier results usable", False, {"config": name, "error": f"{type(e).__name__}: {str(e)[:200]}"})
    R.validated += 6
    # concrete: repeating a call gives bitwise the same result (eager vs jit vs repeated)
    s1, t1 = env.reset(key)
    s2, t2 = jax.jit(env.reset)(key)
    s3, t3 = env.reset(key)
    R.structural("reset(key): eager == jit == repeated call (bitwise, PRNGKey(0))", WC.np_tree_equal((s1, t1), (s2, t2)) and WC.np_tree_equal((s1, t1), (s3, t3)),
                 {"config": name, "differs": WC.diff_fields((s1, t1), (s2, t2))})
    o1 = env.step(s1, a0)
    o2 = jax.jit(env.step)(s1, a0)
    o3 = env3.step(s1, a0)
    R.structural("step(state, action): eager == jit == fresh instance (bitwise, on reset(PRNGKey(0)))", WC.np_tree_equal(o1, o2) and WC.np_tree_equal(o1, o3),
                 {"config": name, "differs": WC.diff_fields(o1, o2) + WC.diff_fields(o1, o3)})
    R.validated += 4
    R.sample({"config": name, "step_eqns": len(j_step.jaxpr.eqns), "reset_eqns": len(j_reset.jaxpr.eqns)})


def run_ctor_args(R):
    """'calling on a fresh instance with the same configuration gives the same result and never modifies the arguments', for the
    constructors that take MUTABLE configuration objects (arrays, lists): building an instance must leave the caller's object
    untouched, and a second instance built from the same object must be the same program with the same constants."""
    import copy
    from jumanji import environments as E
    from jumanji.environments.logic.sudoku import data as sd
    from jumanji.environments.logic.sudoku.generator import DatabaseGenerator
    from jumanji.environments.routing.pac_man.generator import AsciiGenerator
    import os
    db8 = np.load(os.path.join(os.path.dirname(sd.__file__), sd.DATABASES["very-easy"]))[:3]
    cases = []
    for dt in (np.int8, np.int32, np.int64, np.uint8):
        cases.append((f"Sudoku DatabaseGenerator(database: numpy {np.dtype(dt).name}[3,9,9])", np.array(db8, dtype=dt),
                      lambda a: E.Sudoku(generator=DatabaseGenerator(a)), lambda a: a.copy(), lambda a, b: np.array_equal(a, b) and a.dtype == b.dtype))
    cases.append(("Sudoku DatabaseGenerator(database: nested python list)", np.array(db8).tolist(), lambda a: E.Sudoku(generator=DatabaseGenerator(a)),
                  copy.deepcopy, lambda a, b: a == b))
    cases.append(("PacMan AsciiGenerator(maze: list of str)", list(configs.PACMAN_MAZE), lambda a: E.PacMan(generator=AsciiGenerator(a)), list, lambda a, b: a == b))
    key = jax.random.PRNGKey(3)
    R.bound(cases=[c[0] for c in cases], facts="constructor + reset + step traced twice from ONE configuration object")
    for label, arg, build, snap, same in cases:
        before = snap(arg)
        try:
            e1 = build(arg)
            s1, t1 = jax.jit(e1.reset)(key)
            o1 = jax.jit(e1.step)(s1, e1.action_spec.generate_value())
            ok_arg1 = same(arg, before)
            e2 = build(arg)
            s2, t2 = jax.jit(e2.reset)(key)
            o2 = jax.jit(e2.step)(s2, e2.action_spec.generate_value())
            ok_arg2 = same(arg, before)
            st_shape, _ = jax.eval_shape(e1.reset, key)
            f1 = jaxpr_fingerprint(jax.make_jaxpr(e1.reset)(key))
            f2 = jaxpr_fingerprint(jax.make_jaxpr(e2.reset)(key))
        except Exception as e:  # noqa
            R.structural(f"{label}: constructs, resets and steps", False, {"error": repr(e)[:300]})
            continue
        R.structural(f"{label}: the caller's configuration object is left untouched by construction, reset and step", ok_arg1 and ok_arg2,
                     {"case": label, "after_first_instance_unchanged": ok_arg1, "after_second_instance_unchanged": ok_arg2})
        R.structural(f"{label}: a second instance built from the same object is the same reset program (equations and constants)", f1 == f2, {"case": label})
        R.structural(f"{label}: both instances give bitwise the same reset and step for PRNGKey(3)", WC.np_tree_equal((s1, t1), (s2, t2)) and WC.np_tree_equal(o1, o2),
                     {"case": label, "differs": WC.diff_fields((s1, t1), (s2, t2)) + WC.diff_fields(o1, o2)})
        R.validated += 4
    R.sample({"cases": [c[0] for c in cases]})


def run_transform(R, name, B, L):
    """vmap lanes == per-call; scan == composition; jit == plain, on shared symbolic inputs"""
    WC.set_mode(name)
    env = configs.make(name)
    ctx = Ctx(max_unroll=24)
    lanes = [WC.fresh_state(ctx, env, f"S{i}", name) for i in range(B)]
    acts, pre = [], []
    for i in range(max(B, L)):
        a, p = S.sym_action(ctx, env, tag=f"a{i}")
        acts.append(a)
        pre += p
    R.nvars += sum(S.nvars(l) for l in lanes) + sum(S.nvars(a) for a in acts)
    R.bound(config=name, vmap_batch=B, scan_length=L, state="arbitrary state in the harness domain per lane", action="any in-spec")
    SB, AB = S.stack(lanes), S.stack(acts[:B])
    per = [S.call(ctx, env.step, lanes[i], acts[i], R=R, name=type(env).__name__ + ".step") for i in range(B)]
    vs_, vt = S.call(ctx, jax.vmap(env.step), SB, AB, R=R, name="vmap(step)")
    js_, jt = S.call(ctx, jax.jit(env.step), lanes[0], acts[0], R=R, name="jit(step)")
    A = pre + ctx.assumptions
    C.unwinding(R, ctx, A)
    R.reach("inputs", A)
    fV, fE = jax.jit(jax.vmap(env.step)), jax.jit(env.step)

    def replay_v(model):
        sb = jax.tree_util.tree_map(jnp.asarray, S.model_tree(model, SB))
        ab = jnp.asarray(S.model_sv(model, AB))
        out = fV(sb, ab)
        bad = []
        for i in range(B):
            o = env.step(jax.tree_util.tree_map(lambda x: x[i], sb), ab[i])
            d = WC.diff_fields(jax.tree_util.tree_map(lambda x: x[i], out), o)
            if d:
                bad.append({"lane": i, "differs": d})
        return bool(bad), {"config": name, "lanes_differ": bad}
    for i in range(B):
        WC.eq_obligations(R, f"vmap(step) lane {i} == step: ", A, S.tree_eq_items(S.lane((vs_, vt), i), per[i]), replay_v)
    R.prove("jit(step) == step", A, S.tree_eq((js_, jt), per[0]), replay=lambda m: (False, {"note": "jit differs from eager in the encoding only"}))

    # scan of length L from lane 0 vs explicit composition
    def rollout(s, a_seq):
        return jax.lax.scan(lambda c, a: env.step(c, a), s, a_seq)
    AS = S.stack(acts[:L])
    sc_s, sc_t = S.call(ctx, rollout, lanes[0], AS, R=R, name=f"lax.scan(step, length={L})")
    cur = lanes[0]
    tss = []
    for i in range(L):
        cur, t_ = S.call(ctx, env.step, cur, acts[i], R=R, name=type(env).__name__ + ".step")
        tss.append(t_)
    A2 = pre + ctx.assumptions

    def replay_s(model):
        s = jax.tree_util.tree_map(jnp.asarray, S.model_tree(model, lanes[0]))
        aseq = jnp.asarray(S.model_sv(model, AS))
        fs, ts_ = jax.jit(rollout)(s, aseq)
        c = s
        bad = []
        for i in range(L):
            c, t_ = env.step(c, aseq[i])
            d = WC.diff_fields(jax.tree_util.tree_map(lambda x: x[i], ts_), t_)
            if d:
                bad.append({"step": i, "differs": d})
        d = WC.diff_fields(fs, c)
        if d:
            bad.append({"final_state": d})
        return bool(bad), {"config": name, "scan_differs": bad}
    WC.eq_obligations(R, f"scan(step,{L}) final state == composition: ", A2, S.tree_eq_items(sc_s, cur), replay_s)
    for i in range(L):
        WC.eq_obligations(R, f"scan(step,{L}) timestep[{i}] == composition: ", A2, S.tree_eq_items(S.lane(sc_t, i), tss[i]), replay_s)

    # reset: vmap over keys
    keys = ctx.fresh_arr("keys", (B, 2), np.uint32)
    vr = S.call(ctx, jax.vmap(env.reset), keys, R=R, name="vmap(reset)")
    for i in range(B):
        ri = S.call(ctx, env.reset, SV(keys.a[i], np.uint32), R=R, name=type(env).__name__ + ".reset")

        def replay_r(model, i=i):
            k = jnp.asarray(S.model_sv(model, keys))
            d = WC.diff_fields(jax.tree_util.tree_map(lambda x: x[i], jax.vmap(env.reset)(k)), env.reset(k[i]))
            return bool(d), {"config": name, "lane": i, "differs": d}
        R.prove(f"vmap(reset) lane {i} == reset(keys[{i}])", list(ctx.assumptions), S.tree_eq(S.lane(vr, i), ri), replay=replay_r)
    R.sample({"config": name, "B": B, "L": L, "obligations": len(R.obl)})


def run_registry_fresh(R):
    """'a fresh instance with the same configuration gives the same result' through the public factory: jumanji.make(id) builds the same
    environment (equal specs, bitwise equal reset/step) before and after OTHER make calls that override constructor arguments of the same
    or of another id (overrides must not leak into the registry)."""
    import jumanji
    cases = [("Snake-v1", {"num_rows": 6, "num_cols": 5, "time_limit": 7}), ("Tetris-v0", {"num_rows": 8, "num_cols": 6, "time_limit": 9}),
             ("Game2048-v1", {"board_size": 3}), ("RubiksCube-partly-scrambled-v0", {"time_limit": 3}), ("Maze-v0", {"time_limit": 5})]
    R.bound(ids=[c[0] for c in cases])
    key = jax.random.PRNGKey(3)
    for env_id, over in cases:
        try:
            e0 = jumanji.make(env_id)
            r0 = jax.tree_util.tree_map(np.asarray, e0.reset(key))
            jumanji.make(env_id, **over)
            e1 = jumanji.make(env_id)
            r1 = jax.tree_util.tree_map(np.asarray, e1.reset(key))
            same_specs = (e0.observation_spec == e1.observation_spec) and (e0.action_spec == e1.action_spec)
            a0 = e0.action_spec.generate_value()
            o0 = jax.tree_util.tree_map(np.asarray, e0.step(e0.reset(key)[0], a0))
            o1 = jax.tree_util.tree_map(np.asarray, e1.step(e1.reset(key)[0], a0))
            ok = bool(same_specs) and WC.np_tree_equal(r0, r1) and WC.np_tree_equal(o0, o1) and getattr(e0, "time_limit", None) == getattr(e1, "time_limit", None)
            det = {"id": env_id, "overrides_of_the_call_in_between": str(over), "specs_equal": bool(same_specs), "reset_differs": WC.diff_fields(r0, r1) if same_specs else "different shapes",
                   "time_limit": [getattr(e0, "time_limit", None), getattr(e1, "time_limit", None)]}
        except Exception as e:  # noqa
            ok, det = False, {"id": env_id, "error": f"{type(e).__name__}: {str(e)[:200]}"}
        R.validated += 4
        R.structural(f"make('{env_id}') builds the same environment before and after make('{env_id}', **overrides)", ok, det)


TRANSFORM_ENVS = ["Knapsack", "Maze@3x3", "Snake", "Cleaner@3x3x1", "GraphColoring", "TSP", "SlidingTilePuzzle", "Connector", "Minesweeper", "CVRP",
                  "Tetris", "RubiksCube", "LevelBasedForaging", "JobShop", "Sudoku"]
# minutes each (large batched encodings): thorough tier only
# RobotWarehouse was dropped after the first end-to-end run of this tier (8 models that did not replay): the key its step carries through
# `lax.scan` + `lax.cond` is an ite term, and the random stubs memoised on the identity of that whole term, so the batched and the per-lane
# encoding drew differently.  The stubs now case-split such keys (engine/jx2smt._key_cases, DESIGN 8.9): all its state/timestep leaves are
# proved equal except the (2, 66) agents_view under vmap, which is `unknown` at the quick time-out - thorough tier.
THOROUGH_EXTRA = ["FlatPack", "Sokoban", "MultiCVRP", "Game2048", "BinPack@csv", "RobotWarehouse"]
JOBTIMEOUT = {"quick": 600, "thorough": 2400}


def jobs(tier, seed):
    js = [(f"{n}/ir", "checks.C02", "run_ir", {"name": n}) for n in configs.ALL]
    # the other generators shipped with the environments (toy / csv / random-walk), whose reset path is different code
    js += [(f"{n}/ir", "checks.C02", "run_ir", {"name": n}) for n in ("Maze@toy", "BinPack@toy", "BinPack@csv", "ConnectorRW", "Sokoban@toy", "PacMan@9x7")]
    # non-default variants shipped with the environments (other reward functions, observers, flags): their code is only reached through
    # constructor arguments, so the default configurations never trace it
    from envs import base as hb
    for hname in hb.available():
        cls = hb.cls_of(hname)
        seen = []
        for over in list(getattr(cls, "REWARD_VARIANTS", [])) + list(getattr(cls, "OBS_VARIANTS", [])):
            if over and str(over) not in seen and not any(str(k).startswith("steps") or k == "reward" for k in over):
                seen.append(str(over))
                js.append((f"{cls.QUICK[0]}#variant{len(seen)}/ir", "checks.C02", "run_ir", {"name": cls.QUICK[0], "over": over}))
    js.append(("constructor-arguments", "checks.C02", "run_ctor_args", {}))
    js.append(("registry/fresh-instance", "checks.C02", "run_registry_fresh", {}))
    for n in TRANSFORM_ENVS + (THOROUGH_EXTRA if tier == "thorough" else []):
        js.append((f"{n}/vmap2-scan2", "checks.C02", "run_transform", {"name": n, "B": 2, "L": 2}))
    for n in (TRANSFORM_ENVS[:3] if tier == "quick" else TRANSFORM_ENVS[:12]):
        js.append((f"{n}/vmap3-scan3", "checks.C02", "run_transform", {"name": n, "B": 3, "L": 3}))
    return js

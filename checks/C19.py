"""C19  Pytree helpers satisfy their algebraic laws.
tree_transpose / tree_slice / tree_add_element are jaxpr-traceable: symbolic leaf values and a SYMBOLIC index.
is_equal_pytree / assert_trees_* run on symbolic leaves through engine E2 (path forking)."""
import collections

import jax
import jax.numpy as jnp
import numpy as np
import z3

from checks import common as C
from engine import jx2smt as J
from engine import pysym as P
from engine import sym as S
from engine.jx2smt import SV, Ctx
from envs import configs

LEVEL_TEXT = ("Bounded symbolic checking: the real tree_utils functions traced to jaxprs with symbolic leaves and a symbolic index (batch sizes 1..4), "
              "and the real pytrees equality helpers executed path by path on symbolic leaves (dm-tree map_structure real, numpy shimmed).")
TECHNIQUE = "jaxpr->SMT symbolic execution (z3) of tree_utils with symbolic index; path-forking symbolic execution of testing.pytrees on symbolic leaves; replay on real code"
ASSUMPTIONS = ["np.array_equal/np.asarray/np.all are shimmed for symbolic leaves (shim validated differentially on concrete inputs)", "z3 is sound"]

NT = collections.namedtuple("NT", ["p", "q"])


def structures(ctx, tag, B):
    """list of (name, [B trees with symbolic leaves])"""
    out = []

    def leaf(n, shape, dt, lo=None, hi=None):
        return ctx.fresh_arr(n, shape, dt, lo, hi)
    out.append(("flat dict", [{"a": leaf(f"{tag}d{b}a", (2,), np.int32), "b": leaf(f"{tag}d{b}b", (), np.float32), "c": leaf(f"{tag}d{b}c", (1, 2), np.bool_)}
                              for b in range(B)]))
    out.append(("nested tuple/list/namedtuple", [(leaf(f"{tag}n{b}x", (), np.int8), [leaf(f"{tag}n{b}y", (2,), np.uint8),
                                                                                      NT(leaf(f"{tag}n{b}p", (2, 1), np.int32), leaf(f"{tag}n{b}q", (), np.bool_))])
                                                 for b in range(B)]))
    for envname in ("Maze@3x3", "Snake@3x3", "Connector@3x2", "BinPack@csv"):
        env = configs.make(envname)
        st_shape, _ = jax.eval_shape(env.reset, jax.random.PRNGKey(0))
        out.append((f"chex dataclass state of {envname}", [S.fresh_like(ctx, f"{tag}{envname}{b}", st_shape) for b in range(B)]))
    return out


def run_tree_utils(R, B):
    from jumanji import tree_utils as T
    ctx = Ctx()
    R.bound(batch=B, index="symbolic int32 in [-B, B) (negative = counted from the back, as for any array index)", leaves="symbolic, shapes () .. (2,1)")
    for sname, trees in structures(ctx, f"B{B}", B):
        R.nvars += sum(S.nvars(t) for t in trees)
        i = ctx.fresh_arr("i", (), np.int32, -B, B - 1)
        iz = S.scalar(i)
        A = list(ctx.assumptions)
        # slice(transpose(ts), i) == ts[i]
        try:
            out = S.call(ctx, lambda ts, k: T.tree_slice(T.tree_transpose(ts), k), trees, i, R=R, name="tree_slice(tree_transpose(.), i)")
            batched = S.call(ctx, T.tree_transpose, trees, R=R, name="tree_transpose")
            elem = jax.tree_util.tree_map(lambda x: ctx.fresh_arr("e", x.shape, x.dtype), trees[0], is_leaf=S.is_sv)
            upd = S.call(ctx, T.tree_add_element, batched, i, elem, R=R, name="tree_add_element")
        except Exception as e:  # noqa  (the helpers must accept every list of identically structured trees)
            R.structural(f"[{sname}] tree_transpose / tree_slice / tree_add_element accept a list of {B} identically structured trees", False,
                         {"structure": sname, "batch": B, "error": f"{type(e).__name__}: {str(e)[:200]}"})
            continue
        same_struct = jax.tree_util.tree_structure(jax.tree_util.tree_map(lambda x: 0, out, is_leaf=S.is_sv)) == \
            jax.tree_util.tree_structure(jax.tree_util.tree_map(lambda x: 0, trees[0], is_leaf=S.is_sv))
        same_types = all((a.dtype, tuple(a.shape)) == (b.dtype, tuple(b.shape)) for a, b in zip(S.leaves(out), S.leaves(trees[0])))
        R.structural(f"[{sname}] slice(transpose) preserves structure, shapes and dtypes", same_struct and same_types, {"batch": B})

        def replay_slice(model, trees=trees, i=i):
            ts = [jax.tree_util.tree_map(jnp.asarray, S.model_tree(model, t)) for t in trees]
            k = int(S.model_sv(model, i))
            got = T.tree_slice(T.tree_transpose(ts), k)
            from checks.wrap_common import diff_fields
            d = diff_fields(got, ts[k])
            return bool(d), {"structure": sname, "batch": B, "i": k, "differs": d}
        for k in range(-B, B):
            R.prove(f"[{sname}] i={k}: slice(transpose(ts), i) == ts[i]", A + [iz == k] if J.is_sym(iz) else A, S.tree_eq(out, trees[k % B]), replay=replay_slice)
        # add_element
        st2 = all((a.dtype, tuple(a.shape)) == (b.dtype, tuple(b.shape)) for a, b in zip(S.leaves(upd), S.leaves(batched)))
        R.structural(f"[{sname}] add_element preserves structure, shapes and dtypes", st2, {"batch": B})

        def replay_add(model, trees=trees, i=i, elem=elem):
            ts = [jax.tree_util.tree_map(jnp.asarray, S.model_tree(model, t)) for t in trees]
            e = jax.tree_util.tree_map(jnp.asarray, S.model_tree(model, elem))
            k = int(S.model_sv(model, i))
            got = T.tree_add_element(T.tree_transpose(ts), k, e)
            from checks.wrap_common import diff_fields
            bad = []
            for j in range(B):
                d = diff_fields(T.tree_slice(got, j), e if j == k % B else ts[j])
                if d:
                    bad.append({"index": j, "differs": d})
            return bool(bad), {"structure": sname, "batch": B, "i": k, "wrong": bad}
        for k in range(-B, B):
            Ak = A + ([iz == k] if J.is_sym(iz) else [])
            R.prove(f"[{sname}] i={k}: add_element(t, i, e)[i] == e", Ak, S.tree_eq(S.lane(upd, k % B), elem), replay=replay_add)
            for j in range(B):
                if j != k % B:
                    R.prove(f"[{sname}] i={k}: add_element(t, i, e)[{j}] == t[{j}]", Ak, S.tree_eq(S.lane(upd, j), trees[j]), replay=replay_add)
    R.sample({"batch": B, "structures": [n for n, _ in structures(Ctx(), "x", 1)]})


def run_equality(R, variant):
    """is_equal_pytree / assert_trees_are_different / assert_trees_are_equal on symbolic leaves (E2)"""
    import tree as tree_lib
    import jumanji.testing.pytrees as T
    ctx = Ctx()
    saved = T.np
    T.np = P.NpShim()
    try:
        def mk(tag, shapes, dts=(np.int32, np.int8, np.float32, np.bool_)):
            return {"a": P.fresh(ctx, tag + "a", shapes[0], dts[0]), "b": [P.fresh(ctx, tag + "b", shapes[1], dts[1]),
                                                                             NT(P.fresh(ctx, tag + "p", shapes[2], dts[2]), P.fresh(ctx, tag + "q", shapes[3], dts[3]))]}
        shapes1 = {"same": [(2,), (), (1, 2), (2,)], "scalar": [(), (), (), ()], "mismatch": [(2,), (), (1, 2), (2,)],
                   "mixed-dtypes": [(2,), (), (1, 2), (2,)], "mixed-dtypes-swapped": [(2,), (), (1, 2), (2,)]}[variant]
        shapes2 = list(shapes1)
        if variant == "mismatch":
            shapes2[2] = (2, 1)
        t1, t2 = mk("x", shapes1), mk("y", shapes2)
        if variant.startswith("mixed-dtypes"):
            # same structure and shapes, DIFFERENT leaf dtypes: numpy equality promotes (int 1 == float 1.0, int 1 != float 1.5,
            # True == 1); a helper that casts one side to the other's dtype loses exactly these distinctions and becomes asymmetric
            t2 = mk("y", shapes2, dts=(np.float32, np.int32, np.int32, np.int8))
            if variant.endswith("swapped"):
                t1, t2 = t2, t1
        R.bound(structure="dict/list/namedtuple nest", leaf_shapes=[shapes1, shapes2], leaves="symbolic int32/int8/float32/bool")
        l1, l2 = tree_lib.flatten(t1), tree_lib.flatten(t2)
        R.nvars += sum(a.size for a in l1 + l2)
        eqs = []
        shape_ok = True
        for a, b in zip(l1, l2):
            if a.shape != b.shape:
                shape_ok = False
                continue
            for x, y in zip(a.sv.obj().reshape(-1), b.sv.obj().reshape(-1)):
                e = P.num_eq(x, a.dtype, y, b.dtype)
                eqs.append(e if isinstance(e, z3.ExprRef) else z3.BoolVal(bool(e)))
        alleq = z3.And(eqs) if shape_ok else z3.BoolVal(False)   # numpy semantics: NaN != NaN, -0.0 == 0.0

        def conc(model, t):
            return tree_lib.map_structure(lambda a: S.model_sv(model, a.sv), t)

        def explore(fn, name, expect):
            eng = P.Engine([])
            res = eng.run(fn)
            R.encoded(name)
            R.encodings += len(res)
            for n, (pc, (kind, val)) in enumerate(res):
                want = expect(kind, val)      # z3 formula that must hold on this path

                def replay(model, kind=kind, val=val):
                    T.np = saved
                    try:
                        a, b = conc(model, t1), conc(model, t2)
                        try:
                            r = ("ret", fn_real(a, b))
                        except AssertionError as e:
                            r = ("exc", e)
                        truth = bool(all(np.array_equal(x, y) for x, y in zip(tree_lib.flatten(a), tree_lib.flatten(b))))
                        return (not real_ok(r, truth)), {"variant": variant, "function": name, "outcome": r[0], "leaves_equal": truth}
                    finally:
                        T.np = P.NpShim()
                R.prove(f"{name} [{variant}] path {n} ({kind}{'' if kind == 'exc' else '=' + str(val)}): outcome <=> all leaves equal", list(pc), want, replay=replay)
            return res
        # is_equal_pytree
        fn_real = lambda a, b: T.is_equal_pytree(a, b)  # noqa
        real_ok = lambda r, truth: r[0] == "ret" and r[1] is truth  # noqa
        explore(lambda: T.is_equal_pytree(t1, t2), "is_equal_pytree", lambda k, v: alleq if (k == "ret" and v is True) else z3.Not(alleq) if (k == "ret" and v is False) else z3.BoolVal(False))
        # symmetric
        res = P.Engine([]).run(lambda: (T.is_equal_pytree(t1, t2), T.is_equal_pytree(t2, t1)))
        for n, (pc, (kind, val)) in enumerate(res):
            R.prove(f"is_equal_pytree symmetric [{variant}] path {n}", list(pc), z3.BoolVal(kind == "ret" and val[0] == val[1]), replay=lambda m: (True, {"variant": variant, "note": "asymmetric"}))
        # reflexive (NaN leaves excluded: numpy equality is not reflexive on NaN; stated)
        nonan = [z3.Not(z3.fpIsNaN(x)) for a in l1 if a.dtype.kind == "f" for x in a.sv.obj().reshape(-1) if J.is_sym(x)]
        res = P.Engine(nonan).run(lambda: T.is_equal_pytree(t1, t1))
        for n, (pc, (kind, val)) in enumerate(res):
            R.prove(f"is_equal_pytree reflexive (NaN-free leaves) [{variant}] path {n}", nonan + list(pc), z3.BoolVal(kind == "ret" and val is True),
                    replay=lambda m: (True, {"variant": variant, "note": "not reflexive"}))
        # assert_trees_are_different raises <=> equal ; assert_trees_are_equal raises <=> different
        fn_real = lambda a, b: T.assert_trees_are_different(a, b)  # noqa
        real_ok = lambda r, truth: (r[0] == "exc") == truth  # noqa
        explore(lambda: T.assert_trees_are_different(t1, t2), "assert_trees_are_different",
                lambda k, v: alleq if (k == "exc" and isinstance(v, AssertionError)) else z3.Not(alleq) if k == "ret" else z3.BoolVal(False))
        fn_real = lambda a, b: T.assert_trees_are_equal(a, b)  # noqa
        real_ok = lambda r, truth: (r[0] == "ret") == truth  # noqa
        explore(lambda: T.assert_trees_are_equal(t1, t2), "assert_trees_are_equal",
                lambda k, v: z3.Not(alleq) if (k == "exc" and isinstance(v, AssertionError)) else alleq if k == "ret" else z3.BoolVal(False))
        # shim fidelity: differential on concrete trees (real numpy vs shim)
        rng = np.random.default_rng(R.seed)
        bad = 0
        for _ in range(40):
            a = {"a": rng.integers(0, 2, (2,)).astype(np.int32), "b": [np.int8(rng.integers(0, 2)), NT(rng.integers(0, 2, (1, 2)).astype(np.float32), rng.integers(0, 2, (2,)).astype(bool))]}
            b = {"a": rng.integers(0, 2, (2,)).astype(np.int32), "b": [np.int8(rng.integers(0, 2)), NT(rng.integers(0, 2, (1, 2)).astype(np.float32), rng.integers(0, 2, (2,)).astype(bool))]}
            T.np = P.NpShim()
            r1 = T.is_equal_pytree(a, b)
            T.np = saved
            r2 = T.is_equal_pytree(a, b)
            bad += int(r1 != r2)
            R.validated += 1
        T.np = P.NpShim()
        R.structural("shim fidelity: shimmed == real is_equal_pytree on 40 random concrete trees", bad == 0, {"mismatches": bad})
        if variant == "mismatch":
            # leaves of DIFFERENT shape are different whatever their values, also when the shapes would broadcast (ones(1) vs ones(4),
            # scalar vs vector, (1,3) vs (2,3), empty vs non-empty): the three helpers must agree on that.  Real numpy, concrete leaves.
            T.np = saved
            wrong = []
            for la, lb in ((np.ones(1), np.ones(4)), (np.float32(1.0), np.ones(3, np.float32)), (np.ones((1, 3)), np.ones((2, 3))), (np.zeros((0,)), np.zeros((2,))),
                           (np.ones((2, 1), np.int32), np.ones((1, 2), np.int32)),
                           # a leaf that is None in one tree and an array in the other (jax's flattening drops None leaves), and float
                           # leaves that differ by less than any tolerance-based comparison would notice
                           (None, np.ones(2, np.float32)), (None, np.float32(0.0)),
                           (np.float32(250.0), np.float32(250.001)), (np.ones(3, np.float32), np.ones(3, np.float32) + np.float32(3e-7)),
                           (np.float64(1.0), np.float64(1.0) + 1e-12)):
                # the differing leaf first ("x" < "y") and last ("y" < "z") in traversal order: a comparison that zips two leaf lists of
                # different length only loses a TRAILING leaf
                for a_, b_ in (({"x": la, "y": [np.int8(1)]}, {"x": lb, "y": [np.int8(1)]}), ({"x": lb, "y": [np.int8(1)]}, {"x": la, "y": [np.int8(1)]}),
                               ({"x": la, "y": [np.int8(1)], "z": la}, {"x": la, "y": [np.int8(1)], "z": lb}), ({"x": lb, "y": [np.int8(1)], "z": lb}, {"x": lb, "y": [np.int8(1)], "z": la})):
                    try:
                        eq = T.is_equal_pytree(a_, b_)
                    except Exception as e:  # noqa
                        eq = f"raised {type(e).__name__}"
                    try:
                        T.assert_trees_are_different(a_, b_)
                        dif = "returns"
                    except AssertionError:
                        dif = "AssertionError"
                    except Exception as e:  # noqa
                        dif = f"raised {type(e).__name__}"
                    try:
                        T.assert_trees_are_equal(a_, b_)
                        same = "returns"
                    except AssertionError:
                        same = "AssertionError"
                    except Exception as e:  # noqa
                        same = f"raised {type(e).__name__}"
                    if eq is not False or dif != "returns" or same != "AssertionError":
                        wrong.append({"leaves": [repr(a_.get("z", a_["x"]))[:40], repr(b_.get("z", b_["x"]))[:40]], "position": "last" if "z" in a_ else "first", "is_equal_pytree": str(eq), "assert_trees_are_different": dif, "assert_trees_are_equal": same})
                    R.validated += 3
            T.np = P.NpShim()
            R.structural("leaves of different (also broadcast-compatible) shapes, None vs array, floats one ulp / 1e-12 apart: is_equal_pytree False, assert_trees_are_different returns, assert_trees_are_equal raises", not wrong,
                         {"disagreements": wrong[:4]})
        R.sample({"variant": variant, "paths": "see obligations"})
    finally:
        T.np = saved


def jobs(tier, seed):
    js = [(f"tree_utils/B={B}", "checks.C19", "run_tree_utils", {"B": B}) for B in ([1, 2, 3] if tier == "quick" else [1, 2, 3, 4, 5])]
    js += [(f"equality/{v}", "checks.C19", "run_equality", {"variant": v}) for v in ("same", "scalar", "mismatch", "mixed-dtypes", "mixed-dtypes-swapped")]
    return js

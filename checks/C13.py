"""C13  AutoResetWrapper resets exactly when an episode ends, with a fresh instance.

On the SAME symbolic (state, action): W.step, E.step and E.reset(split(E.step(...).state.key)[0]) are encoded
(jax.random stubs memoised per key, so all three see the same draws) and compared field by field in the two
cofactors 'step is LAST' / 'step is not LAST'."""
import jax
import jax.numpy as jnp
import numpy as np
import z3

from checks import common as C
from checks import wrap_common as WC
from engine import jx2smt as J
from engine import sym as S
from engine.jx2smt import SV, Ctx
from envs import configs

LEVEL_TEXT = ("Equivalence checking of jaxprs: AutoResetWrapper.step vs (env.step ; env.reset(split(key)[0])) on one shared symbolic state/action, "
              "for every state (arbitrary, dtype ranges only) and action; both next_obs_in_extras settings.")
TECHNIQUE = "jaxpr->SMT symbolic execution (z3) of wrapper and wrapped env on shared symbolic inputs, per-field equivalence in both cofactors of the LAST predicate; replay on real code"
ASSUMPTIONS = C.STUB_ASSUMPTIONS + ["keys produced by jax.random.split are pairwise distinct and distinct from their parent (idealised collision-free PRNG)"]


def run(R, name, flag):
    from jumanji.wrappers import AutoResetWrapper
    WC.set_mode(name.partition("+")[0])
    if name.endswith("+MultiToSingle"):
        # the wrapped "environment" is itself a wrapper (the usual single-policy setup for multi-agent environments): AutoResetWrapper must
        # drive THAT object (aggregated scalar reward/discount), not the innermost environment
        from jumanji.wrappers import MultiToSingleWrapper
        env = MultiToSingleWrapper(configs.make(name.partition("+")[0]))
    else:
        env = configs.make(name)
    W = AutoResetWrapper(env, next_obs_in_extras=flag)
    ctx = Ctx(max_unroll=24)
    St = WC.fresh_state(ctx, getattr(env, "unwrapped", env) if name.endswith("+MultiToSingle") else env, "S", name.partition("+")[0])
    act, apre = S.sym_action(ctx, env)
    R.nvars += S.nvars(St) + S.nvars(act)
    R.bound(config=name, next_obs_in_extras=flag, state="arbitrary (dtype ranges" + (", declared integer ranges" if name.partition("@")[0] in WC.RANGES else "") + ")",
            action="any in-spec", steps=1, loop_unroll=24)
    ws, wt = S.call(ctx, W.step, St, act, R=R, name="AutoResetWrapper.step")
    es, et = S.call(ctx, env.step, St, act, R=R, name=type(env).__name__ + ".step")

    def reset_from(s):
        k, _ = jax.random.split(s.key)
        return env.reset(k)
    rs, rt = S.call(ctx, reset_from, es, R=R, name="reset(split(S'.key)[0])")
    A = apre + ctx.assumptions
    C.unwinding(R, ctx, A)
    last = S.st_is(et, 2)
    lastz = last if isinstance(last, z3.ExprRef) else z3.BoolVal(bool(last))
    okL, _ = R.reach("LAST branch", A, lastz)
    okN, _ = R.reach("non-LAST branch", A, z3.Not(lastz))

    f_w, f_e = jax.jit(W.step), jax.jit(env.step)
    f_r = jax.jit(reset_from)

    def replay(model):
        s_np, a_np = S.model_tree(model, St), S.model_sv(model, act)
        s_j = jax.tree_util.tree_map(jnp.asarray, s_np)
        w_s, w_t = f_w(s_j, jnp.asarray(a_np))
        e_s, e_t = f_e(s_j, jnp.asarray(a_np))
        bad = []
        if int(e_t.step_type) == 2:
            r_s, r_t = f_r(e_s)
            bad += ["state" + p for p in WC.diff_fields(w_s, r_s)] + ["obs" + p for p in WC.diff_fields(w_t.observation, r_t.observation)]
        else:
            bad += ["state" + p for p in WC.diff_fields(w_s, e_s)] + ["obs" + p for p in WC.diff_fields(w_t.observation, e_t.observation)]
        for f in ("step_type", "reward", "discount"):
            if not np.array_equal(np.asarray(getattr(w_t, f)), np.asarray(getattr(e_t, f)), equal_nan=True):
                bad.append(f)
        ex_w = dict(w_t.extras)
        nxt = ex_w.pop("next_obs", None)
        if flag:
            if nxt is None or WC.diff_fields(nxt, e_t.observation):
                bad.append("extras.next_obs")
        if WC.diff_fields(ex_w, dict(e_t.extras)):
            bad.append("extras")
        return bool(bad), {"config": name, "flag": flag, "differs": bad, "state": str(s_np)[:600], "action": np.asarray(a_np).tolist()}

    AL, AN = A + [lastz], A + [z3.Not(lastz)]
    # always: step_type / reward / discount / extras of the terminal (or ordinary) step
    for f in ("step_type", "reward", "discount"):
        R.prove(f"timestep.{f} == env.step's", A, S.sv_eq(getattr(wt, f), getattr(et, f)), replay=replay)
    wex = dict(wt.extras)
    nxt = wex.pop("next_obs", None)
    R.prove("extras (other than next_obs) == env.step's", A, S.tree_eq(wex, dict(et.extras)), replay=replay)
    if flag:
        R.structural("extras['next_obs'] present", nxt is not None, {"config": name})
        if nxt is not None:
            for v_ in (True, False):
                WC.eq_obligations(R, f"extras['next_obs'] == env.step's observation [LAST={v_}]: ", AL if v_ else AN,
                                  S.tree_eq_items(nxt, et.observation), replay, cof=(lastz, v_))
    else:
        R.structural("extras has no next_obs when the flag is off", nxt is None, {"config": name})
    WC.eq_obligations(R, "not LAST => state == env.step's: ", AN, S.tree_eq_items(ws, es), replay, cof=(lastz, False))
    WC.eq_obligations(R, "not LAST => observation == env.step's: ", AN, S.tree_eq_items(wt.observation, et.observation), replay, cof=(lastz, False))
    WC.eq_obligations(R, "LAST => state == reset(split(S'.key)[0]).state: ", AL, S.tree_eq_items(ws, rs), replay, cof=(lastz, True))
    WC.eq_obligations(R, "LAST => observation == that reset's observation: ", AL, S.tree_eq_items(wt.observation, rt.observation), replay, cof=(lastz, True))

    # fresh key at every automatic reset: k1 = split(S'.key)[0]; the next automatic reset (after any step from the reset
    # state) uses k2 = split(S''.key)[0].  Under the collision-free idealisation k2 != k1 unless the code re-uses a key.
    if not flag:
        act2, apre2 = S.sym_action(ctx, env, tag="a2")
        es2, et2 = S.call(ctx, env.step, rs, act2, R=R, name=type(env).__name__ + ".step (from the auto-reset state)")
        k1 = S.call(ctx, lambda s: jax.random.split(s.key)[0], es)
        k2 = S.call(ctx, lambda s: jax.random.split(s.key)[0], es2)
        same = S.sv_eq(k1, k2)
        distinct = key_distinctness(ctx, St)
        R.prove("two successive automatic resets use different keys", A + apre2 + ctx.assumptions + distinct, S.neg(same),
                replay=lambda m: (True, {"config": name, "note": "auto-reset key re-used: k2 is the same term as k1"}))
        # ... and the chain continues: the key an automatic reset leaves in the state must DERIVE from the key it was given.  If
        # reset stores a constant (or otherwise key-independent) key, the first automatic reset is fresh but every later one
        # re-derives the same key and replays the same instance.  Decided on the encoding (the stored key is a concrete constant
        # although the reset key is symbolic) and confirmed on the real code with two different real keys.
        stored = rs.key if hasattr(rs, "key") else None
        if stored is not None:
            # only RANDOM generators can replay: if no other leaf of the reset state depends on the reset key (Toy/CSV/Dummy
            # generators), a constant stored key is harmless and nothing is claimed
            random_gen = any(not l.conc for p_, l in jax.tree_util.tree_leaves_with_path(rs, is_leaf=lambda x: isinstance(x, SV)) if "key" not in jax.tree_util.keystr(p_))
            const_key = bool(stored.conc) and random_gen

            def rp_chain():
                s_a, _ = jax.jit(env.reset)(jax.random.PRNGKey(1))
                s_b, _ = jax.jit(env.reset)(jax.random.PRNGKey(2))
                return bool(np.array_equal(np.asarray(s_a.key), np.asarray(s_b.key))), {"config": name, "reset(PRNGKey(1)).key": np.asarray(s_a.key).tolist(), "reset(PRNGKey(2)).key": np.asarray(s_b.key).tolist()}
            confirmed, det = rp_chain() if const_key else (False, {})
            R.validated += 1 if const_key else 0
            R.structural("the key stored by reset derives from the reset key (else every automatic reset after the first replays one instance)",
                         not (const_key and confirmed), det)
        # W.reset adds next_obs only with the flag; plain reset passthrough
    key = ctx.fresh_arr("rk", (2,), np.uint32)
    w0s, w0t = S.call(ctx, W.reset, key, R=R, name="AutoResetWrapper.reset")
    e0s, e0t = S.call(ctx, env.reset, key, R=R, name=type(env).__name__ + ".reset")
    A0 = list(ctx.assumptions)

    def replay0(model):
        k = jnp.asarray(S.model_sv(model, key))
        a, b = W.reset(k), env.reset(k)
        bad = WC.diff_fields(a[0], b[0]) + WC.diff_fields(a[1].observation, b[1].observation)
        if flag and WC.diff_fields(a[1].extras.get("next_obs"), b[1].observation):
            bad.append("next_obs")
        return bool(bad), {"config": name, "differs": bad}
    R.prove("reset: state and observation == env.reset's", A0, S.conj([S.tree_eq(w0s, e0s), S.tree_eq(w0t.observation, e0t.observation)]), replay=replay0)
    if flag:
        R.prove("reset: extras['next_obs'] == reset observation", A0, S.tree_eq(w0t.extras["next_obs"], e0t.observation), replay=replay0)
    R.sample({"config": name, "flag": flag, "obligations": len(R.obl)})


def key_distinctness(ctx, St):
    """idealised PRNG: all keys created by split/fold_in in this query are pairwise distinct and differ from the input key"""
    keys = []
    for mk, v in ctx.memo.items():
        if isinstance(mk, tuple) and mk and mk[0] in ("random_split", "random_fold_in"):
            arr = np.asarray(v, dtype=object).reshape(-1, 2)
            for row in arr:
                if J.is_sym(row[0]) and J.is_sym(row[1]):
                    keys.append(z3.Concat(row[0], row[1]))
    inp = [x for x in St.key.obj().reshape(-1)] if hasattr(St, "key") else []
    if len(inp) == 2 and all(J.is_sym(x) for x in inp):
        keys.append(z3.Concat(inp[0], inp[1]))
    return [z3.Distinct(keys)] if len(keys) > 1 else []


def jobs(tier, seed):
    js = []
    names = WC.WRAP_ENVS + (["Cleaner@3x5x2", "Maze@3x5", "Snake@4x3", "Tetris@6x6", "GraphColoring@5"] if tier == "thorough" else [])
    for n in names + ["Connector+MultiToSingle"]:
        for flag in (False, True):
            js.append((f"{n}/next_obs={flag}", "checks.C13", "run", {"name": n, "flag": flag}))
    return js

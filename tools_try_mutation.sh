#!/bin/bash
# tools_try_mutation.sh <name> <patch.diff> <Cxx> [<Cxx> ...]   [-- extra vf args]
# Evaluates a seeded change WITHOUT touching /repo: a scratch worktree of /repo's HEAD gets the patch, the listed checks run
# against it (VERIF_REPO), evidence/replays go to /tmp/mut_eval/<name>/ (VERIF_OUT); the worktree is removed afterwards.
set -u
NAME="$1"; PATCH="$(readlink -f "$2")"; shift 2
HERE="$(cd "$(dirname "$0")" && pwd)"
WT="/tmp/mut_eval/wt_$NAME"; OUT="/tmp/mut_eval/$NAME"
mkdir -p "$OUT"; rm -rf "$WT"
git -C /repo worktree add -q --detach "$WT" HEAD || exit 2
if ! git -C "$WT" apply "$PATCH"; then echo "PATCH DOES NOT APPLY"; git -C /repo worktree remove --force "$WT"; exit 2; fi
EXTRA=()
PROPS=()
while [ $# -gt 0 ]; do if [ "$1" = "--" ]; then shift; EXTRA=("$@"); break; fi; PROPS+=("$1"); shift; done
for P in "${PROPS[@]}"; do
  VERIF_REPO="$WT" VERIF_OUT="$OUT" "$HERE/vf" "$P" quick "${EXTRA[@]}" > "$OUT/$P.log" 2>&1
  RC=$?
  V=$(grep -c "^VIOLATION" "$OUT/$P.log")
  echo "$NAME $P exit=$RC violations=$V $(grep -m1 '^\[' "$OUT/$P.log" | cut -c1-120)"
  grep "^  violation" "$OUT/$P.log" | head -3 | cut -c1-260
  grep "^HARNESS-ERROR\|^INCONCLUSIVE" "$OUT/$P.log" | head -3 | cut -c1-260
done
git -C /repo worktree remove --force "$WT"

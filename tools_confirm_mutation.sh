#!/bin/bash
# tools_confirm_mutation.sh <mutation-dir> [pytest-paths...]
# Confirms a seeded change independently of whoever wrote it, in a scratch worktree of /repo's HEAD (removed afterwards):
#   1. the demonstration passes on the unmodified tree,
#   2. the patch applies, the demonstration FAILS with it,
#   3. the existing test suite (default: all of jumanji/, xdist) has no new failures with it (baseline always-fail tests ignored).
# Prints one line per step and "CONFIRMED" / "REJECTED <why>"; writes <mutation-dir>/confirm.log
set -u
D="$(readlink -f "$1")"; shift
PATHS=("$@"); [ ${#PATHS[@]} -eq 0 ] && PATHS=(jumanji)
NAME="$(basename "$(dirname "$D")")_$(basename "$D")"
WT="/tmp/mut_confirm/wt_$NAME"
LOG="$D/confirm.log"; : > "$LOG"
mkdir -p /tmp/mut_confirm; rm -rf "$WT"
git -C /repo worktree add -q --detach "$WT" HEAD || { echo "REJECTED worktree"; exit 2; }
cleanup() { git -C /repo worktree remove --force "$WT" >/dev/null 2>&1; }
trap cleanup EXIT
DEMO="$D/demo.py"; RUNNER=("/venv/bin/python")
if [ ! -f "$DEMO" ]; then DEMO="$D/demo_test.py"; RUNNER=("/venv/bin/python" "-m" "pytest" "-q" "-p" "no:cacheprovider" "-x"); fi
mkdir -p "$WT/_mut/k"; cp "$DEMO" "$WT/_mut/k/"
run_demo() { (cd "$WT" && PYTHONPATH="$WT" JAX_PLATFORMS=cpu timeout 600 "${RUNNER[@]}" "_mut/k/$(basename "$DEMO")" >> "$LOG" 2>&1); }
echo "== demo on clean tree" >> "$LOG"; run_demo; RC0=$?
echo "demo clean rc=$RC0"
git -C "$WT" apply "$D/patch.diff" || { echo "REJECTED patch does not apply"; exit 2; }
echo "== demo on mutated tree" >> "$LOG"; run_demo; RC1=$?
echo "demo mutated rc=$RC1"
echo "== test suite on mutated tree" >> "$LOG"
(cd "$WT" && JAX_PLATFORMS=cpu timeout 3000 /venv/bin/python -m pytest -q -p no:cacheprovider -n 8 --timeout=900 -o addopts="" "${PATHS[@]}" 2>&1 | tail -40 >> "$LOG")
FAILED=$(grep -E "^(FAILED|ERROR) " "$LOG" | grep -v -E "sokoban/(env_test|generator_test)|registration_test.py::test_registration__make" | wc -l)
SUMMARY=$(grep -E "passed|failed" "$LOG" | tail -1)
echo "tests: $SUMMARY ; new failures: $FAILED"
if [ "$RC0" -eq 0 ] && [ "$RC1" -ne 0 ] && [ "$FAILED" -eq 0 ] && echo "$SUMMARY" | grep -q passed; then echo CONFIRMED; exit 0; fi
echo "REJECTED clean=$RC0 mutated=$RC1 newfail=$FAILED"; exit 1

"""Regenerates MANIFEST.json from the table below (keeps it valid at all times)."""
import json
import os

HERE = os.path.dirname(os.path.abspath(__file__))
NOTE = ("Trusted: z3; JAX tracing (make_jaxpr is what jit compiles); XLA:CPU semantics of the ~65 primitives as modelled in engine/jx2smt.py "
        "(validated by shadow execution against the real primitives); jax.random replaced by contract stubs; hand-written oracles in envs/*. "
        "Bounds (instance sizes, steps, loop unrollings, configurations) are listed per job in the evidence file; nothing outside them is claimed.")
CHECKS = {}


def add(pid, text, technique, ref, engine="jx2smt"):
    CHECKS[pid] = dict(text=text, technique=technique, ref=ref, engine=engine)


add("C03", "Bounded symbolic model checking: one symbolic step of the real env.step jaxpr from an ARBITRARY state (so steps after LAST are included), "
    "the same obligations from the per-environment harness domain (smaller formula, decides where the arbitrary-state query is unknown), "
    "and env.reset with a symbolic key, for all 23 envs at small sizes; unsat = protocol holds for every state/action/draw at those sizes.",
    "jaxpr->SMT symbolic execution of env.step/env.reset, z3 (QF_BV+FP), counterexample replay on the real jitted code", "DESIGN.md 3/C03")

T1 = "jaxpr->SMT symbolic execution of the real env.step/env.reset (z3, QF_BV+FP), inductive one-step from every valid state (bounded unrolling for BMC envs), "
add("C01", "IR output types vs spec tree (all inputs) + bounded symbolic model checking of value bounds on reset and on one inductive step incl. terminal steps; invariant and harness domain re-established "
    "(domain-closure obligations; two-step unrolling when a successor can leave the domain).",
    T1 + "spec-bound oracle; counterexample replay on the real jitted code", "DESIGN.md 3/C01")
add("C04", "Bounded symbolic model checking: mask returned with S' (and with reset) equals an independent rule for EVERY action; environment's reaction agrees.",
    T1 + "independent legality oracle for all actions; replay on real code", "DESIGN.md 3/C04")
add("C05", "Bounded symbolic model checking with a symbolic illegal action: documented effect only.", T1 + "documented-effect oracle; replay", "DESIGN.md 3/C05")
add("C06", "Inductive constraint preservation under rule-legal and under emitted-mask play (2 steps); k-step BMC for BinPack/JobShop/MMST/MultiCVRP.",
    T1 + "constraint oracle from raw arrays; replay", "DESIGN.md 3/C06")
add("C07", "Inductive physical-consistency invariant (reset + every non-terminal step under any action) and frame+delta conservation laws.",
    T1 + "invariant split per conjunct; replay", "DESIGN.md 3/C07")
add("C08", "Telescoping one-step reward identity against the documented objective recomputed from raw arrays; dense/sparse variants.",
    T1 + "objective oracle; replay", "DESIGN.md 3/C08")
add("C09", "One symbolic step vs an independent symbolic reference model of the rules: successor fields, reward, termination.",
    T1 + "equivalence against a plain-Python symbolic reference model; replay", "DESIGN.md 3/C09")
add("C11", "Per enumerated time_limit: never later / never earlier obligations on one inductive step; ranking function for structural horizons.",
    T1 + "per-T env rebuild; replay", "DESIGN.md 3/C11")
add("C12", "Observation returned with S' equals an independent observer of S' for every state/action at the listed sizes.",
    T1 + "observer oracle; replay", "DESIGN.md 3/C12")

T2 = "jaxpr->SMT symbolic execution (z3) of two encodings of the real code on shared symbolic inputs (equivalence queries, cofactored on control predicates), "
add("C02", "IR-level facts for all inputs (no effects, same jaxpr+constants across instances/histories, step/reset arguments and mutable constructor arguments untouched) and SMT equivalence of jit/vmap(2,3)/scan(2,3) with per-call execution.",
    "jaxpr alpha-equivalence + " + T2 + "replay on real code", "DESIGN.md 3/C02")
add("C13", "AutoResetWrapper.step vs (env.step ; env.reset(split(key)[0])) on one shared symbolic state/action for 22 envs, both flags; fresh-key obligation under an idealised PRNG.",
    T2 + "per-field in both cofactors of LAST; replay on real code", "DESIGN.md 3/C13")
add("C14", "VmapWrapper lanes vs unwrapped env; VmapAutoResetWrapper vs VmapWrapper(AutoResetWrapper) for all 2^B termination patterns, batch 1..3; render = lane 0.",
    T2 + "per-leaf per-pattern queries; replay on real code", "DESIGN.md 3/C14")
add("C15", "Whole episodes through the real gym/dm_env adapter methods (conversion layer stubbed) vs native API with the documented key schedule on symbolic key/actions; MultiToSingle one symbolic step; converted spaces compared parameter-wise.",
    T2 + "replay with the unstubbed adapter", "DESIGN.md 3/C15")
add("C16", "Path-complete symbolic execution of the real spec methods on symbolic bounds/values (engine E2) against the stated characterisation; nested structures, synthetic per-element-bound conversions (gym/dm_env membership agreement at/inside/outside every bound) and shipped specs enumerated concretely.",
    "path-forking symbolic execution of jumanji.specs on z3-backed arrays + per-path z3 queries; concrete replay of every model", "DESIGN.md 3/C16", engine="pysym")
add("C18", "z3 string/regex theory over the regex read from the repo for parse/format laws (bounded lengths); exhaustive differential of the glue model (all probe strings up to 4 characters + well-formed ids with one foreign character glued on); solver-generated id pairs drive the real register/make; 25 shipped ids against their documented configuration.",
    "z3 strings/regex over ENV_NAME_RE (sre_parse -> z3 Re) + solver-generated id classes for the real register/make", "DESIGN.md 3/C18", engine="pysym")
add("C19", "tree_utils traced to jaxprs with symbolic leaves and symbolic index (batch 1..5); pytrees equality helpers executed path by path on symbolic leaves of equal, scalar, mismatching-shape and mixed dtypes.",
    "jaxpr->SMT symbolic execution (z3) with symbolic index + path-forking symbolic execution of testing.pytrees; replay on real code", "DESIGN.md 3/C19")

add("C17", "Rubik moves pushed through the real move functions on symbolic stickers: permutation extraction (all colourings at once) vs an independent geometric model, group identities on the permutations, SMT queries for flat/unflat encodings, is_solved and sliding-tile moves; env-level solved/termination obligations on one symbolic RubiksCube step.",
    "jaxpr->SMT symbolic execution (z3) with permutation extraction + SMT queries; replay on real code", "DESIGN.md 3/C17")

add("C10", "Real generators executed symbolically with contract stubs for jax.random: Inv(reset) well-formedness for every harness env, maze connectivity by an in-formula reachability fixed point with unwinding assertions, scramble/random-walk generators by loop-body induction, Connector random-walk and BinPack RandomGenerator solvability by loop-invariant summaries (base + step + use on the real code), LBF food placement at the density limit, mines/blocks post-conditions, existential key-dependence; shipped data enumerated.",
    "jaxpr->SMT symbolic execution (z3) of reset/generators with random stubs, unwinding assertions, loop-body induction; replay by real-key search", "DESIGN.md 3/C10")

ALL = [f"C{i:02d}" for i in range(1, 20)]
PENDING = "check under construction in this round; not claimed yet"


def main():
    checks = []
    for pid in ALL:
        if pid not in CHECKS:
            continue
        c = CHECKS[pid]
        checks.append({
            "property_id": pid,
            "quick_cmd": f"./vf {pid} quick",
            "thorough_cmd": f"./vf {pid} thorough",
            "evidence_file": f"/verif/evidence/{pid}.json",
            "replay_cmd_template": f"./vf {pid} quick --replay {{path}}",
            "engine": c["engine"],
            "level_claimed": {"category": "model_checking", "text": c["text"], "design_ref": c["ref"]},
            "level_note": NOTE,
            "technique": c["technique"],
        })
    m = {
        "version": 1,
        "setup_cmd": "./setup.sh",
        "hooks": {"guard": "JUMANJI_VERIF", "enable": "none needed: tracing, stubbing and shimming happen inside the harness process",
                  "baseline_off_cmd": "cd /repo && /venv/bin/python -m pytest -ra -q -p no:cacheprovider --timeout=900 --continue-on-collection-errors",
                  "source_commits": [], "add_only": True},
        "engines": [
            {"name": "jx2smt", "path": "engine/jx2smt.py", "serves_properties": [p for p in ALL if p in CHECKS and CHECKS[p]["engine"] == "jx2smt"],
             "kind_free_text": "symbolic interpreter of jaxprs (the compiler IR of every environment) into z3 bit-vector/FP terms"},
            {"name": "pysym", "path": "engine/pysym.py", "serves_properties": [p for p in ALL if p in CHECKS and CHECKS[p]["engine"] == "pysym"],
             "kind_free_text": "path-forking symbolic executor for Python-level library code on symbolic arrays (z3)"},
        ],
        "checks": checks,
        "not_applicable": [{"property_id": p, "reason": PENDING} for p in ALL if p not in CHECKS],
        "notes": "See DESIGN.md (section 8 = as built). Exit 1 + VIOLATION line = a counterexample replayed on the real code; exit 3 = broken harness (crash, vacuous assumptions, non-reproducing counterexample), never a VIOLATION; solver unknowns / job time-outs are printed as INCONCLUSIVE, counted in evidence (obligations_unknown) and never as discharged. seeded/ holds 81 confirmed seeded changes and which checks report them.",
    }
    with open(os.path.join(HERE, "MANIFEST.json"), "w") as f:
        json.dump(m, f, indent=1)


if __name__ == "__main__":
    main()

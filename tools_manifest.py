"""Regenerates MANIFEST.json from the table below (keeps it valid at all times)."""
import json
import os

HERE = os.path.dirname(os.path.abspath(__file__))
NOTE = ("Trusted: z3; JAX tracing (make_jaxpr is what jit compiles); XLA:CPU semantics of the ~65 primitives as modelled in engine/jx2smt.py "
        "(validated by shadow execution against the real primitives); jax.random replaced by contract stubs; hand-written oracles in envs/*. "
        "Bounds (instance sizes, steps, loop unrollings, configurations) are listed per job in the evidence file; nothing outside them is claimed.")
CHECKS = {}


def add(pid, text, technique, ref, engine="jx2smt"):
    CHECKS[pid] = dict(text=text, technique=technique, ref=ref, engine=engine)


add("C03", "Bounded symbolic model checking: one symbolic step of the real env.step jaxpr from an ARBITRARY state (so steps after LAST are included) "
    "and env.reset with a symbolic key, for all 23 envs at small sizes; unsat = protocol holds for every state/action/draw at those sizes.",
    "jaxpr->SMT symbolic execution of env.step/env.reset, z3 (QF_BV+FP), counterexample replay on the real jitted code", "DESIGN.md 3/C03")

ALL = [f"C{i:02d}" for i in range(1, 20)]
PENDING = "check under construction in this round; not claimed yet"


def main():
    checks = []
    for pid in ALL:
        if pid not in CHECKS:
            continue
        c = CHECKS[pid]
        checks.append({
            "property_id": pid,
            "quick_cmd": f"./vf {pid} quick",
            "thorough_cmd": f"./vf {pid} thorough",
            "evidence_file": f"/verif/evidence/{pid}.json",
            "replay_cmd_template": f"./vf {pid} quick --replay {{path}}",
            "engine": c["engine"],
            "level_claimed": {"category": "model_checking", "text": c["text"], "design_ref": c["ref"]},
            "level_note": NOTE,
            "technique": c["technique"],
        })
    m = {
        "version": 1,
        "setup_cmd": "./setup.sh",
        "hooks": {"guard": "JUMANJI_VERIF", "enable": "none needed: tracing, stubbing and shimming happen inside the harness process",
                  "baseline_off_cmd": "cd /repo && /venv/bin/python -m pytest -ra -q -p no:cacheprovider --timeout=900 --continue-on-collection-errors",
                  "source_commits": [], "add_only": True},
        "engines": [
            {"name": "jx2smt", "path": "engine/jx2smt.py", "serves_properties": [p for p in ALL if p in CHECKS and CHECKS[p]["engine"] == "jx2smt"],
             "kind_free_text": "symbolic interpreter of jaxprs (the compiler IR of every environment) into z3 bit-vector/FP terms"},
            {"name": "pysym", "path": "engine/pysym.py", "serves_properties": [p for p in ALL if p in CHECKS and CHECKS[p]["engine"] == "pysym"],
             "kind_free_text": "path-forking symbolic executor for Python-level library code on symbolic arrays (z3)"},
        ],
        "checks": checks,
        "not_applicable": [{"property_id": p, "reason": PENDING} for p in ALL if p not in CHECKS],
        "notes": "See DESIGN.md. Exit 3 = inconclusive/harness error (never reported as success or as VIOLATION).",
    }
    with open(os.path.join(HERE, "MANIFEST.json"), "w") as f:
        json.dump(m, f, indent=1)


if __name__ == "__main__":
    main()

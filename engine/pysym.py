"""Engine E2: path-forking symbolic execution of Python-level library code (jumanji.specs, jumanji.testing.pytrees).

The REAL method bodies run unmodified on `SymArr` objects (arrays of z3 terms).  `bool()` of a symbolic size-1 array
forks: the engine explores both feasible branches (DFS over decision prefixes).  The `jnp` / `np` names of the module under
analysis are replaced, in the harness process only, by thin shims that let SymArr through and delegate to the real library
for concrete arguments."""
import numpy as np
import z3

from engine import jx2smt as J
from engine.jx2smt import SV, is_sym, to_z3


class Infeasible(Exception):
    pass


class Engine:
    def __init__(self, pre=(), max_paths=256):
        self.pre = list(pre)
        self.max_paths = max_paths
        self.prefix, self.pos, self.pc, self.work = [], 0, [], []
        self.solver_calls = 0

    def decide(self, cond):
        if self.pos < len(self.prefix):
            d = self.prefix[self.pos]
        else:
            s = z3.Solver()
            s.add(self.pre + self.pc)
            self.solver_calls += 2
            can_t = s.check(cond) == z3.sat
            can_f = s.check(z3.Not(cond)) == z3.sat
            if can_t and can_f:
                self.work.append(self.prefix[:self.pos] + [False])
                d = True
            elif can_t:
                d = True
            elif can_f:
                d = False
            else:
                raise Infeasible()
            self.prefix = self.prefix[:self.pos] + [d]
        self.pos += 1
        self.pc.append(cond if d else z3.Not(cond))
        return d

    def run(self, fn):
        """explore all paths; -> [(path_condition, ('ret', value) | ('exc', exception))]"""
        global ENG
        ENG = self
        self.work = [[]]
        results = []
        while self.work:
            if len(results) >= self.max_paths:
                raise RuntimeError("path bound exceeded")
            self.prefix = self.work.pop()
            self.pos, self.pc = 0, []
            try:
                out = ("ret", fn())
            except Infeasible:
                continue
            except Exception as e:  # noqa  (only Exception: never swallow BaseException)
                out = ("exc", e)
            results.append((list(self.pc), out))
        return results


ENG = None


def _scalar_sv(x):
    return SV(np.array(x, dtype=object).reshape(()) if is_sym(x) else np.asarray(bool(x)), np.bool_)


class SymArr:
    """array of python scalars / z3 terms with a numpy dtype; operator surface used by specs.py / pytrees.py"""
    __array_priority__ = 1000

    def __init__(self, a, dtype=None):
        self.sv = a if isinstance(a, SV) else SV(a, dtype)

    shape = property(lambda s: tuple(s.sv.shape))
    dtype = property(lambda s: s.sv.dtype)
    ndim = property(lambda s: len(s.sv.shape))
    size = property(lambda s: int(np.prod(s.sv.shape)) if s.sv.shape else 1)

    def _coerce(self, other):
        if isinstance(other, SymArr):
            return other.sv
        a = np.asarray(other)
        return SV(a.astype(self.dtype) if a.dtype != self.dtype else a, self.dtype)

    def _bin(self, other, op, cmp=False):
        o = self._coerce(other)
        A, B = np.broadcast_arrays(self.sv.obj(), o.obj())
        f = (lambda x, y: J.s_cmp(op, x, y, self.dtype)) if cmp else (lambda x, y: J.s_binop(op, x, y, self.dtype))
        return SymArr(SV(J.vec2(f, A, B), np.bool_ if cmp else self.dtype))

    __lt__ = lambda s, o: s._bin(o, "lt", True)
    __gt__ = lambda s, o: s._bin(o, "gt", True)
    __le__ = lambda s, o: s._bin(o, "le", True)
    __ge__ = lambda s, o: s._bin(o, "ge", True)
    __eq__ = lambda s, o: s._bin(o, "eq", True)
    __ne__ = lambda s, o: s._bin(o, "ne", True)
    __and__ = lambda s, o: s._bin(o, "and")
    __or__ = lambda s, o: s._bin(o, "or")
    __rand__ = __and__
    __ror__ = __or__
    __hash__ = None

    def __invert__(self):
        assert self.dtype.kind == "b"
        return SymArr(SV(J.vec1(J.b_not, self.sv.obj()), np.bool_))

    def any(self):
        acc = False
        for x in self.sv.obj().reshape(-1):
            acc = J.b_or(acc, x)
        return SymArr(_scalar_sv(acc))

    def all(self):
        acc = True
        for x in self.sv.obj().reshape(-1):
            acc = J.b_and(acc, x)
        return SymArr(_scalar_sv(acc))

    def astype(self, dt):
        dt = np.dtype(dt)
        return SymArr(SV(J.vec1(lambda x: J.s_convert(x, self.dtype, dt), self.sv.obj()), dt))

    def reshape(self, *shape):
        return SymArr(SV(self.sv.obj().reshape(*shape), self.dtype))

    def __getitem__(self, idx):
        r = self.sv.obj()[idx]
        if not isinstance(r, np.ndarray):
            o = np.empty((), dtype=object)
            o[()] = r
            r = o
        return SymArr(SV(r, self.dtype))

    def __bool__(self):
        if self.size != 1:
            raise ValueError("The truth value of an array with more than one element is ambiguous. Use a.any() or a.all()")
        x = self.sv.obj().reshape(-1)[0]
        if not is_sym(x):
            return bool(x)
        c = x if self.dtype.kind == "b" else to_z3(J.s_cmp("ne", x, 0, self.dtype), np.bool_)
        return ENG.decide(c)

    def __iter__(self):
        if self.ndim == 0:
            raise TypeError("iteration over a 0-d array")
        return (self[i] for i in range(self.shape[0]))

    def __len__(self):
        return self.shape[0]

    def __repr__(self):
        return f"SymArr{self.shape}{self.dtype}"

    def flat_terms(self):
        return [to_z3(x, self.dtype) for x in self.sv.obj().reshape(-1)]


def fresh(ctx, name, shape, dtype, lo=None, hi=None):
    return SymArr(ctx.fresh_arr(name, shape, dtype, lo, hi))


class JnpShim:
    """replacement for the `jnp` name inside jumanji.specs"""

    def __init__(self, real):
        self._real = real

    def __getattr__(self, n):
        return getattr(self._real, n)

    def asarray(self, x, dtype=None):
        if isinstance(x, SymArr):
            if dtype is not None and np.dtype(dtype) != x.dtype:
                return x.astype(dtype)
            return x
        return self._real.asarray(x, dtype)

    def array(self, x, dtype=None, **k):
        if isinstance(x, SymArr):
            return self.asarray(x, dtype)
        return self._real.array(x, dtype=dtype, **k)

    def broadcast_to(self, x, shape):
        if isinstance(x, SymArr):
            return SymArr(SV(np.broadcast_to(x.sv.obj(), tuple(shape)).copy(), x.dtype))
        return self._real.broadcast_to(x, shape)

    def any(self, x):
        return x.any() if isinstance(x, SymArr) else self._real.any(x)

    def all(self, x):
        return x.all() if isinstance(x, SymArr) else self._real.all(x)

    def full(self, shape, fill, dtype=None):
        if isinstance(fill, SymArr):
            r = SymArr(SV(np.broadcast_to(fill.sv.obj(), tuple(shape)).copy(), fill.dtype))
            return r.astype(dtype) if dtype is not None and np.dtype(dtype) != r.dtype else r
        return self._real.full(shape, fill, dtype)

    def array_equal(self, a, b):
        if isinstance(a, SymArr) or isinstance(b, SymArr):
            if tuple(np.shape(a) if not isinstance(a, SymArr) else a.shape) != tuple(np.shape(b) if not isinstance(b, SymArr) else b.shape):
                return False
            a = a if isinstance(a, SymArr) else SymArr(SV(np.asarray(a), np.asarray(a).dtype))
            return (a == b).all()
        return self._real.array_equal(a, b)

    def logical_and(self, a, b):
        if isinstance(a, SymArr) or isinstance(b, SymArr):
            a = a if isinstance(a, SymArr) else SymArr(SV(np.asarray(a), np.bool_))
            return a & b
        return self._real.logical_and(a, b)

    def logical_or(self, a, b):
        if isinstance(a, SymArr) or isinstance(b, SymArr):
            a = a if isinstance(a, SymArr) else SymArr(SV(np.asarray(a), np.bool_))
            return a | b
        return self._real.logical_or(a, b)

    def logical_not(self, a):
        return ~a if isinstance(a, SymArr) else self._real.logical_not(a)

    def isnan(self, a):
        if isinstance(a, SymArr):
            if a.dtype.kind != "f":
                return SymArr(SV(np.zeros(a.shape, bool), np.bool_))
            return SymArr(SV(J.vec1(lambda x: z3.fpIsNaN(x) if is_sym(x) else bool(np.isnan(x)), a.sv.obj()), np.bool_))
        return self._real.isnan(a)


    def isfinite(self, a):
        if isinstance(a, SymArr):
            if a.dtype.kind != "f":
                return SymArr(SV(np.ones(a.shape, bool), np.bool_))
            return SymArr(SV(J.vec1(lambda x: z3.Not(z3.Or(z3.fpIsNaN(x), z3.fpIsInf(x))) if is_sym(x) else bool(np.isfinite(x)), a.sv.obj()), np.bool_))
        return self._real.isfinite(a)

    def isinf(self, a):
        if isinstance(a, SymArr):
            if a.dtype.kind != "f":
                return SymArr(SV(np.zeros(a.shape, bool), np.bool_))
            return SymArr(SV(J.vec1(lambda x: z3.fpIsInf(x) if is_sym(x) else bool(np.isinf(x)), a.sv.obj()), np.bool_))
        return self._real.isinf(a)

    def zeros_like(self, a, dtype=None):
        if isinstance(a, SymArr):
            dt = np.dtype(dtype) if dtype is not None else a.dtype
            return SymArr(SV(np.zeros(a.shape, dt), dt))
        return self._real.zeros_like(a, dtype=dtype)

    def ones_like(self, a, dtype=None):
        if isinstance(a, SymArr):
            dt = np.dtype(dtype) if dtype is not None else a.dtype
            return SymArr(SV(np.ones(a.shape, dt), dt))
        return self._real.ones_like(a, dtype=dtype)

    def where(self, c, a, b):
        if isinstance(c, SymArr) or isinstance(a, SymArr) or isinstance(b, SymArr):
            def arr(x, dt=None):
                if isinstance(x, SymArr):
                    return x
                v = np.asarray(x) if dt is None else np.asarray(x, dt)
                return SymArr(SV(v, v.dtype))
            c = arr(c, np.bool_)
            dt = a.dtype if isinstance(a, SymArr) else (b.dtype if isinstance(b, SymArr) else np.result_type(np.asarray(a), np.asarray(b)))
            a, b = arr(a, dt), arr(b, dt)
            if a.dtype != dt:
                a = a.astype(dt)
            if b.dtype != dt:
                b = b.astype(dt)
            co, ao, bo = np.broadcast_arrays(c.sv.obj(), a.sv.obj(), b.sv.obj())
            out = np.empty(co.shape, dtype=object)
            for i in np.ndindex(*co.shape):
                out[i] = J.ite(co[i], ao[i], bo[i], dt) if is_sym(co[i]) else (ao[i] if co[i] else bo[i])
            return SymArr(SV(out, dt))
        return self._real.where(c, a, b)


F64 = z3.Float64()


def _to_f64(x, dt):
    """exact embedding of a bool / int8..int32 / uint8 / float32 scalar (python value or z3 term) into z3 Float64"""
    dt = np.dtype(dt)
    if not is_sym(x):
        return z3.FPVal(float(x), F64)
    if dt.kind == "b":
        return z3.If(x, z3.FPVal(1.0, F64), z3.FPVal(0.0, F64))
    if dt.kind == "i":
        return z3.fpSignedToFP(z3.RNE(), x, F64)
    if dt.kind == "u":
        return z3.fpUnsignedToFP(z3.RNE(), x, F64)
    return z3.fpFPToFP(z3.RNE(), x, F64)


def num_eq(x, dx, y, dy):
    """numpy's `==` on two scalars of possibly different dtypes: both are promoted (here: embedded exactly into float64, which holds
    every bool/int<=32/float32 value), so int 1 == float 1.0, int 1 != float 1.5, True == 1, NaN != NaN"""
    dx, dy = np.dtype(dx), np.dtype(dy)
    if dx == dy:
        return J.s_cmp("eq", x, y, dx)
    if not is_sym(x) and not is_sym(y):
        with np.errstate(all="ignore"):
            return bool(np.array(x, dtype=dx) == np.array(y, dtype=dy))
    return z3.fpEQ(_to_f64(x, dx), _to_f64(y, dy))


class NpShim:
    """replacement for the `np` name inside jumanji.testing.pytrees"""

    def __getattr__(self, n):
        return getattr(np, n)

    @staticmethod
    def asarray(x, *a, **k):
        if isinstance(x, SymArr):
            dt = k.get("dtype", a[0] if a else None)
            return x.astype(dt) if dt is not None and np.dtype(dt) != x.dtype else x
        return np.asarray(x, *a, **k)

    @staticmethod
    def array_equal(a, b):
        if isinstance(a, SymArr) or isinstance(b, SymArr):
            sa = a.shape if isinstance(a, SymArr) else np.shape(a)
            sb = b.shape if isinstance(b, SymArr) else np.shape(b)
            if tuple(sa) != tuple(sb):
                return False
            a = a if isinstance(a, SymArr) else SymArr(SV(np.asarray(a), np.asarray(a).dtype))
            b = b if isinstance(b, SymArr) else SymArr(SV(np.asarray(b), np.asarray(b).dtype))
            if a.dtype != b.dtype:
                # numpy compares after promotion, it does NOT cast one side to the other's dtype
                acc = True
                for x, y in zip(a.sv.obj().reshape(-1), b.sv.obj().reshape(-1)):
                    acc = J.b_and(acc, num_eq(x, a.dtype, y, b.dtype))
                return SymArr(_scalar_sv(acc)) if is_sym(acc) else np.bool_(bool(acc))
            return (a == b).all()
        return np.array_equal(a, b)

    @staticmethod
    def all(xs):
        acc = True
        for x in (xs if isinstance(xs, (list, tuple)) else [xs]):
            if isinstance(x, SymArr):
                x = x.sv.obj().reshape(-1)[0]
            elif isinstance(x, np.ndarray):
                x = bool(x.all())
            acc = J.b_and(acc, x)
        return SymArr(_scalar_sv(acc)) if is_sym(acc) else np.bool_(bool(acc))

"""Scalar expression wrapper used to write oracles (Inv, legal, reference models, observers) as plain
Python over symbolic scalars.  A `V` holds a python scalar or a z3 term plus a numpy dtype; operators build
terms through the same scalar rules as the interpreter (wrap-around ints, IEEE float32, value-set folding).

    g = vs(state.grid)            # numpy object array of V, same shape
    x = g[1, 2] + 1               # V
    c = (x == 3) & ~(g[0, 0] < 2) # V (bool)
    y = where(c, x, 0)
    z = pick(g, r, c)             # g[r, c] for symbolic r, c (ITE chain, in-range assumed -> else `default`)
"""
import numpy as np
import z3

from engine import jx2smt as J
from engine.jx2smt import SV, is_sym, to_z3

BOOL = np.dtype(np.bool_)
I32 = np.dtype(np.int32)
F32 = np.dtype(np.float32)


def _lift(o, dt):
    if isinstance(o, V):
        return o
    dt = np.dtype(dt)
    if dt.kind == "b":
        return V(bool(o), dt)
    if dt.kind in "iu":
        return V(int(o), dt)
    return V(np.float32(o), dt)


class V:
    __slots__ = ("x", "dt")

    def __init__(self, x, dt):
        self.x = x
        self.dt = np.dtype(dt)

    # ----- arithmetic
    def _bin(self, o, op, swap=False):
        o = _lift(o, self.dt)
        dt = self.dt
        if o.dt != dt:
            # promote like numpy for the combos oracles use: bool->int, int->float, narrow int -> wide int
            dt = np.promote_types(self.dt, o.dt)
            if dt == np.float64:
                dt = F32
            a, b = self.astype(dt), o.astype(dt)
        else:
            a, b = self, o
        if swap:
            a, b = b, a
        return V(J.s_binop(op, a.x, b.x, dt), dt)

    __add__ = lambda s, o: s._bin(o, "add")
    __radd__ = lambda s, o: s._bin(o, "add", True)
    __sub__ = lambda s, o: s._bin(o, "sub")
    __rsub__ = lambda s, o: s._bin(o, "sub", True)
    __mul__ = lambda s, o: s._bin(o, "mul")
    __rmul__ = lambda s, o: s._bin(o, "mul", True)
    __floordiv__ = lambda s, o: s._bin(o, "div")      # XLA integer division (truncating) -- only use on non-negative operands
    __mod__ = lambda s, o: s._bin(o, "rem")
    __truediv__ = lambda s, o: s.astype(F32)._bin(_lift(o, F32).astype(F32), "div")

    def __neg__(self):
        return _lift(0, self.dt)._bin(self, "sub")

    # ----- comparisons
    def _cmp(self, o, op):
        o = _lift(o, self.dt)
        dt = self.dt
        a, b = self, o
        if o.dt != dt:
            dt = np.promote_types(self.dt, o.dt)
            if dt == np.float64:
                dt = F32
            a, b = self.astype(dt), o.astype(dt)
        return V(J.s_cmp(op, a.x, b.x, dt), BOOL)

    __lt__ = lambda s, o: s._cmp(o, "lt")
    __le__ = lambda s, o: s._cmp(o, "le")
    __gt__ = lambda s, o: s._cmp(o, "gt")
    __ge__ = lambda s, o: s._cmp(o, "ge")
    __eq__ = lambda s, o: s._cmp(o, "eq")
    __ne__ = lambda s, o: s._cmp(o, "ne")
    __hash__ = None

    # ----- boolean
    def __and__(self, o):
        o = _lift(o, BOOL)
        assert self.dt == BOOL and o.dt == BOOL, (self.dt, o.dt)
        return V(J.b_and(self.x, o.x), BOOL)

    __rand__ = __and__

    def __or__(self, o):
        o = _lift(o, BOOL)
        assert self.dt == BOOL and o.dt == BOOL
        return V(J.b_or(self.x, o.x), BOOL)

    __ror__ = __or__

    def __xor__(self, o):
        o = _lift(o, BOOL)
        return V(J.b_xor(self.x, o.x), BOOL)

    def __invert__(self):
        assert self.dt == BOOL
        return V(J.b_not(self.x), BOOL)

    def implies(self, o):
        return (~self) | o

    def iff(self, o):
        return ~(self ^ _lift(o, BOOL))

    def astype(self, dt):
        dt = np.dtype(dt)
        if dt == self.dt:
            return self
        return V(J.s_convert(self.x, self.dt, dt), dt)

    @property
    def conc(self):
        return not is_sym(self.x)

    def __bool__(self):
        if is_sym(self.x):
            raise TypeError("symbolic V used as a python bool; use & | ~ where()")
        return bool(self.x)

    def __int__(self):
        if is_sym(self.x):
            raise TypeError("symbolic V used as int")
        return int(self.x)

    def __index__(self):
        return self.__int__()

    def __repr__(self):
        return f"V({self.x},{self.dt})"

    def z(self):
        """the z3 term (constants lifted)"""
        return to_z3(self.x, self.dt)

    def term(self):
        """python bool/number or z3 term (what core.Recorder.prove accepts for bool)"""
        return self.x


def const(x, dt=I32):
    return _lift(x, dt)


TRUE = V(True, BOOL)
FALSE = V(False, BOOL)


def vs(sv):
    """SV -> numpy object array of V (same shape); 0-d SV -> a single V"""
    if not isinstance(sv, SV):
        a = np.asarray(sv)
        sv = SV(a, a.dtype)
    o = sv.obj()
    out = np.empty(o.shape, dtype=object)
    of, sf = out.reshape(-1), o.reshape(-1)
    for i in range(sf.size):
        of[i] = V(sf[i], sv.dtype)
    if out.ndim == 0:
        return out[()]
    return out


def to_sv(arr, dt=None):
    """numpy object array of V (or a V) -> SV"""
    if isinstance(arr, V):
        return SV(np.array(arr.x, dtype=object).reshape(()) if is_sym(arr.x) else np.asarray(arr.x, dtype=arr.dt), arr.dt)
    arr = np.asarray(arr, dtype=object)
    flat = arr.reshape(-1)
    dt = np.dtype(dt or flat[0].dt)
    o = np.empty(arr.shape, dtype=object)
    of = o.reshape(-1)
    for i, v in enumerate(flat):
        of[i] = _lift(v, dt).astype(dt).x
    return J.simplify_sv(SV(o, dt))


def where(c, a, b, dt=None):
    c = _lift(c, BOOL)
    if not isinstance(a, V) and not isinstance(b, V):
        dt = dt or (BOOL if isinstance(a, bool) else I32)
    dt = np.dtype(dt or (a.dt if isinstance(a, V) else b.dt))
    a, b = _lift(a, dt).astype(dt), _lift(b, dt).astype(dt)
    return V(J.ite(c.x, a.x, b.x, dt), dt)


def all_(xs):
    acc = TRUE
    for x in xs:
        acc = acc & x
    return acc


def any_(xs):
    acc = FALSE
    for x in xs:
        acc = acc | x
    return acc


def sum_(xs, dt=I32):
    acc = _lift(0, dt)
    for x in xs:
        acc = acc + (x.astype(dt) if isinstance(x, V) else x)
    return acc


def count(xs, dt=I32):
    return sum_([x.astype(dt) for x in xs], dt)


def vmax(a, b):
    return where(a >= b, a, b)


def vmin(a, b):
    return where(a <= b, a, b)


def pick(arr, *idx, default=None):
    """arr[idx...] with symbolic indices: ITE chain over every position; out-of-range -> `default`
    (which must be given unless the caller has constrained the indices)."""
    arr = np.asarray(arr, dtype=object)
    assert arr.ndim == len(idx), (arr.shape, idx)
    idx = [_lift(i, I32) for i in idx]
    if all(i.conc for i in idx):
        pos = tuple(int(i) for i in idx)
        if all(0 <= p < n for p, n in zip(pos, arr.shape)):
            return arr[pos]
        assert default is not None, "concrete out-of-range pick without default"
        return default if isinstance(default, V) else _lift(default, arr.reshape(-1)[0].dt)
    first = arr.reshape(-1)[0]
    res = default if default is None or isinstance(default, V) else _lift(default, first.dt)
    for pos in np.ndindex(*arr.shape):
        c = all_([i == p for i, p in zip(idx, pos)])
        if c.conc and not bool(c):
            continue
        res = arr[pos] if res is None else where(c, arr[pos], res, first.dt)
    return res


def put(arr, idx, value, cond=TRUE):
    """functional arr[idx] = value if cond (symbolic indices); returns a new object array; OOB = no-op"""
    arr = np.asarray(arr, dtype=object)
    idx = [_lift(i, I32) for i in (idx if isinstance(idx, (tuple, list)) else (idx,))]
    out = arr.copy()
    dt = arr.reshape(-1)[0].dt
    for pos in np.ndindex(*arr.shape):
        c = all_([i == p for i, p in zip(idx, pos)]) & cond
        if c.conc and not bool(c):
            continue
        out[pos] = where(c, value, arr[pos], dt)
    return out


def in_range(x, lo, hi):
    """lo <= x < hi"""
    return (x >= lo) & (x < hi)


def eq_arr(a, b):
    """all elements equal (object arrays of V / V / SV mix)"""
    a = vs(a) if isinstance(a, SV) else a
    b = vs(b) if isinstance(b, SV) else b
    if isinstance(a, V) or isinstance(b, V):
        return _lift(a, b.dt if isinstance(b, V) else I32) == b
    a, b = np.asarray(a, dtype=object), np.asarray(b, dtype=object)
    assert a.shape == b.shape, (a.shape, b.shape)
    return all_([x == y for x, y in zip(a.reshape(-1), b.reshape(-1))])


def biteq(a, b):
    """SMT (bit) equality V==V: for floats NaN==NaN, used for 'field unchanged' claims"""
    from engine import sym as S
    return V(S.el_eq(a.x, b.x, a.dt), BOOL)


def same(a, b):
    """field-unchanged: bitwise equality of two SV / object arrays"""
    a = vs(a) if isinstance(a, SV) else a
    b = vs(b) if isinstance(b, SV) else b
    if isinstance(a, V):
        return biteq(a, b)
    a, b = np.asarray(a, dtype=object), np.asarray(b, dtype=object)
    assert a.shape == b.shape, (a.shape, b.shape)
    return all_([biteq(x, y) for x, y in zip(a.reshape(-1), b.reshape(-1))])

"""Convenience layer over jx2smt for harnesses: symbolic pytrees, equality, model -> numpy."""
import struct
import time

import jax
import jax.numpy as jnp
import numpy as np
import z3

from engine import jx2smt as J
from engine.jx2smt import SV, Ctx, is_sym, to_z3

is_sv = lambda x: isinstance(x, SV)  # noqa


def leaves(tree):
    return jax.tree_util.tree_leaves(tree, is_leaf=is_sv)


def tmap(f, *trees):
    return jax.tree_util.tree_map(f, *trees, is_leaf=is_sv)


def shapes_of(fn, *args):
    return jax.eval_shape(fn, *args)


def fresh_like(ctx, tag, shape_tree, ranges=None):
    """pytree of fresh symbolic SVs shaped like `shape_tree` (ShapeDtypeStructs / arrays).
    ranges: {path-substring: (lo, hi)} integer ranges recorded as value sets and assumed."""
    ranges = ranges or {}

    def mk(path, x):
        p = jax.tree_util.keystr(path)
        shape, dt = tuple(x.shape), x.dtype
        if jax.dtypes.issubdtype(dt, jax.dtypes.prng_key):
            shape, dt = shape + (2,), np.uint32
        lo = hi = None
        for k, (l, h) in ranges.items():
            if k in p and np.dtype(dt).kind in "iu":
                lo, hi = l, h
        return ctx.fresh_arr(tag + p, shape, dt, lo, hi)
    return jax.tree_util.tree_map_with_path(mk, shape_tree)


def conc_tree(tree):
    """wrap a concrete pytree of arrays as SVs"""
    return jax.tree_util.tree_map(lambda x: SV(np.asarray(x), np.asarray(x).dtype), tree)


def nvars(tree):
    n = 0
    for l in leaves(tree):
        if not l.conc:
            n += sum(1 for x in l.a.reshape(-1) if is_sym(x))
    return n


def el_eq(x, y, dt):
    """SMT equality of two scalars (python or z3). NaN == NaN, +0 != -0 (bit equality for floats)."""
    if not is_sym(x) and not is_sym(y):
        if isinstance(x, (float, np.floating)) or isinstance(y, (float, np.floating)):
            return np.float32(x).tobytes() == np.float32(y).tobytes()
        return x == y
    if is_sym(x) and is_sym(y) and x.eq(y):
        return True
    return to_z3(x, dt) == to_z3(y, dt)


def sv_eq(a, b):
    if tuple(a.shape) != tuple(b.shape) or a.dtype != b.dtype:
        return False
    if a.conc and b.conc:
        return bool(np.array_equal(a.a, b.a, equal_nan=True))
    cs = []
    for x, y in zip(a.obj().reshape(-1), b.obj().reshape(-1)):
        e = el_eq(x, y, a.dtype)
        if e is False:
            return False
        if e is not True:
            cs.append(e)
    if not cs:
        return True
    return z3.And(cs) if len(cs) > 1 else cs[0]


def conj(cs):
    out = []
    for c in cs:
        if c is False:
            return False
        if c is True:
            continue
        if isinstance(c, (bool, np.bool_)):
            if not c:
                return False
            continue
        out.append(c)
    if not out:
        return True
    return z3.And(out) if len(out) > 1 else out[0]


def disj(cs):
    out = []
    for c in cs:
        if c is True:
            return True
        if c is False:
            continue
        if isinstance(c, (bool, np.bool_)):
            if c:
                return True
            continue
        out.append(c)
    if not out:
        return False
    return z3.Or(out) if len(out) > 1 else out[0]


def neg(c):
    if isinstance(c, z3.ExprRef):
        return z3.Not(c)
    return not c


def implies(a, b):
    return disj([neg(a), b])


def tree_eq(t1, t2):
    l1, l2 = leaves(t1), leaves(t2)
    if len(l1) != len(l2):
        return False
    return conj([sv_eq(a, b) for a, b in zip(l1, l2)])


def tree_eq_items(t1, t2):
    """list of (path, eq-term) per leaf, for per-field reporting"""
    p1 = jax.tree_util.tree_leaves_with_path(t1, is_leaf=is_sv)
    p2 = jax.tree_util.tree_leaves_with_path(t2, is_leaf=is_sv)
    assert len(p1) == len(p2), (len(p1), len(p2))
    return [(jax.tree_util.keystr(pa), sv_eq(a, b)) for (pa, a), (_, b) in zip(p1, p2)]


def lane(tree, i):
    return tmap(lambda x: SV(x.a[i] if x.conc else x.obj()[i], x.dtype), tree)


def stack(trees):
    def st(*xs):
        if all(x.conc for x in xs):
            return SV(np.stack([x.a for x in xs]), xs[0].dtype)
        return SV(np.stack([x.obj() for x in xs]), xs[0].dtype)
    return tmap(st, *trees)


def scalar(sv):
    """python/z3 scalar of a 0-d (or size-1) SV"""
    return sv.obj().reshape(-1)[0]


def zs(sv):
    """flat list of z3 terms of an SV"""
    return [to_z3(x, sv.dtype) for x in sv.obj().reshape(-1)]


def val(model, x, dt):
    dt = np.dtype(dt)
    if not is_sym(x):
        return x
    v = model.eval(x, model_completion=True)
    if dt.kind == "b":
        return z3.is_true(v)
    if dt.kind == "i":
        return v.as_signed_long()
    if dt.kind == "u":
        return v.as_long()
    bv = z3.simplify(z3.fpToIEEEBV(v))
    if not z3.is_bv_value(bv):  # NaN has many encodings; pick canonical
        return np.float32(np.nan)
    return np.float32(struct.unpack("<f", struct.pack("<I", bv.as_long()))[0])


def model_sv(model, sv):
    if sv.conc:
        return np.asarray(sv.a)
    out = np.empty(sv.shape, dtype=sv.dtype)
    of = out.reshape(-1)
    for i, x in enumerate(sv.a.reshape(-1)):
        of[i] = val(model, x, sv.dtype)
    return out


def model_tree(model, tree, key_fields=True):
    """concrete numpy pytree under a z3 model"""
    return tmap(lambda s: model_sv(model, s), tree)


def to_jax(tree_np, like=None):
    """numpy pytree -> jnp arrays (PRNG key leaves stay raw uint32[2])"""
    return jax.tree_util.tree_map(lambda x: jnp.asarray(x), tree_np)


def sym_action(ctx, env, tag="a", spec=None):
    """fresh symbolic action inside the action spec; returns (SV, [assumptions])"""
    spec = spec or env.action_spec
    lo = np.broadcast_to(np.asarray(getattr(spec, "minimum", 0)), spec.shape)
    hi = np.broadcast_to(np.asarray(getattr(spec, "maximum", 0)), spec.shape)
    a = ctx.fresh_arr(tag, spec.shape, spec.dtype)
    pre = []
    for idx in np.ndindex(*spec.shape):
        l, h = int(lo[idx]), int(hi[idx])
        x = a.a[idx]
        pre += [x >= l, x <= h]
        J.vs_set(x, list(range(l, h + 1)))
    return a, pre


def call(ctx, fn, *args, R=None, name=None):
    t0 = time.time()
    e0 = ctx.stats["eqns"]
    out, _ = J.sym_call(fn, args, ctx)
    if R is not None:
        R.encoded(name or getattr(fn, "__qualname__", str(fn)), ctx=ctx, closed=ctx.last_closed, seconds=time.time() - t0)
    return out


def st_is(ts, v):
    x = scalar(ts.step_type)
    if not is_sym(x):
        return int(x) == v
    return x == v


def fp_in(x, lo, hi, tiny=None):
    """lo <= x <= hi for a float32 scalar (python or z3).  tiny (harness DOMAINS only, e.g. 2**-24): additionally x is +0.0 or
    |x| >= tiny.  XLA:CPU flushes subnormal results to zero while the IEEE encoding keeps them, so a model built from subnormal
    inputs (a 1e-38 budget minus a 1e-38 weight) does not replay; jax.random.uniform only produces multiples of 2**-23, so the
    restricted domain still contains every value a shipped generator can emit.  Stated as a bound of the claim."""
    if not is_sym(x):
        ok = bool(np.float32(lo) <= np.float32(x) <= np.float32(hi))
        if tiny is not None:
            ok = ok and (np.float32(x) == 0 and not np.signbit(np.float32(x)) or abs(np.float32(x)) >= np.float32(tiny))
        return ok
    # comparisons go through the engine's scalar rule, which folds them when the term carries a value set (e.g. a discount that is
    # convert(bool): {0.0, 1.0}) instead of leaving an FP circuit over a large boolean cone to the solver
    c = conj([J.s_cmp("ge", x, np.float32(lo), np.float32), J.s_cmp("le", x, np.float32(hi), np.float32)])
    if not isinstance(c, z3.ExprRef):
        c = z3.BoolVal(bool(c))
    if tiny is not None:
        pz = z3.And(z3.fpIsZero(x), z3.Not(z3.fpIsNegative(x)))
        c = z3.And(c, z3.Or(pz, z3.fpGEQ(z3.fpAbs(x), z3.FPVal(float(tiny), J.F32))))
    return c


def num_in(x, lo, hi, dt):
    dt = np.dtype(dt)
    if dt.kind == "f":
        return fp_in(x, lo, hi)
    if dt.kind == "b":
        if not is_sym(x):
            return lo <= int(x) <= hi
        return conj([implies(x, 1 <= hi and 1 >= lo), implies(neg(x), lo <= 0 <= hi)])
    return conj([J.s_cmp("ge", x, int(lo), dt), J.s_cmp("le", x, int(hi), dt)])


# --------------------------------------------------------------- end-to-end differential validation (DESIGN 1.6/2)
def _pairs(sym_tree, conc_tree_):
    pairs = []
    for sv, c in zip(leaves(sym_tree), jax.tree_util.tree_leaves(conc_tree_)):
        if sv.conc:
            continue
        c = np.asarray(c)
        if jax.dtypes.issubdtype(c.dtype, jax.dtypes.prng_key):
            c = np.asarray(jax.random.key_data(c))
        for x, v in zip(sv.a.reshape(-1), c.reshape(-1)):
            if is_sym(x):
                k = sv.dtype.kind
                pairs.append((x, to_z3(bool(v) if k == "b" else int(v) if k in "iu" else np.float32(v), sv.dtype)))
    return pairs


def eval_under(out_tree, pairs):
    """evaluate symbolic outputs under a concrete assignment of the inputs; elements that still
    depend on other variables (random stubs) come back as None"""
    subst = None
    if pairs:
        # z3.substitute re-validates every (from, to) pair in Python on each call: O(#pairs) per output ELEMENT (Sudoku: 1620
        # elements x 900 pairs = 66 s).  Same C call, argument arrays built once.
        n_p = len(pairs)
        zc = pairs[0][0].ctx
        F, T = (z3.Ast * n_p)(), (z3.Ast * n_p)()
        for j, (a, b) in enumerate(pairs):
            assert a.sort().eq(b.sort()), (a, b)
            F[j], T[j] = a.as_ast(), b.as_ast()

        def subst(x):
            return z3.z3._to_expr_ref(z3.Z3_substitute(zc.ref(), x.as_ast(), n_p, F, T), zc)

    def ev(sv):
        if sv.conc:
            return np.asarray(sv.a), np.ones(sv.shape, bool)
        out = np.zeros(sv.shape, dtype=sv.dtype)
        known = np.ones(sv.shape, bool)
        of, kf = out.reshape(-1), known.reshape(-1)
        for i, x in enumerate(sv.a.reshape(-1)):
            if not is_sym(x):
                of[i] = x
                continue
            v = z3.simplify(subst(x)) if pairs else z3.simplify(x)
            k = sv.dtype.kind
            if k == "b" and (z3.is_true(v) or z3.is_false(v)):
                of[i] = z3.is_true(v)
            elif k in "iu" and z3.is_bv_value(v):
                of[i] = v.as_signed_long() if k == "i" else v.as_long()
            elif k == "f" and z3.is_fp_value(v):
                if v.isNaN():
                    of[i] = np.nan
                else:
                    bv = z3.simplify(z3.fpToIEEEBV(v))
                    of[i] = struct.unpack("<f", struct.pack("<I", bv.as_long()))[0]
            else:
                kf[i] = False
        return out, known
    return [ev(sv) for sv in leaves(out_tree)]


def differential(R, name, in_sym, out_sym, real_out, in_conc, ulps=0):
    """compare the encoding under a concrete input with the real function's output; mismatch = harness error.
    ulps > 0 (harness attribute DIFF_ULPS): float leaves may differ by that many float32 ulps -- XLA:CPU fuses
    x*x+y*y into an FMA inside the jitted step while the encoding evaluates the jaxpr primitive by primitive
    (measured on TSP: 1 ulp on ~4% of the rewards)"""
    pairs = _pairs(in_sym, in_conc)
    res = eval_under(out_sym, pairs)
    real = [np.asarray(jax.random.key_data(x)) if jax.dtypes.issubdtype(getattr(x, "dtype", np.dtype("i4")), jax.dtypes.prng_key) else np.asarray(x)
            for x in jax.tree_util.tree_leaves(real_out)]
    assert len(res) == len(real), (len(res), len(real))
    n_cmp = 0
    for i, ((v, known), r) in enumerate(zip(res, real)):
        r = np.asarray(r).reshape(v.shape)
        a, b = v[known], r[known]
        n_cmp += int(known.sum())
        if a.dtype.kind == "f" and ulps:
            a32, b32 = a.astype(np.float32), b.astype(np.float32)
            with np.errstate(all="ignore"):
                tol = ulps * np.spacing(np.maximum(np.abs(a32), np.abs(b32)).astype(np.float32))
                same = bool(np.all((np.abs(a32 - b32) <= tol) | ((a32 == b32)) | (np.isnan(a32) & np.isnan(b32))))
        elif a.dtype.kind == "f":
            same = np.array_equal(a.astype(np.float32), b.astype(np.float32), equal_nan=True)
        else:
            same = np.array_equal(a, b.astype(a.dtype))
        if not same:
            R.harness_errors.append(f"{R.job}: encoding of {name} disagrees with the real function on a concrete input, output leaf {i}: "
                                    f"encoded={a.tolist()[:12]} real={b.tolist()[:12]}")
            return False
    R.validated += 1
    return True


def cofactor(term, atom, value):
    """term[atom := value], simplified (DESIGN 1.5: equivalence queries are solved per cofactor of the control predicate;
    structurally identical sub-terms then cancel before the solver sees them)"""
    if not isinstance(term, z3.ExprRef) or not isinstance(atom, z3.ExprRef):
        return term
    subs = [(atom, z3.BoolVal(bool(value)))]
    if z3.is_eq(atom):  # the same comparison may have been built with its operands swapped
        l, r = atom.children()
        subs.append((r == l, z3.BoolVal(bool(value))))
    t = z3.simplify(z3.substitute(term, *subs))
    if z3.is_true(t):
        return True
    if z3.is_false(t):
        return False
    return t

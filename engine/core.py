"""Common harness machinery: obligation recorder, solver driver, replay/known-finding triage,
job pool, evidence writer.  See DESIGN.md 1.5.

Exit codes of a check: 0 = no obligation violated on everything the solver decided (undecided obligations are
printed as INCONCLUSIVE and counted in evidence, never as discharged), 1 = a replayed violation that is
not listed, 3 = harness error (crash, vacuity, non-reproducing counterexample: never VIOLATION)."""
import fnmatch
import hashlib
import json
import multiprocessing as mp
import os
import sys
import time
import traceback

import numpy as np
import z3

_HERE = os.path.dirname(os.path.dirname(os.path.abspath(__file__)))
# VERIF_OUT: where evidence/ and replays/ are written (default: /verif itself; seeded-change experiments point it elsewhere so
# that the committed evidence always comes from runs against /repo)
VERIF = os.environ.get("VERIF_OUT", _HERE)
KNOWN_FILE = os.path.join(_HERE, "known_findings.json")


def load_known():
    try:
        with open(KNOWN_FILE) as f:
            return json.load(f)["findings"]
    except FileNotFoundError:
        return []


def known_entry(prop, key):
    """the 'known' (not 'fixed') entry whose pattern matches key, if any"""
    for e in load_known():
        if e.get("status") == "known" and e["property"] == prop and fnmatch.fnmatch(key, e["key"]):
            return e
    return None


def _jsonable(x):
    if isinstance(x, dict):
        return {str(k): _jsonable(v) for k, v in x.items()}
    if isinstance(x, (list, tuple)):
        return [_jsonable(v) for v in x]
    if isinstance(x, np.ndarray):
        return x.tolist()
    if isinstance(x, (np.integer,)):
        return int(x)
    if isinstance(x, (np.floating,)):
        return float(x)
    if isinstance(x, (np.bool_,)):
        return bool(x)
    if isinstance(x, (str, int, float, bool)) or x is None:
        return x
    return repr(x)


def zbool(x):
    if isinstance(x, z3.ExprRef):
        return x
    return z3.BoolVal(bool(x))


class Recorder:
    """Collects everything one job (one env x config harness) did."""

    def __init__(self, prop, job, tier, seed, qtimeout_s, job_budget_s=None):
        self.prop, self.job, self.tier, self.seed = prop, job, tier, seed
        self.qtimeout_s = qtimeout_s
        # wall-clock budget of the whole job: once 90 % of it is used, remaining queries are answered `unknown` at once (recorded as
        # inconclusive) so that the job still RETURNS what it decided instead of being killed with everything lost
        self.deadline = (time.time() + 0.9 * job_budget_s) if job_budget_s else None
        self.obl = []          # {name, result, solver_s}
        self.funcs = {}        # encoded function -> {eqns, sym_eqns, hash}
        self.violations = []   # {key, detail, replay}
        self.known = []        # {key, what}
        self.inconclusive = []
        self.harness_errors = []
        self.samples = []
        self.notes = []
        self.assumptions = set()
        self.validated = 0     # replays / shadow / differential runs against the real code
        self.nvars = 0         # symbolic scalars quantified over
        self.encodings = 0
        self.t_encode = 0.0
        self.t_solve = 0.0
        self.folded = 0
        self.bounds = {}
        self.reach_ok = 0
        self.n_queries = 0
        self.n_unsat_fast = 0
        self.cross = {"agree": 0, "disagree": 0, "no_opinion": 0}

    # ---- bookkeeping
    def encoded(self, name, ctx=None, closed=None, seconds=0.0):
        d = self.funcs.setdefault(name, {"encodings": 0})
        d["encodings"] += 1
        if ctx is not None:
            d["eqns"] = ctx.stats["eqns"]
            d["sym_eqns"] = ctx.stats["sym_eqns"]
            if ctx.stats["havoc"]:
                d["havoc"] = sorted(set(ctx.stats["havoc"]))
        if closed is not None:
            d["jaxpr_sha"] = hashlib.sha1(str(closed).encode()).hexdigest()[:12]
        self.encodings += 1
        self.t_encode += seconds

    def assume(self, text):
        self.assumptions.add(text)

    def note(self, text):
        self.notes.append(text)

    def sample(self, obj):
        if len(self.samples) < 4:
            self.samples.append(_jsonable(obj))

    def bound(self, **kw):
        self.bounds.update({k: _jsonable(v) for k, v in kw.items()})

    # ---- solver
    def _solve(self, clauses, timeout_s=None):
        if self.deadline is not None and time.time() > self.deadline:
            self.n_queries += 1
            return "unknown", None, 0.0
        s = z3.Solver()
        budget = timeout_s or self.qtimeout_s
        if self.deadline is not None:
            budget = max(1.0, min(budget, self.deadline - time.time()))
        s.set("timeout", int(1000 * budget))
        s.set("random_seed", self.seed % 1000)
        for c in clauses:
            s.add(c)
        t0 = time.time()
        r = s.check()
        dt = time.time() - t0
        self.t_solve += dt
        self.n_queries += 1
        # second opinion (thorough tier): a sample of the cheap `unsat` answers is re-decided by the cvc5 binary on z3's SMT-LIB dump
        if self.tier == "thorough" and str(r) == "unsat" and dt < 3.0:
            self.n_unsat_fast += 1
            if self.n_unsat_fast % 15 == 1:
                self._cross_check(s)
        return str(r), (s.model() if str(r) == "sat" else None), dt

    def _cross_check(self, s):
        import subprocess
        import tempfile
        try:
            txt = s.to_smt2()
            with tempfile.NamedTemporaryFile("w", suffix=".smt2", delete=False) as f:
                f.write(txt)
                fn = f.name
            try:
                out = subprocess.run(["cvc5", "--lang=smt2", "--tlimit=20000", fn], capture_output=True, text=True, timeout=40).stdout.strip().splitlines()
            finally:
                os.unlink(fn)
            ans = out[0].strip() if out else "none"
        except Exception as e:  # noqa
            ans = "error"
        if ans == "unsat":
            self.cross["agree"] += 1
        elif ans == "sat":
            self.cross["disagree"] += 1
            self.harness_errors.append(f"{self.job}: cvc5 answers sat on a query z3 answered unsat")
        else:
            self.cross["no_opinion"] += 1

    def reach(self, name, assumptions, extra=True):
        """vacuity guard: assumptions (and the antecedent `extra`) must be satisfiable."""
        r, m, dt = self._solve(list(assumptions) + [zbool(extra)])
        self.obl.append({"name": "reach:" + name, "result": r, "solver_s": round(dt, 3), "kind": "reachability"})
        if r == "sat":
            self.reach_ok += 1
        else:
            if r == "unknown":
                self.inconclusive.append(f"{self.job}:{name}: reachability witness undecided (solver unknown); obligations under these assumptions are not counted as vacuity-checked")
            else:
                self.harness_errors.append(f"{self.job}:{name}: vacuous harness (assumptions {r})")
        return r == "sat", m

    def prove(self, name, assumptions, goal, replay=None, exclusions=(), timeout_s=None, internal=False):
        """Obligation: assumptions => goal.  `goal` is a z3 Bool or a python bool (decided during
        encoding = "folded").  On sat the model is handed to `replay(model) -> (confirmed, detail)`,
        which must run the REAL code.  exclusions: [(finding_key, z3 cond)] classes of
        counterexamples that are listed in known_findings.json; they are excluded from the main
        query and discharged separately, so any *other* violation is still reported."""
        key = f"{self.job}:{name}"
        if not isinstance(goal, z3.ExprRef):
            if goal:
                self.folded += 1
                self.obl.append({"name": name, "result": "unsat", "solver_s": 0.0, "kind": "folded"})
                return "unsat"
            goal = z3.BoolVal(False)
        active = []
        for fkey, cond in exclusions:
            e = known_entry(self.prop, fkey)
            if e is not None:
                active.append((fkey, cond, e))
        base = list(assumptions)
        main = base + [z3.Not(zbool(c)) for _, c, _ in active] + [z3.Not(goal)]
        r, m, dt = self._solve(main, timeout_s)
        rec = {"name": name, "result": r, "solver_s": round(dt, 3), "kind": "internal" if internal else "property"}
        self.obl.append(rec)
        if r == "unknown":
            self.inconclusive.append(f"{key}: solver returned unknown after {dt:.0f}s" + (" (job budget exhausted)" if dt == 0.0 else ""))
        elif r == "sat":
            self._triage(key, m, replay, internal, None)
        for fkey, cond, e in active:
            r2, m2, dt2 = self._solve(base + [zbool(cond), z3.Not(goal)], timeout_s)
            self.obl.append({"name": name + "|known:" + fkey, "result": r2, "solver_s": round(dt2, 3), "kind": "known-class"})
            if r2 == "sat":
                self._triage(fkey, m2, replay, internal, e)
            elif r2 == "unknown":
                self.inconclusive.append(f"{key}|{fkey}: unknown")
            else:
                self.note(f"known finding {fkey} no longer reproduces (query unsat)")
        return r

    def _triage(self, key, model, replay, internal, known):
        if internal or replay is None:
            self.harness_errors.append(f"{key}: internal obligation (unwinding/validity) is satisfiable")
            return
        try:
            confirmed, detail = replay(model)
            self.validated += 1
        except Exception as e:  # noqa
            self.harness_errors.append(f"{key}: replay crashed: {e!r}\n{traceback.format_exc()[-1500:]}")
            return
        if not confirmed:
            self.harness_errors.append(f"{key}: counterexample does not reproduce on the real code: {_jsonable(detail)}")
            return
        e = known if known is not None else known_entry(self.prop, key)
        if e is not None:
            self.known.append({"key": key, "what": e["what"], "detail": _jsonable(detail)})
        else:
            self.violations.append({"key": key, "detail": _jsonable(detail)})

    def violation(self, name, detail):
        """a violation established outside prove() (e.g. structural IR check), already confirmed on real code"""
        key = f"{self.job}:{name}"
        e = known_entry(self.prop, key)
        if e is not None:
            self.known.append({"key": key, "what": e["what"], "detail": _jsonable(detail)})
        else:
            self.violations.append({"key": key, "detail": _jsonable(detail)})

    def structural(self, name, ok, detail=None):
        """an obligation decided on the IR/trace itself (types, effects, alpha-equivalence)"""
        self.obl.append({"name": name, "result": "unsat" if ok else "sat", "solver_s": 0.0, "kind": "structural"})
        if not ok:
            self.violation(name, detail)

    def dump(self):
        return {k: getattr(self, k) for k in ("job", "obl", "funcs", "violations", "known", "inconclusive", "harness_errors",
                                               "samples", "notes", "validated", "nvars", "encodings", "t_encode", "t_solve",
                                               "folded", "bounds", "reach_ok", "cross")} | {"assumptions": sorted(self.assumptions)}


# --------------------------------------------------------------------------- pool
def _job_main(conn, prop, tier, seed, qtimeout, modname, fname, jobname, kwargs, job_timeout=None):
    os.environ.setdefault("JAX_PLATFORMS", "cpu")
    import importlib
    import warnings
    warnings.filterwarnings("ignore")
    R = Recorder(prop, jobname, tier, seed, qtimeout, job_budget_s=job_timeout)
    t0 = time.time()
    try:
        mod = importlib.import_module(modname)
        getattr(mod, fname)(R, **kwargs)
    except BaseException as e:  # noqa
        R.harness_errors.append(f"{jobname}: job crashed: {e!r}\n{traceback.format_exc()[-2500:]}")
    d = R.dump()
    d["wall_s"] = round(time.time() - t0, 2)
    try:
        conn.send(d)
    except Exception as e:  # noqa
        conn.send({"job": jobname, "harness_errors": [f"result not serialisable: {e!r}"]})
    conn.close()


def run_jobs(prop, tier, seed, jobs, workers=None, qtimeout=120, job_timeout=900):
    """jobs: list of (jobname, 'module', 'function', kwargs).  Returns list of result dicts."""
    ctx = mp.get_context("spawn")
    workers = workers or min(16, os.cpu_count() or 4)
    pending = list(jobs)
    running = []
    results = []
    while pending or running:
        while pending and len(running) < workers:
            jobname, modname, fname, kwargs = pending.pop(0)
            pc, cc = ctx.Pipe(duplex=False)
            p = ctx.Process(target=_job_main, args=(cc, prop, tier, seed, qtimeout, modname, fname, jobname, kwargs, job_timeout))
            p.start()
            cc.close()
            running.append((p, pc, jobname, time.time()))
        still = []
        for p, pc, jobname, t0 in running:
            if pc.poll(0.05):
                try:
                    results.append(pc.recv())
                except EOFError:
                    results.append({"job": jobname, "harness_errors": [f"{jobname}: worker died without a result"]})
                p.join(5)
                if p.is_alive():
                    p.kill()
            elif not p.is_alive():
                if pc.poll(0.5):
                    results.append(pc.recv())
                else:
                    results.append({"job": jobname, "harness_errors": [f"{jobname}: worker exited ({p.exitcode}) without a result"]})
            elif time.time() - t0 > job_timeout:
                p.kill()
                results.append({"job": jobname, "inconclusive": [f"{jobname}: job exceeded {job_timeout}s wall clock (killed)"]})
            else:
                still.append((p, pc, jobname, t0))
        running = still
        time.sleep(0.05)
    return results


def finish(prop, tier, seed, results, t_start, level_text, assumptions=(), extra=None, technique=""):
    """aggregate, write evidence/<prop>.json, print summary lines, return the exit code"""
    obl = [dict(o, job=r.get("job")) for r in results for o in r.get("obl", [])]
    viol = [v for r in results for v in r.get("violations", [])]
    known = [v for r in results for v in r.get("known", [])]
    inconc = [v for r in results for v in r.get("inconclusive", [])]
    herr = [v for r in results for v in r.get("harness_errors", [])]
    n_unsat = sum(1 for o in obl if o["result"] == "unsat")
    n_sat = sum(1 for o in obl if o["result"] == "sat" and o.get("kind") not in ("reachability", "lemma"))
    n_unknown = sum(1 for o in obl if o["result"] == "unknown")
    funcs = {}
    for r in results:
        for k, v in r.get("funcs", {}).items():
            funcs[f"{r.get('job')}::{k}"] = v
    samples = []
    for r in results:
        for s in r.get("samples", [])[:2]:
            samples.append({"job": r.get("job"), "case": s})
    slow = sorted(obl, key=lambda o: -o.get("solver_s", 0))[:5]
    if not samples:
        samples = [{"obligation": o["name"], "job": o["job"], "result": o["result"]} for o in obl[:5]] or [{"note": "no obligations"}]
    replay_paths = []
    os.makedirs(os.path.join(VERIF, "replays", prop), exist_ok=True)
    for i, v in enumerate(viol):
        pth = os.path.join(VERIF, "replays", prop, f"{tier}_{i}.json")
        with open(pth, "w") as f:
            json.dump({"property": prop, "key": v["key"], "detail": v["detail"]}, f, indent=1)
        replay_paths.append(pth)
    allass = sorted(set(assumptions) | {a for r in results for a in r.get("assumptions", [])})
    cov = {
        "states": max(1, sum(r.get("nvars", 0) for r in results)),
        "transitions": max(1, sum(r.get("encodings", 0) for r in results)),
        "traces_validated_against_impl": sum(r.get("validated", 0) for r in results),
        "samples": samples[:12],
        "explanation": ("states = symbolic scalars (state/action/random-draw variables) quantified over by the solver, summed over harnesses; "
                        "transitions = symbolic encodings of real repo functions (jaxprs / python paths) built this run; "
                        "traces_validated = executions of the real code used to validate the encoding or to replay a model. " + level_text),
        "technique": technique,
        "jobs": len(results),
        "obligations": len(obl),
        "discharged": n_unsat,
        "obligations_unsat": n_unsat,
        "obligations_sat": n_sat,
        "obligations_unknown": n_unknown,
        "folded_by_value_sets": sum(r.get("folded", 0) for r in results),
        "reachability_witnesses_sat": sum(r.get("reach_ok", 0) for r in results),
        "solver_seconds": round(sum(r.get("t_solve", 0) for r in results), 2),
        "cvc5_cross_checks": {k: sum(r.get("cross", {}).get(k, 0) for r in results) for k in ("agree", "disagree", "no_opinion")},
        "encode_seconds": round(sum(r.get("t_encode", 0) for r in results), 2),
        "slowest_queries": [{"job": o["job"], "name": o["name"], "s": o["solver_s"], "result": o["result"]} for o in slow],
        "functions_encoded": funcs,
        "bounds": {r.get("job"): r.get("bounds") for r in results if r.get("bounds")},
        "per_job": [{"job": r.get("job"), "obligations": len(r.get("obl", [])), "wall_s": r.get("wall_s"),
                     "unsat": sum(1 for o in r.get("obl", []) if o["result"] == "unsat")} for r in results],
        "known_findings": known,
        "violations": viol,
        "inconclusive": inconc,
        "harness_errors": [h[:600] for h in herr],
        "notes": sorted({n for r in results for n in r.get("notes", [])})[:60],
    }
    if extra:
        cov.update(extra)
    ev = {"property_id": prop, "tier": tier, "seed": seed, "level": "model_checking", "coverage": cov,
          "assumptions": allass, "wall_s": round(time.time() - t_start, 2), "violations": len(viol)}
    os.makedirs(os.path.join(VERIF, "evidence"), exist_ok=True)
    with open(os.path.join(VERIF, "evidence", f"{prop}.json"), "w") as f:
        json.dump(_jsonable(ev), f, indent=1)
    print(f"[{prop}/{tier}] jobs={len(results)} obligations={len(obl)} unsat={n_unsat} sat={n_sat} unknown={n_unknown} "
          f"solver={cov['solver_seconds']}s encode={cov['encode_seconds']}s wall={ev['wall_s']}s")
    for k in known:
        print(f"KNOWN-FINDING: property={prop} {k['key']}: {k['what']}")
    for v, pth in zip(viol, replay_paths):
        print(f"  violation {v['key']}: {json.dumps(_jsonable(v['detail']))[:400]}")
        print(f"VIOLATION property={prop} replay={pth}")
    for i in inconc:
        print(f"INCONCLUSIVE: {i}")
    for h in herr:
        print(f"HARNESS-ERROR: {h[:1500]}")
    # exit codes: 1 = a replayed violation; 3 = the harness itself is broken (crash, vacuous assumptions, a counterexample that does
    # not reproduce); 0 otherwise.  Solver `unknown`s and job time-outs are NOT failures of the property and NOT successes either: they
    # are printed as INCONCLUSIVE, counted in evidence (`obligations_unknown`, `inconclusive`) and excluded from `discharged`.
    if viol:
        return 1
    if herr:
        return 3
    return 0

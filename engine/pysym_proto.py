"""Prototype E2: path-forking symbolic execution of Python-level code on symbolic arrays with a jnp shim."""
import sys, itertools
import numpy as np, z3
import jax.numpy as real_jnp
sys.path.insert(0,"/root/probe")
import jx2smt as J

class Fork(Exception): pass

class Engine:
    def __init__(self, pre=()):
        self.pre=list(pre); self.prefix=[]; self.pos=0; self.pc=[]; self.work=[]
    def decide(self, cond):
        """cond: z3 Bool. returns python bool for this path"""
        if self.pos < len(self.prefix):
            d=self.prefix[self.pos]
        else:
            s=z3.Solver(); s.add(self.pre+self.pc)
            can_t = s.check(cond)==z3.sat
            can_f = s.check(z3.Not(cond))==z3.sat
            if can_t and can_f:
                self.work.append(self.prefix[:self.pos]+[False]); d=True
            elif can_t: d=True
            elif can_f: d=False
            else: raise Fork("infeasible path")
            self.prefix=self.prefix[:self.pos]+[d]
        self.pos+=1
        self.pc.append(cond if d else z3.Not(cond))
        return d
    def run(self, fn):
        """explore all paths; yields (path_condition, outcome) outcome=('ret',value)|('exc',exception)"""
        self.work=[[]]; results=[]
        while self.work:
            self.prefix=self.work.pop(); self.pos=0; self.pc=[]
            try: out=('ret',fn())
            except Fork: continue
            except Exception as e: out=('exc',e)
            results.append((list(self.pc),out))
        return results
ENG=None

class SymArr:
    def __init__(self, a, dtype):
        self.sv=a if isinstance(a,J.SV) else J.SV(a,dtype)
    shape=property(lambda s:tuple(s.sv.shape)); dtype=property(lambda s:s.sv.dtype); ndim=property(lambda s:len(s.sv.shape)); size=property(lambda s:int(np.prod(s.sv.shape)))
    def _bin(self, other, op, cmp=False):
        o=other.sv if isinstance(other,SymArr) else J.SV(np.asarray(other).astype(self.dtype),self.dtype)
        A,B=np.broadcast_arrays(self.sv.obj(),o.obj())
        f=(lambda x,y:J.s_cmp(op,x,y,self.dtype)) if cmp else (lambda x,y:J.s_binop(op,x,y,self.dtype))
        return SymArr(J.SV(J.vec2(f,A,B),np.bool_ if cmp else self.dtype),None)
    __lt__=lambda s,o:s._bin(o,"lt",True); __gt__=lambda s,o:s._bin(o,"gt",True); __le__=lambda s,o:s._bin(o,"le",True); __ge__=lambda s,o:s._bin(o,"ge",True)
    __eq__=lambda s,o:s._bin(o,"eq",True); __ne__=lambda s,o:s._bin(o,"ne",True)
    __hash__=None
    def any(self):
        acc=False
        for x in self.sv.obj().reshape(-1): acc=J.b_or(acc,x)
        return SymArr(J.SV(np.array(acc,dtype=object).reshape(()) if J.is_sym(acc) else np.asarray(bool(acc)),np.bool_),None)
    def all(self):
        acc=True
        for x in self.sv.obj().reshape(-1): acc=J.b_and(acc,x)
        return SymArr(J.SV(np.array(acc,dtype=object).reshape(()) if J.is_sym(acc) else np.asarray(bool(acc)),np.bool_),None)
    def __bool__(self):
        if self.size!=1: raise ValueError("The truth value of an array with more than one element is ambiguous. Use a.any() or a.all()")
        x=self.sv.obj().reshape(-1)[0]
        if not J.is_sym(x): return bool(x)
        return ENG.decide(x if self.dtype.kind=='b' else J.to_z3(J.s_cmp("ne",x,0,self.dtype),np.bool_))
    def __repr__(self): return f"SymArr{self.shape}{self.dtype}"

class JnpShim:
    def __getattr__(self,n): return getattr(real_jnp,n)
    @staticmethod
    def asarray(x,dtype=None):
        if isinstance(x,SymArr):
            assert dtype is None or np.dtype(dtype)==x.dtype; return x
        return real_jnp.asarray(x,dtype)
    @staticmethod
    def broadcast_to(x,shape):
        if isinstance(x,SymArr): return SymArr(J.SV(np.broadcast_to(x.sv.obj(),tuple(shape)).copy(),x.dtype),None)
        return real_jnp.broadcast_to(x,shape)
    @staticmethod
    def any(x): return x.any() if isinstance(x,SymArr) else real_jnp.any(x)
    @staticmethod
    def full(shape,fill,dtype=None):
        if isinstance(fill,SymArr): return SymArr(J.SV(np.broadcast_to(fill.sv.obj(),tuple(shape)).copy(),fill.dtype),None)
        return real_jnp.full(shape,fill,dtype)

"""Prototype: symbolic interpreter of jaxprs into z3 terms (BV for ints, Bool, FP32 for floats).

Concrete sub-computations are evaluated by the real JAX primitive (bind); only eqns with at
least one symbolic operand go through the symbolic rules below.
"""
import itertools, math, time
import numpy as np
import jax, jax.numpy as jnp
from jax import lax
import z3

F32 = z3.Float32()
RNE = z3.RNE()


class Unsupported(Exception):
    pass


def is_sym(x):
    return isinstance(x, z3.ExprRef)


class SV:
    """array value: `a` is either a typed numpy array (concrete) or an object array whose
    elements are python scalars / z3 exprs."""
    __slots__ = ("a", "dtype")

    def __init__(self, a, dtype):
        self.dtype = np.dtype(dtype)
        if isinstance(a, np.ndarray) and a.dtype == object:
            self.a = a
        elif isinstance(a, z3.ExprRef):
            self.a = np.empty((), dtype=object)
            self.a[()] = a
        else:
            self.a = np.asarray(a, dtype=self.dtype)

    @property
    def shape(self):
        return self.a.shape

    @property
    def conc(self):
        return self.a.dtype != object

    def obj(self):
        if self.a.dtype == object:
            return self.a
        o = np.empty(self.a.shape, dtype=object)
        flat = self.a.reshape(-1)
        of = o.reshape(-1)
        k = self.dtype.kind
        for i in range(flat.size):
            v = flat[i]
            of[i] = bool(v) if k == "b" else (int(v) if k in "iu" else np.float32(v) if self.dtype == np.float32 else float(v))
        return o

    def __repr__(self):
        return f"SV({self.dtype},{self.shape},{'conc' if self.conc else 'sym'})"


def simplify_sv(sv):
    """collapse object array that is fully concrete back to typed array"""
    if sv.conc:
        return sv
    flat = sv.a.reshape(-1)
    if any(is_sym(x) for x in flat):
        return sv
    return SV(np.array([x for x in flat], dtype=sv.dtype).reshape(sv.a.shape), sv.dtype)


# ---------------------------------------------------------------- scalar helpers
def bits(dt):
    dt = np.dtype(dt)
    return 1 if dt.kind == "b" else dt.itemsize * 8


def wrap_int(v, dt):
    dt = np.dtype(dt)
    n = bits(dt)
    v &= (1 << n) - 1
    if dt.kind == "i" and v >= 1 << (n - 1):
        v -= 1 << n
    return v


def to_z3(x, dt):
    dt = np.dtype(dt)
    if is_sym(x):
        return x
    if dt.kind == "b":
        return z3.BoolVal(bool(x))
    if dt.kind in "iu":
        return z3.BitVecVal(int(x), bits(dt))
    if dt == np.float32:
        return z3.FPVal(float(x), F32)
    raise Unsupported(f"dtype {dt}")


def _ite_raw(c, a, b, dt):
    if not is_sym(c):
        return a if c else b
    if not is_sym(a) and not is_sym(b):
        if (a == b) and not (isinstance(a, float) and a != a):
            return a
        if np.dtype(dt).kind == "b":
            if a is True and b is False:
                return c
            if a is False and b is True:
                return z3.Not(c)
    elif is_sym(a) and is_sym(b) and a.eq(b):
        return a
    return z3.If(c, to_z3(a, dt), to_z3(b, dt))


def b_and(a, b):
    if not is_sym(a):
        return b if a else False
    if not is_sym(b):
        return a if b else False
    return z3.And(a, b)


def b_or(a, b):
    if not is_sym(a):
        return True if a else b
    if not is_sym(b):
        return True if b else a
    return z3.Or(a, b)


def b_not(a):
    if not is_sym(a):
        return not a
    return z3.Not(a)


def b_xor(a, b):
    if not is_sym(a) and not is_sym(b):
        return a != b
    return z3.Xor(to_z3(a, np.bool_), to_z3(b, np.bool_))


def conc_binop(name, a, b, dt):
    """evaluate via numpy with the right dtype semantics"""
    dt = np.dtype(dt)
    with np.errstate(all="ignore"):
        A = np.array(a, dtype=dt)
        B = np.array(b, dtype=dt)
        if name == "add":
            r = A + B
        elif name == "sub":
            r = A - B
        elif name == "mul":
            r = A * B
        elif name == "max":
            r = np.maximum(A, B)
        elif name == "min":
            r = np.minimum(A, B)
        elif name == "div":
            if dt.kind in "iu":
                if B == 0:
                    r = np.array(-1 if dt.kind == "i" else (1 << bits(dt)) - 1, dtype=dt)  # XLA: -1
                else:
                    q = abs(int(A)) // abs(int(B))
                    r = np.array(wrap_int(q if (int(A) < 0) == (int(B) < 0) else -q, dt), dtype=dt)
            else:
                r = A / B
        elif name == "rem":
            if dt.kind in "iu":
                if B == 0:
                    r = A
                else:
                    m = abs(int(A)) % abs(int(B))
                    r = np.array(wrap_int(m if int(A) >= 0 else -m, dt), dtype=dt)
            else:
                r = np.fmod(A, B)
        elif name == "and":
            r = A & B
        elif name == "or":
            r = A | B
        elif name == "xor":
            r = A ^ B
        else:
            raise Unsupported(name)
    k = dt.kind
    return bool(r) if k == "b" else int(r) if k in "iu" else np.float32(r)


def _s_binop_raw(name, a, b, dt):
    dt = np.dtype(dt)
    if not is_sym(a) and not is_sym(b):
        return conc_binop(name, a, b, dt)
    k = dt.kind
    if k == "b":
        if name in ("and", "min", "mul"):
            return b_and(a, b)
        if name in ("or", "max", "add"):
            return b_or(a, b)
        if name == "xor":
            return b_xor(a, b)
        raise Unsupported(f"bool {name}")
    za, zb = to_z3(a, dt), to_z3(b, dt)
    if k in "iu":
        signed = k == "i"
        # cheap identities
        if name == "add":
            if not is_sym(a) and a == 0:
                return b
            if not is_sym(b) and b == 0:
                return a
            return za + zb
        if name == "sub":
            if not is_sym(b) and b == 0:
                return a
            return za - zb
        if name == "mul":
            for x, y in ((a, b), (b, a)):
                if not is_sym(x):
                    if x == 0:
                        return 0
                    if x == 1:
                        return y
            if UF_MODE and is_sym(a) and is_sym(b):
                return uf_apply("mul", [a, b], [dt, dt], dt)
            return za * zb
        if name == "max":
            return z3.If(za >= zb if signed else z3.UGE(za, zb), za, zb)
        if name == "min":
            return z3.If(za <= zb if signed else z3.ULE(za, zb), za, zb)
        if name == "and":
            return za & zb
        if name == "or":
            return za | zb
        if name == "xor":
            return za ^ zb
        if UF_MODE and name in ("div", "rem") and is_sym(b):
            return uf_apply("i" + name, [a, b], [dt, dt], dt)
        if name == "div":
            n = bits(dt)
            if signed:
                # XLA: x/0 = -1 ; INT_MIN/-1 = INT_MIN ; otherwise truncation (bvsdiv truncates)
                return z3.If(zb == 0, z3.BitVecVal(-1, n), za / zb)
            return z3.If(zb == 0, z3.BitVecVal(-1, n), z3.UDiv(za, zb))
        if name == "rem":
            n = bits(dt)
            if signed:
                return z3.If(zb == 0, za, z3.SRem(za, zb))
            return z3.If(zb == 0, za, z3.URem(za, zb))
        raise Unsupported(f"int {name}")
    if dt == np.float32:
        if UF_MODE and name in ("add", "sub", "mul", "div", "max", "min", "rem"):
            return uf_apply(name, [a, b], [dt, dt], dt)
        if name == "add":
            return z3.fpAdd(RNE, za, zb)
        if name == "sub":
            return z3.fpSub(RNE, za, zb)
        if name == "mul":
            return z3.fpMul(RNE, za, zb)
        if name == "div":
            return z3.fpDiv(RNE, za, zb)
        if name == "max":
            return z3.If(z3.Or(z3.fpIsNaN(za), z3.fpIsNaN(zb)), z3.fpNaN(F32), z3.If(z3.fpGEQ(za, zb), za, zb))
        if name == "min":
            return z3.If(z3.Or(z3.fpIsNaN(za), z3.fpIsNaN(zb)), z3.fpNaN(F32), z3.If(z3.fpLEQ(za, zb), za, zb))
        raise Unsupported(f"float {name}")
    raise Unsupported(f"{dt} {name}")


CHEAP_INT = {"add", "sub", "and", "or", "xor", "max", "min"}

# Equivalence mode (C02/C13/C14/C15: two encodings of the SAME repo code are compared): expensive arithmetic on symbolic
# operands is abstracted by uninterpreted functions.  Sound for proving equalities (unsat under UF => unsat under the
# real semantics); a sat answer may be spurious and is only believed after replay on the real code.
UF_MODE = False
_UFS = {}
_COMM = {"add", "mul", "max", "min"}


def _sort_of(dt):
    dt = np.dtype(dt)
    return z3.BoolSort() if dt.kind == "b" else z3.BitVecSort(bits(dt)) if dt.kind in "iu" else F32


def uf_apply(name, args, in_dts, out_dt):
    key = (name, tuple(str(np.dtype(d)) for d in in_dts), str(np.dtype(out_dt)))
    if key not in _UFS:
        _UFS[key] = z3.Function("uf_" + "_".join([name] + [str(np.dtype(d)) for d in in_dts] + [str(np.dtype(out_dt))]),
                                *[_sort_of(d) for d in in_dts], _sort_of(out_dt))
    zs = [to_z3(a, d) for a, d in zip(args, in_dts)]
    if name in _COMM and len(zs) == 2 and zs[0].get_id() > zs[1].get_id():
        zs = [zs[1], zs[0]]
    return _UFS[key](*zs)


def s_binop(name, a, b, dt):
    dt = np.dtype(dt)
    if not is_sym(a) and not is_sym(b):
        return conc_binop(name, a, b, dt)
    k = dt.kind
    if k == "b":
        return _s_binop_raw(name, a, b, dt)
    if is_sym(a) and is_sym(b) and a.eq(b) and small(a) and (k == "f" or name not in CHEAP_INT):
        # x op x (e.g. the squares inside a Euclidean norm): tabulate over the ONE operand; treating the two occurrences as
        # independent would square the (non-relational) value set
        return tabulate(lambda x: conc_binop(name, x, x, dt), [a], [dt], dt)
    if small(a, b):
        if k == "f" or name not in CHEAP_INT:
            return tabulate(lambda x, y: conc_binop(name, x, y, dt), [a, b], [dt, dt], dt)
        r = _s_binop_raw(name, a, b, dt)
        va, vb = vs_of(a), vs_of(b)
        vals = {}
        for x in va:
            for y in vb:
                v = conc_binop(name, x, y, dt)
                vals[_key(v)] = v
                if len(vals) > VS_MAX:
                    return r
        return vs_set(r, list(vals.values()))
    if k == "f":
        TAB_STATS["fp_terms"] += 1
    return _s_binop_raw(name, a, b, dt)


def s_convert(x, src, dst):
    src, dst = np.dtype(src), np.dtype(dst)
    if src == dst or not is_sym(x):
        return _s_convert_raw(x, src, dst)
    if src.kind != "b" and small(x):
        if dst.kind == "f" or src.kind == "f":
            return tabulate(lambda v: _s_convert_raw(v, src, dst), [x], [src], dst)
        r = _s_convert_raw(x, src, dst)
        vals = {}
        for v in vs_of(x):
            c = _s_convert_raw(v, src, dst)
            vals[_key(c)] = c
        return vs_set(r, list(vals.values())) if dst.kind != "b" else r
    r = _s_convert_raw(x, src, dst)
    if src.kind == "b" and dst.kind != "b" and is_sym(r):
        vs_set(r, [_s_convert_raw(False, src, dst), _s_convert_raw(True, src, dst)])
    return r


def ite(c, a, b, dt):
    r = _ite_raw(c, a, b, dt)
    if is_sym(r) and np.dtype(dt).kind != "b" and r.get_id() not in VS:
        va, vb = vs_of(a), vs_of(b)
        if va is not None and vb is not None:
            vals = {}
            for v in va + vb:
                vals[_key(v)] = v
            vs_set(r, list(vals.values()))
    return r


def s_unary_f(name, x, dt):
    """float unary via tabulation when possible"""
    fn = {"sqrt": np.sqrt, "exp": np.exp, "log": np.log, "floor": np.floor, "ceil": np.ceil, "neg": np.negative,
          "abs": np.abs, "sign": np.sign, "log1p": np.log1p, "tanh": np.tanh, "logistic": lambda v: 1 / (1 + np.exp(-v)),
          "round": np.round, "is_finite": np.isfinite}[name]
    with np.errstate(all="ignore"):
        if not is_sym(x):
            r = fn(np.float32(x))
            return bool(r) if name == "is_finite" else np.float32(r)
        if small(x):
            def f(v):
                with np.errstate(all="ignore"):
                    r = fn(np.float32(v))
                return bool(r) if name == "is_finite" else np.float32(r)
            return tabulate(f, [x], [dt], np.bool_ if name == "is_finite" else dt)
    return None


def _minmax(vals):
    vs = [v for v in vals if v == v]
    return (min(vs), max(vs), len(vs) != len(vals)) if vs else (None, None, True)


def s_cmp(name, a, b, dt):
    dt = np.dtype(dt)
    if (is_sym(a) or is_sym(b)) and dt.kind != "b":
        va, vb = vs_of(a), vs_of(b)
        if va is not None and vb is not None:
            la, ha, na = _minmax(va)
            lb, hb, nb = _minmax(vb)
            if not na and not nb:
                if name in ("lt", "le", "gt", "ge"):
                    if name in ("gt", "ge"):
                        (la, ha), (lb, hb) = (lb, hb), (la, ha)
                        nm = "lt" if name == "gt" else "le"
                    else:
                        nm = name
                    # now: a' nm b'
                    if nm == "lt":
                        if ha < lb:
                            return True
                        if la >= hb:
                            return False
                    else:
                        if ha <= lb:
                            return True
                        if la > hb:
                            return False
                elif name in ("eq", "ne"):
                    if ha < lb or hb < la:
                        return name == "ne"
            if dt.kind == "f" and len(va) * len(vb) <= TAB_MAX:
                return tabulate(lambda x, y: _s_cmp_raw(name, x, y, dt), [a, b], [dt, dt], np.bool_)
    return _s_cmp_raw(name, a, b, dt)


def _s_cmp_raw(name, a, b, dt):
    dt = np.dtype(dt)
    if not is_sym(a) and not is_sym(b):
        with np.errstate(all="ignore"):
            A = np.array(a, dtype=dt)
            B = np.array(b, dtype=dt)
            return bool({"eq": A == B, "ne": A != B, "lt": A < B, "le": A <= B, "gt": A > B, "ge": A >= B}[name])
    k = dt.kind
    if k == "b":
        if name == "eq":
            return b_not(b_xor(a, b))
        if name == "ne":
            return b_xor(a, b)
        # False < True
        za, zb = a, b
        if name == "lt":
            return b_and(b_not(za), zb)
        if name == "le":
            return b_or(b_not(za), zb)
        if name == "gt":
            return b_and(za, b_not(zb))
        if name == "ge":
            return b_or(za, b_not(zb))
    za, zb = to_z3(a, dt), to_z3(b, dt)
    if k in "iu":
        s = k == "i"
        if name == "eq":
            return za == zb
        if name == "ne":
            return za != zb
        if name == "lt":
            return za < zb if s else z3.ULT(za, zb)
        if name == "le":
            return za <= zb if s else z3.ULE(za, zb)
        if name == "gt":
            return za > zb if s else z3.UGT(za, zb)
        if name == "ge":
            return za >= zb if s else z3.UGE(za, zb)
    if dt == np.float32:
        if name == "eq":
            return z3.fpEQ(za, zb)
        if name == "ne":
            return z3.Not(z3.fpEQ(za, zb))
        if name == "lt":
            return z3.fpLT(za, zb)
        if name == "le":
            return z3.fpLEQ(za, zb)
        if name == "gt":
            return z3.fpGT(za, zb)
        if name == "ge":
            return z3.fpGEQ(za, zb)
    raise Unsupported(f"cmp {name} {dt}")


def _s_convert_raw(x, src, dst):
    src, dst = np.dtype(src), np.dtype(dst)
    if src == dst:
        return x
    if not is_sym(x):
        with np.errstate(all="ignore"):
            r = np.array(x, dtype=src).astype(dst)
        return bool(r) if dst.kind == "b" else int(r) if dst.kind in "iu" else np.float32(r)
    sk, dk = src.kind, dst.kind
    if sk == "b":
        if dk in "iu":
            return z3.If(x, z3.BitVecVal(1, bits(dst)), z3.BitVecVal(0, bits(dst)))
        if dst == np.float32:
            return z3.If(x, z3.FPVal(1.0, F32), z3.FPVal(0.0, F32))
    if sk in "iu":
        if dk == "b":
            return x != 0
        if dk in "iu":
            ns, nd = bits(src), bits(dst)
            if nd == ns:
                return x
            if nd < ns:
                return z3.Extract(nd - 1, 0, x)
            return z3.SignExt(nd - ns, x) if sk == "i" else z3.ZeroExt(nd - ns, x)
        if dst == np.float32:
            if UF_MODE:
                return uf_apply("i2f", [x], [src], dst)
            return z3.fpSignedToFP(RNE, x, F32) if sk == "i" else z3.fpUnsignedToFP(RNE, x, F32)
    if src == np.float32:
        if dk == "b":
            return z3.Not(z3.fpIsZero(x))
        if dk in "iu" and UF_MODE:
            return uf_apply("f2i", [x], [src], dst)
        if dk in "iu":
            # XLA: truncation toward zero; out of range saturates; nan -> 0.  (model in-range only + saturate)
            n = bits(dst)
            if dk == "i":
                lo, hi = -(1 << (n - 1)), (1 << (n - 1)) - 1
                r = z3.fpToSBV(z3.RTZ(), x, z3.BitVecSort(n))
            else:
                lo, hi = 0, (1 << n) - 1
                r = z3.fpToUBV(z3.RTZ(), x, z3.BitVecSort(n))
            return z3.If(z3.fpIsNaN(x), z3.BitVecVal(0, n),
                         z3.If(z3.fpLEQ(x, z3.FPVal(float(lo), F32)), z3.BitVecVal(lo, n),
                               z3.If(z3.fpGEQ(x, z3.FPVal(float(hi), F32)), z3.BitVecVal(hi, n), r)))
    raise Unsupported(f"convert {src}->{dst}")


# ---------------------------------------------------------------- value sets + tabulation
VS = {}            # z3 ast id -> (term, tuple of python values)   (term kept alive so ids stay unique)
VS_MAX = 64        # largest set we keep
TAB_MAX = 1024     # largest |A|x|B| we tabulate
TAB_STATS = {"tabulated": 0, "fp_terms": 0}


def vs_of(x):
    if not is_sym(x):
        return (x,)
    e = VS.get(x.get_id())
    return e[1] if e is not None else None


def vs_set(term, values):
    if is_sym(term) and values is not None and len(values) <= VS_MAX:
        VS[term.get_id()] = (term, tuple(values))
    return term


def _key(v):
    # distinguish -0.0/0.0 and make nan hashable-equal
    if isinstance(v, (float, np.floating)):
        return ("f", np.float32(v).tobytes())
    return ("i", v)


def tabulate(fn, operands, dts, odt):
    """operands: list of scalars (py or z3) whose value sets are all known. Build ITE over operand values,
    leaves computed by fn on concrete values."""
    sets = [vs_of(o) for o in operands]
    groups = {}
    order = []
    for combo in itertools.product(*sets):
        r = fn(*combo)
        k = _key(r)
        if k not in groups:
            groups[k] = (r, [])
            order.append(k)
        groups[k][1].append(combo)
    if len(order) == 1:
        return groups[order[0]][0]
    TAB_STATS["tabulated"] += 1
    zs = [to_z3(o, dt) if is_sym(o) else None for o, dt in zip(operands, dts)]

    def cond_of(combo):
        cs = [z == to_z3(v, dt) for z, v, dt in zip(zs, combo, dts) if z is not None]
        return z3.And(cs) if len(cs) > 1 else cs[0]
    # default leaf = the group with most combos
    order.sort(key=lambda k: len(groups[k][1]))
    res = to_z3(groups[order[-1]][0], odt)
    for k in order[:-1]:
        r, combos = groups[k]
        c = z3.Or([cond_of(cb) for cb in combos]) if len(combos) > 1 else cond_of(combos[0])
        res = z3.If(c, to_z3(r, odt), res)
    vs_set(res, [groups[k][0] for k in order])
    return res


def small(*xs):
    n = 1
    for x in xs:
        v = vs_of(x)
        if v is None:
            return False
        n *= len(v)
    return n <= TAB_MAX


# ---------------------------------------------------------------- array helpers
def vec2(f, A, B):
    out = np.empty(A.shape, dtype=object)
    af, bf, of = A.reshape(-1), B.reshape(-1), out.reshape(-1)
    for i in range(af.size):
        of[i] = f(af[i], bf[i])
    return out


def vec1(f, A):
    out = np.empty(A.shape, dtype=object)
    af, of = A.reshape(-1), out.reshape(-1)
    for i in range(af.size):
        of[i] = f(af[i])
    return out


def fold_axes(f, A, axes, init=None):
    axes = tuple(sorted(a % A.ndim for a in axes))
    keep = [d for d in range(A.ndim) if d not in axes]
    T = np.transpose(A, keep + list(axes))
    kshape = T.shape[: len(keep)]
    T = T.reshape(kshape + (-1,))
    out = np.empty(kshape, dtype=object)
    for idx in np.ndindex(*kshape):
        row = T[idx]
        acc = init
        for x in row:
            acc = x if acc is None else f(acc, x)
        out[idx] = acc
    return out


_GLOBAL_COUNTER = itertools.count()


class Ctx:
    def __init__(self, max_unroll=64, havoc_loops=False):
        self.havoc_loops = havoc_loops
        self.assumptions = []   # constraints from stubs (contracts)
        self.unwind = []        # unwinding obligations: list of z3 Bool that must be unsat w/ assumptions
        self.oob = []           # (descr, cond) optional in-bounds obligations
        self.counter = _GLOBAL_COUNTER   # names are unique per process: value sets are keyed by term identity
        self.memo = {}
        self.max_unroll = max_unroll
        self.stats = {"eqns": 0, "sym_eqns": 0, "havoc": []}
        self.last_closed = None
        self.replay_model = None   # replay mode: stub draws are replaced by the model's values, everything else runs on real primitives
        self.ranges = {}           # term id -> (lo, hi) of every ranged fresh variable (domain-closure obligations of the induction)

    def fresh(self, name, dt):
        dt = np.dtype(dt)
        n = f"{name}!{next(self.counter)}"
        if dt.kind == "b":
            return z3.Bool(n)
        if dt.kind in "iu":
            return z3.BitVec(n, bits(dt))
        if dt == np.float32:
            return z3.FP(n, F32)
        raise Unsupported(f"fresh {dt}")

    def fresh_arr(self, name, shape, dt, lo=None, hi=None):
        """fresh symbolic array; with lo/hi (ints, inclusive) the range is both assumed and recorded as value set"""
        out = np.empty(shape, dtype=object)
        of = out.reshape(-1)
        dt = np.dtype(dt)
        for i in range(of.size):
            of[i] = self.fresh(f"{name}_{i}", dt)
            if lo is not None:
                # raw comparison: must not be folded by a value set
                self.assumptions.append(to_z3(_s_cmp_raw("ge", of[i], lo, dt), np.bool_))
                self.assumptions.append(to_z3(_s_cmp_raw("le", of[i], hi, dt), np.bool_))
                vs_set(of[i], list(range(lo, hi + 1)))
                self.ranges[_tid(of[i])] = (lo, hi)
        return SV(out, dt)


_KEEPALIVE = []   # z3 AST ids are only stable while the term is referenced: keep every term whose id is used as a memo key


def _tid(x):
    _KEEPALIVE.append(x)
    return x.get_id()


def keyid(sv):
    """hashable identity of a (possibly symbolic) array"""
    if sv.conc:
        return ("c", sv.a.tobytes(), sv.shape)
    return ("s", tuple(_tid(x) if is_sym(x) else x for x in sv.a.reshape(-1)), sv.shape)


# ---------------------------------------------------------------- interpreter
def np_dtype(aval):
    dt = aval.dtype
    if jax.dtypes.issubdtype(dt, jax.dtypes.prng_key):
        return np.dtype(np.uint32)
    return np.dtype(dt)


def aval_shape(aval):
    dt = aval.dtype
    if jax.dtypes.issubdtype(dt, jax.dtypes.prng_key):
        return tuple(aval.shape) + (2,)
    return tuple(aval.shape)


def eval_jaxpr(ctx, jaxpr, consts, args):
    env = {}

    def read(v):
        if isinstance(v, jax.core.Literal):
            return SV(np.asarray(v.val), np_dtype(v.aval))
        return env[v]

    for v, c in zip(jaxpr.constvars, consts):
        env[v] = c if isinstance(c, SV) else SV(np.asarray(c), np_dtype(v.aval))
    for v, a in zip(jaxpr.invars, args):
        env[v] = a
    for eqn in jaxpr.eqns:
        ins = [read(v) for v in eqn.invars]
        ctx.stats["eqns"] += 1
        outs = eval_eqn(ctx, eqn, ins)
        for v, o in zip(eqn.outvars, outs):
            env[v] = o
    return [read(v) for v in jaxpr.outvars]


STRUCT = {"broadcast_in_dim", "reshape", "squeeze", "transpose", "rev", "slice", "concatenate", "pad",
          "expand_dims", "copy", "copy_p", "device_put", "stop_gradient", "select_n", "dynamic_slice",
          "dynamic_update_slice", "gather", "scatter", "scatter-add", "convert_element_type", "iota"}

CONTROL = {"pjit", "cond", "while", "scan", "custom_jvp_call", "custom_vjp_call", "closed_call", "core_call", "remat"}
RANDOM = {"random_bits", "random_split", "random_wrap", "random_unwrap", "random_seed", "random_fold_in", "threefry2x32"}


def _concretize(model, sv):
    """SV -> concrete SV under a z3 model (replay mode)"""
    import struct
    if sv.conc:
        return sv
    out = np.empty(sv.shape, dtype=sv.dtype)
    of = out.reshape(-1)
    k = sv.dtype.kind
    for i, x in enumerate(sv.a.reshape(-1)):
        if not is_sym(x):
            of[i] = x
            continue
        v = model.eval(x, model_completion=True)
        if k == "b":
            of[i] = z3.is_true(v)
        elif k == "i":
            of[i] = v.as_signed_long()
        elif k == "u":
            of[i] = v.as_long()
        else:
            bv = z3.simplify(z3.fpToIEEEBV(v))
            of[i] = struct.unpack("<f", struct.pack("<I", bv.as_long()))[0] if z3.is_bv_value(bv) else np.nan
    return SV(out, sv.dtype)


def eval_eqn(ctx, eqn, ins):
    name = eqn.primitive.name
    p = eqn.params
    if name in CONTROL:
        return eval_control(ctx, eqn, ins)
    if name in RANDOM:
        outs = eval_random(ctx, eqn, ins)
        if ctx.replay_model is not None and name == "random_bits":
            outs = [_concretize(ctx.replay_model, o) for o in outs]
        return outs
    if all(i.conc for i in ins):
        # concrete: evaluate with the real primitive
        vals = [jnp.asarray(i.a) for i in ins]
        r = eqn.primitive.bind(*vals, **p)
        rs = r if eqn.primitive.multiple_results else [r]
        return [SV(np.asarray(x), np_dtype(v.aval)) for x, v in zip(rs, eqn.outvars)]
    ctx.stats["sym_eqns"] += 1
    outs = eval_sym(ctx, eqn, ins)
    sm = getattr(ctx, "shadow_model", None)
    if sm is not None:
        # shadow validation (debugging aid / DESIGN 1.6): under a given model, every symbolically evaluated equation is also run on
        # the real primitive with the model's operand values; the first disagreement names the faulty rule
        try:
            cin = [jnp.asarray(_concretize(sm, i).a) for i in ins]
            r = eqn.primitive.bind(*cin, **p)
            rs = r if eqn.primitive.multiple_results else [r]
            for k_, (o, rr) in enumerate(zip(outs, rs)):
                got = _concretize(sm, o).a
                if not np.array_equal(np.asarray(got), np.asarray(rr), equal_nan=True):
                    ctx.stats.setdefault("shadow_mismatch", []).append(
                        {"primitive": name, "params": str({k: str(v)[:80] for k, v in p.items()})[:400], "out": k_,
                         "operands": [np.asarray(c).tolist() if np.asarray(c).size <= 40 else str(np.asarray(c).shape) for c in cin],
                         "encoded": np.asarray(got).tolist() if np.asarray(got).size <= 40 else "big", "real": np.asarray(rr).tolist() if np.asarray(rr).size <= 40 else "big"})
        except Exception as e:  # noqa
            ctx.stats.setdefault("shadow_errors", []).append(f"{name}: {e!r}"[:200])
    res = []
    for o, v in zip(outs, eqn.outvars):
        assert tuple(o.shape) == aval_shape(v.aval), (name, o.shape, v.aval)
        res.append(simplify_sv(o))
    return res


def eval_control(ctx, eqn, ins):
    name = eqn.primitive.name
    p = eqn.params
    if name == "pjit":
        fn = p["name"]
        if fn in STUBS:
            r = STUBS[fn](ctx, eqn, ins)
            if r is not None:
                if ctx.replay_model is not None:
                    r = [_concretize(ctx.replay_model, o) for o in r]
                return r
        cj = p["jaxpr"]
        return eval_jaxpr(ctx, cj.jaxpr, cj.consts, ins)
    if name in ("custom_jvp_call", "custom_vjp_call"):
        cj = p.get("call_jaxpr") or p.get("fun_jaxpr")
        return eval_jaxpr(ctx, cj.jaxpr, cj.consts, ins)
    if name in ("closed_call", "core_call", "remat"):
        cj = p.get("call_jaxpr") or p.get("jaxpr")
        if hasattr(cj, "consts"):
            return eval_jaxpr(ctx, cj.jaxpr, cj.consts, ins)
        return eval_jaxpr(ctx, cj, [], ins)
    if name == "cond":
        idx, ops = ins[0], ins[1:]
        branches = p["branches"]
        if idx.conc:
            i = int(np.clip(int(idx.a), 0, len(branches) - 1))
            b = branches[i]
            return eval_jaxpr(ctx, b.jaxpr, b.consts, ops)
        zi = idx.a.reshape(-1)[0]
        results = [eval_jaxpr(ctx, b.jaxpr, b.consts, ops) for b in branches]
        merged = results[-1]
        # lax.cond/switch semantic: index already clamped by caller; be safe: idx<=0 ->0, idx>=n-1 -> n-1
        for i in range(len(branches) - 2, -1, -1):
            c = s_cmp("le", zi, i, idx.dtype)
            merged = [merge(c, a, b) for a, b in zip(results[i], merged)]
        return merged
    if name == "scan":
        return eval_scan(ctx, eqn, ins)
    if name == "while":
        return eval_while(ctx, eqn, ins)
    raise Unsupported(name)


def merge(c, a, b):
    """elementwise ite(c, a, b) for SVs"""
    if not is_sym(c):
        return a if c else b
    if a.conc and b.conc and np.array_equal(a.a, b.a):
        return a
    dt = a.dtype
    return simplify_sv(SV(vec2(lambda x, y: ite(c, x, y, dt), a.obj(), b.obj()), dt))


def eval_scan(ctx, eqn, ins):
    p = eqn.params
    nc, ncar, length, rev = p["num_consts"], p["num_carry"], p["length"], p["reverse"]
    cj = p["jaxpr"]
    consts, carry, xs = ins[:nc], ins[nc:nc + ncar], ins[nc + ncar:]
    ys = None
    order = range(length - 1, -1, -1) if rev else range(length)
    ys_list = {}
    for t in order:
        xt = [SV(x.a[t], x.dtype) for x in xs]
        outs = eval_jaxpr(ctx, cj.jaxpr, cj.consts, list(consts) + list(carry) + xt)
        carry = outs[:ncar]
        ys_list[t] = outs[ncar:]
    ny = len(eqn.outvars) - ncar
    ys = []
    for j in range(ny):
        dt = np_dtype(eqn.outvars[ncar + j].aval)
        items = [ys_list[t][j] for t in range(length)] if length else []
        if length == 0:
            ys.append(SV(np.zeros(aval_shape(eqn.outvars[ncar + j].aval), dt), dt))
        elif all(i.conc for i in items):
            ys.append(SV(np.stack([i.a for i in items]), dt))
        else:
            ys.append(SV(np.stack([i.obj() for i in items]), dt))
    return list(carry) + ys


def eval_while(ctx, eqn, ins):
    p = eqn.params
    cnc, bnc = p["cond_nconsts"], p["body_nconsts"]
    cj, bj = p["cond_jaxpr"], p["body_jaxpr"]
    cconsts, bconsts, state = ins[:cnc], ins[cnc:cnc + bnc], list(ins[cnc + bnc:])
    hook = getattr(ctx, "while_summary", None)
    if hook is not None:
        # loop-invariant summary (DESIGN 8.2): hook(ctx, eqn, entry_carry) -> exit carry (list of SV, normally fresh variables on
        # which the harness assumes its invariant J) or None to unroll as usual.  The harness owes the two side obligations
        # J(entry carry) and "J & cond => J after the loop body" (proved on the real body function); here the exit condition
        # not cond(exit carry) is added to the assumptions.  Partial correctness: termination of the loop is not claimed.
        r = hook(ctx, eqn, state)
        if r is not None:
            r = list(r)
            c = eval_jaxpr(ctx, cj.jaxpr, cj.consts, list(cconsts) + r)[0]
            if c.shape == ():
                cz = bool(c.a) if c.conc else c.a.reshape(-1)[0]
                ctx.assumptions.append(z3.Not(cz) if is_sym(cz) else z3.BoolVal(not cz))
            ctx.stats["loop_summaries"] = ctx.stats.get("loop_summaries", 0) + 1
            return r
    for it in range(ctx.max_unroll + 1):
        c = eval_jaxpr(ctx, cj.jaxpr, cj.consts, list(cconsts) + state)[0]
        batched = c.shape != ()
        cb = c.obj() if batched else None
        if batched:
            # vmap(while_loop): loop runs while any(pred); the lowering selects per batch element
            acc = False
            for x in cb.reshape(-1):
                acc = b_or(acc, x)
            cz = acc
        else:
            cz = bool(c.a) if c.conc else c.a.reshape(-1)[0]
        if cz is False:
            return state
        if it == ctx.max_unroll:
            if ctx.havoc_loops:
                # sound over-approximation: if the loop would still run, its carry is arbitrary
                ctx.stats["loop_havoc"] = ctx.stats.get("loop_havoc", 0) + 1
                fresh = [ctx.fresh_arr("loophavoc", s_.shape, s_.dtype) for s_ in state]
                return [merge(cz, f, s_) if is_sym(cz) else f for f, s_ in zip(fresh, state)]
            ctx.unwind.append(cz if is_sym(cz) else z3.BoolVal(True))
            return state
        new = eval_jaxpr(ctx, bj.jaxpr, bj.consts, list(bconsts) + state)
        if batched:
            nstate = []
            for n, s_ in zip(new, state):
                if n.conc and s_.conc and np.array_equal(n.a, s_.a):
                    nstate.append(n)
                    continue
                pb = cb.reshape(cb.shape + (1,) * (n.a.ndim - cb.ndim))
                pb = np.broadcast_to(pb, n.shape)
                dt = n.dtype
                out = np.empty(n.shape, dtype=object)
                no, so = n.obj(), s_.obj()
                for idx in np.ndindex(*n.shape):
                    out[idx] = ite(pb[idx], no[idx], so[idx], dt)
                nstate.append(simplify_sv(SV(out, dt)))
            state = nstate
        else:
            state = [merge(cz, n, s_) for n, s_ in zip(new, state)]
    return state


def _lane_id(arr):
    return tuple(_tid(x) if is_sym(x) else ("c", x if isinstance(x, (bool, int)) else float(x)) for x in np.asarray(arr, dtype=object).reshape(-1))


KEY_CASE_DEPTH = 8


def _key_cases(lane, depth=0):
    """A key lane whose two words are `If(c, a_i, b_i)` with ONE shared condition (the key left by `lax.cond` / a batched `select`:
    "split only when something was delivered") is split into the cases of that condition.  Derived keys and draws are then
    memoised on the LEAF keys and re-joined with the same condition: draw(ite(c, A, B)) = ite(c, draw(A), draw(B)) is exact for a
    function of the key, and it makes two encodings of the same program agree when their conditions are only semantically (not
    syntactically) the same term - memoising on the identity of the whole ite term gave vmap(step) and step different draws
    (RobotWarehouse: the per-agent key chain inside `lax.scan` + `lax.cond`)."""
    l = list(np.asarray(lane, dtype=object).reshape(-1))
    if depth < KEY_CASE_DEPTH and l and all(is_sym(x) and z3.is_app_of(x, z3.Z3_OP_ITE) for x in l):
        c = l[0].arg(0)
        if all(x.arg(0).eq(c) for x in l[1:]):
            return ("ite", c, _key_cases([x.arg(1) for x in l], depth + 1), _key_cases([x.arg(2) for x in l], depth + 1))
    out = np.empty(len(l), dtype=object)
    for i, x in enumerate(l):
        out[i] = x.as_long() if (is_sym(x) and z3.is_bv_value(x)) else x
    return ("leaf", out)


def _lane_apply(tree, fn, dt):
    """fn(leaf key lane) -> object array block; blocks of the cases are joined elementwise with the case condition"""
    if tree[0] == "leaf":
        return fn(tree[1])
    t, e = np.asarray(_lane_apply(tree[2], fn, dt), dtype=object), np.asarray(_lane_apply(tree[3], fn, dt), dtype=object)
    out = np.empty(t.shape, dtype=object)
    for i in np.ndindex(*t.shape):
        out[i] = t[i] if (t[i] is e[i]) else ite(tree[1], t[i], e[i], dt)
    return out


def eval_random(ctx, eqn, ins):
    """keys are u32 pairs (last axis 2). Every derived key / bit block is a fresh variable block
    memoised on the identity of the *single* key it derives from, so batching (vmap) and
    sequential evaluation (scan / lax.map) of the same key see the same draw."""
    name = eqn.primitive.name
    if name in ("random_wrap", "random_unwrap"):
        return [ins[0]]
    if name == "random_seed" and ins[0].conc:
        # PRNGKey(<constant>) inside the traced code is a CONSTANT key, not an arbitrary one: evaluate it with the real primitive (a
        # generator that stores PRNGKey(0) in the state instead of a key derived from the reset key must be visible as a constant)
        try:
            r = eqn.primitive.bind(jnp.asarray(ins[0].a), **eqn.params)
            data = np.asarray(jax.random.key_data(r)).astype(np.uint32)
            return [SV(data.reshape(aval_shape(eqn.outvars[0].aval)), np.uint32)]
        except Exception:  # noqa  (fall back to the symbolic stub)
            pass
    if name == "random_seed":
        mk = (name, keyid(ins[0]), str(eqn.params))
        if mk not in ctx.memo:
            ctx.memo[mk] = [ctx.fresh_arr("seedkey", aval_shape(v.aval), np_dtype(v.aval)) for v in eqn.outvars]
        return ctx.memo[mk]
    keys = ins[0].obj()
    kshape = keys.shape[:-1]
    v = eqn.outvars[0]
    oshape, odt = aval_shape(v.aval), np_dtype(v.aval)
    lane_shape = oshape[len(kshape):]
    out = np.empty(oshape, dtype=object)
    extra = tuple(keyid(i) for i in ins[1:])
    pstr = str(sorted((k, str(x)) for k, x in eqn.params.items() if k != "shape"))

    def leaf(lane):
        mk = (name, _lane_id(lane), lane_shape, extra, pstr)
        if mk not in ctx.memo:
            ctx.memo[mk] = ctx.fresh_arr(name, lane_shape, odt).a
        return ctx.memo[mk]
    for b in np.ndindex(*kshape):
        blk = _lane_apply(_key_cases(keys[b]), leaf, odt)
        out[b] = blk if lane_shape else blk[()]
    return [SV(out, odt)]


# ---------------------------------------------------------------- symbolic primitive rules
def eval_sym(ctx, eqn, ins):
    name = eqn.primitive.name
    p = eqn.params
    outv = eqn.outvars[0]
    odt = np_dtype(outv.aval)
    if name in ("add", "sub", "mul", "max", "min", "and", "or", "xor", "div", "rem"):
        a, b = ins
        dt = a.dtype
        return [SV(vec2(lambda x, y: s_binop(name, x, y, dt), *np.broadcast_arrays(a.obj(), b.obj())), odt)]
    if name in ("eq", "ne", "lt", "le", "gt", "ge"):
        a, b = ins
        dt = a.dtype
        return [SV(vec2(lambda x, y: s_cmp(name, x, y, dt), *np.broadcast_arrays(a.obj(), b.obj())), np.bool_)]
    if name in ("le_to", "lt_to", "eq_to"):
        a, b = ins
        dt = a.dtype

        def to_cmp(x, y):
            if dt.kind != "f":
                return s_cmp({"le_to": "le", "lt_to": "lt", "eq_to": "eq"}[name], x, y, dt)
            zx, zy = to_z3(x, dt), to_z3(y, dt)
            nx, ny = z3.fpIsNaN(zx), z3.fpIsNaN(zy)
            lt = z3.fpLT(zx, zy)
            eq = z3.fpEQ(zx, zy)
            negx, negy = z3.fpIsNegative(zx), z3.fpIsNegative(zy)
            if name == "eq_to":
                r = z3.Or(z3.And(nx, ny), z3.And(z3.Not(nx), z3.Not(ny), eq, negx == negy))
            elif name == "lt_to":
                r = z3.If(nx, z3.BoolVal(False), z3.If(ny, z3.BoolVal(True), z3.Or(lt, z3.And(eq, negx, z3.Not(negy)))))
            else:
                r = z3.If(ny, z3.BoolVal(True), z3.If(nx, z3.BoolVal(False), z3.Or(lt, z3.And(eq, z3.Not(z3.And(z3.Not(negx), negy))))))
            return z3.simplify(r) if not (is_sym(x) or is_sym(y)) else r
        return [SV(vec2(to_cmp, *np.broadcast_arrays(a.obj(), b.obj())), np.bool_)]
    if name == "not":
        a = ins[0]
        if a.dtype.kind == "b":
            return [SV(vec1(b_not, a.obj()), odt)]
        return [SV(vec1(lambda x: ~to_z3(x, a.dtype), a.obj()), odt)]
    if name == "neg":
        a = ins[0]
        if a.dtype.kind in "iu":
            return [SV(vec1(lambda x: -x if is_sym(x) else wrap_int(-x, a.dtype), a.obj()), odt)]
        return [SV(vec1(lambda x: (s_unary_f("neg", x, a.dtype) if small(x) else z3.fpNeg(x)) if is_sym(x) else np.float32(-x), a.obj()), odt)]
    if name == "abs":
        a = ins[0]
        dt = a.dtype
        if dt.kind in "iu":
            return [SV(vec1(lambda x: z3.If(x < 0, -x, x) if is_sym(x) else wrap_int(abs(x), dt), a.obj()), odt)]
        # value-set operands are tabulated (keeps |x| finite-domain, e.g. jnp.linalg.norm(axis=1) = sqrt(sum(abs(x)**2)))
        return [SV(vec1(lambda x: (s_unary_f("abs", x, dt) if small(x) else z3.fpAbs(x)) if is_sym(x) else np.float32(abs(x)), a.obj()), odt)]
    if name == "sign":
        a = ins[0]
        dt = a.dtype
        if dt.kind == "i":
            n = bits(dt)
            return [SV(vec1(lambda x: z3.If(x > 0, z3.BitVecVal(1, n), z3.If(x < 0, z3.BitVecVal(-1, n), z3.BitVecVal(0, n))) if is_sym(x) else int(np.sign(x)), a.obj()), odt)]
        raise Unsupported("sign float")
    if name == "select_n":
        c, *cases = ins
        dt = cases[0].dtype
        arrs = np.broadcast_arrays(c.obj(), *[x.obj() for x in cases])
        cz = arrs[0]
        if c.dtype.kind == "b":
            assert len(cases) == 2
            return [SV(vec2(lambda ab, cc: ite(cc, ab[1], ab[0], dt),
                            pair(arrs[1], arrs[2]), cz), odt)]
        # integer selector
        out = np.empty(cz.shape, dtype=object)
        for idx in np.ndindex(*cz.shape):
            r = arrs[-1][idx]
            for k in range(len(cases) - 2, -1, -1):
                r = ite(s_cmp("eq", cz[idx], k, c.dtype), arrs[1 + k][idx], r, dt)
            out[idx] = r
        return [SV(out, odt)]
    if name == "clamp":
        lo, x, hi = ins
        dt = x.dtype
        L, X, H = np.broadcast_arrays(lo.obj(), x.obj(), hi.obj())
        t = vec2(lambda a, b: s_binop("max", a, b, dt), X, L)
        return [SV(vec2(lambda a, b: s_binop("min", a, b, dt), t, H), odt)]
    if name == "convert_element_type":
        a = ins[0]
        return [SV(vec1(lambda x: s_convert(x, a.dtype, odt), a.obj()), odt)]
    if name in ("copy", "copy_p", "device_put", "stop_gradient", "optimization_barrier"):
        return list(ins)
    if name == "broadcast_in_dim":
        a = ins[0]
        shape, bd = p["shape"], p["broadcast_dimensions"]
        src = a.obj()
        newshape = [1] * len(shape)
        for i, d in enumerate(bd):
            newshape[d] = src.shape[i]
        return [SV(np.broadcast_to(src.reshape(newshape), shape).copy(), odt)]
    if name == "reshape":
        return [SV(ins[0].obj().reshape(p["new_sizes"]), odt)]
    if name == "squeeze":
        return [SV(np.squeeze(ins[0].obj(), axis=tuple(p["dimensions"])), odt)]
    if name == "expand_dims":
        return [SV(np.expand_dims(ins[0].obj(), tuple(p["dimensions"])), odt)]
    if name == "transpose":
        return [SV(np.transpose(ins[0].obj(), p["permutation"]), odt)]
    if name == "rev":
        return [SV(np.flip(ins[0].obj(), axis=tuple(p["dimensions"])), odt)]
    if name == "slice":
        st, li, sr = p["start_indices"], p["limit_indices"], p["strides"] or [1] * len(p["start_indices"])
        sl = tuple(slice(a, b, c) for a, b, c in zip(st, li, sr))
        return [SV(ins[0].obj()[sl], odt)]
    if name == "concatenate":
        return [SV(np.concatenate([i.obj() for i in ins], axis=p["dimension"]), odt)]
    if name == "pad":
        a, pv = ins
        cfg = p["padding_config"]
        src = a.obj()
        pvv = pv.obj().reshape(-1)[0]
        if any(i != 0 for _, _, i in cfg) or any(l < 0 or h < 0 for l, h, _ in cfg):
            raise Unsupported("pad interior/negative")
        shape = tuple(l + s + h for (l, h, _), s in zip(cfg, src.shape))
        out = np.empty(shape, dtype=object)
        out.reshape(-1)[:] = [pvv] * out.size if out.size else []
        sl = tuple(slice(l, l + s) for (l, h, _), s in zip(cfg, src.shape))
        out[sl] = src
        return [SV(out, odt)]
    if name in ("reduce_sum", "reduce_max", "reduce_min", "reduce_and", "reduce_or", "reduce_prod", "reduce_xor"):
        a = ins[0]
        op = {"reduce_sum": "add", "reduce_max": "max", "reduce_min": "min", "reduce_and": "and", "reduce_or": "or",
              "reduce_prod": "mul", "reduce_xor": "xor"}[name]
        dt = a.dtype
        if a.a.size == 0:
            raise Unsupported("empty reduce")
        return [SV(fold_axes(lambda x, y: s_binop(op, x, y, dt), a.obj(), p["axes"]), odt)]
    if name in ("argmin", "argmax"):
        a = ins[0]
        (ax,) = p["axes"]
        dt = a.dtype
        A = np.moveaxis(a.obj(), ax, -1)
        out = np.empty(A.shape[:-1], dtype=object)
        cmpn = "lt" if name == "argmin" else "gt"
        for idx in np.ndindex(*A.shape[:-1]):
            row = A[idx]
            best, bi = row[0], 0
            for k in range(1, len(row)):
                c = s_cmp(cmpn, row[k], best, dt)
                best = ite(c, row[k], best, dt)
                bi = ite(c, k, bi, odt)
            out[idx] = bi
        return [SV(out, odt)]
    if name in ("cumsum", "cummax", "cummin", "cumprod"):
        a = ins[0]
        ax, rev = p["axis"], p["reverse"]
        op = {"cumsum": "add", "cummax": "max", "cummin": "min", "cumprod": "mul"}[name]
        dt = a.dtype
        A = np.moveaxis(a.obj(), ax, -1)
        out = np.empty(A.shape, dtype=object)
        for idx in np.ndindex(*A.shape[:-1]):
            row = A[idx][::-1] if rev else A[idx]
            acc = None
            res = []
            for x in row:
                acc = x if acc is None else s_binop(op, acc, x, dt)
                res.append(acc)
            if rev:
                res = res[::-1]
            for k, r in enumerate(res):
                out[idx + (k,)] = r
        return [SV(np.moveaxis(out, -1, ax), odt)]
    if name == "dynamic_slice":
        a, *starts = ins
        return [dyn_slice(ctx, a, starts, p["slice_sizes"], odt)]
    if name == "dynamic_update_slice":
        a, upd, *starts = ins
        return [dyn_update_slice(ctx, a, upd, starts, odt)]
    if name == "gather":
        return [gather(ctx, eqn, ins, odt)]
    if name in ("scatter", "scatter-add", "scatter_add"):
        return [scatter(ctx, eqn, ins, odt, add=(name != "scatter"))]
    if name == "sort":
        return sort_rule(ctx, eqn, ins)
    if name == "iota":
        raise AssertionError("iota is concrete")
    if name == "integer_pow":
        a = ins[0]
        y = p["y"]
        dt = a.dtype

        def ipow(x):
            r = x
            for _ in range(y - 1):
                r = s_binop("mul", r, x, dt)
            return r
        if y < 1:
            raise Unsupported("integer_pow y<1")
        return [SV(vec1(ipow, a.obj()), odt)]
    if name == "shift_right_logical":
        a, b = ins
        dt = a.dtype
        return [SV(vec2(lambda x, y: z3.LShR(to_z3(x, dt), to_z3(y, dt)), *np.broadcast_arrays(a.obj(), b.obj())), odt)]
    if name in ("sqrt", "exp", "log", "floor", "ceil", "log1p", "tanh", "logistic", "round", "is_finite") and ins[0].dtype == np.float32:
        a = ins[0]
        res = vec1(lambda x: s_unary_f(name, x, a.dtype), a.obj())
        if all(r is not None for r in res.reshape(-1)):
            return [SV(res, odt)]
    if name == "pow":
        a, b = ins
        A, B = np.broadcast_arrays(a.obj(), b.obj())

        def p(x, y):
            if small(x, y):
                def f(u, v):
                    with np.errstate(all="ignore"):
                        return np.float32(np.power(np.float32(u), np.array(v, dtype=b.dtype)))
                return tabulate(f, [x, y], [a.dtype, b.dtype], a.dtype)
            return None
        res = vec2(p, A, B)
        if all(r is not None for r in res.reshape(-1)):
            return [SV(res, odt)]
    if UF_MODE and name in ("sqrt", "floor", "ceil", "round", "exp", "log", "log1p", "tanh", "logistic", "rsqrt", "sin", "cos", "erf_inv") and ins[0].dtype == np.float32:
        return [SV(vec1(lambda x: uf_apply(name, [x], [np.float32], np.float32) if is_sym(x) else s_unary_f(name, x, np.float32), ins[0].obj()), odt)]
    if name == "sqrt" and ins[0].dtype == np.float32:
        return [SV(vec1(lambda x: z3.fpSqrt(RNE, x) if is_sym(x) else np.float32(np.sqrt(x)), ins[0].obj()), odt)]
    if name == "floor" and ins[0].dtype == np.float32:
        return [SV(vec1(lambda x: z3.fpRoundToIntegral(z3.RTN(), x) if is_sym(x) else np.float32(np.floor(x)), ins[0].obj()), odt)]
    if name == "is_finite":
        return [SV(vec1(lambda x: z3.Not(z3.Or(z3.fpIsNaN(x), z3.fpIsInf(x))) if is_sym(x) else bool(np.isfinite(x)), ins[0].obj()), odt)]
    if name == "dot_general":
        # sum over the contracting dims of the element products, accumulated sequentially in the output dtype
        # (XLA may associate a float sum differently: last-ulp differences, see sym.differential(ulps=))
        a, b = ins
        (ca, cb), (ba, bb) = p["dimension_numbers"]
        ca, cb, ba, bb = list(ca), list(cb), list(ba), list(bb)
        A = a.obj() if a.dtype == odt else vec1(lambda x: s_convert(x, a.dtype, odt), a.obj())
        B = b.obj() if b.dtype == odt else vec1(lambda x: s_convert(x, b.dtype, odt), b.obj())
        fa = [d for d in range(A.ndim) if d not in ca and d not in ba]
        fb = [d for d in range(B.ndim) if d not in cb and d not in bb]
        At, Bt = np.transpose(A, ba + fa + ca), np.transpose(B, bb + fb + cb)
        bsh, fash, fbsh, csh = At.shape[:len(ba)], At.shape[len(ba):len(ba) + len(fa)], Bt.shape[len(bb):len(bb) + len(fb)], At.shape[len(ba) + len(fa):]
        if int(np.prod(csh, dtype=np.int64)) == 0:
            raise Unsupported("dot_general with empty contraction")
        out = np.empty(tuple(bsh) + tuple(fash) + tuple(fbsh), dtype=object)
        for bi in np.ndindex(*bsh):
            for i in np.ndindex(*fash):
                for j in np.ndindex(*fbsh):
                    acc = None
                    for k in np.ndindex(*csh):
                        t = s_binop("mul", At[bi + i + k], Bt[bi + j + k], odt)
                        acc = t if acc is None else s_binop("add", acc, t, odt)
                    out[bi + i + j] = acc
        return [SV(out, odt)]
    # fallback: finite-domain tabulation or havoc
    return havoc(ctx, eqn, ins)


def pair(A, B):
    out = np.empty(A.shape, dtype=object)
    of, af, bf = out.reshape(-1), A.reshape(-1), B.reshape(-1)
    for i in range(of.size):
        of[i] = (af[i], bf[i])
    return out


def havoc(ctx, eqn, ins):
    """primitive without a rule: its outputs are fresh variables, memoised on the primitive, its parameters and the
    identity of its operands (an uninterpreted function), so two encodings of the same computation agree."""
    ctx.stats["havoc"].append(eqn.primitive.name)
    try:
        pk = str(sorted((k, str(v)) for k, v in eqn.params.items()))
    except Exception:  # noqa
        pk = str(id(eqn))
    mk = ("havoc", eqn.primitive.name, pk, tuple(keyid(i) for i in ins))
    if mk not in ctx.memo:
        ctx.memo[mk] = [ctx.fresh_arr("havoc_" + eqn.primitive.name, aval_shape(v.aval), np_dtype(v.aval)) for v in eqn.outvars]
    return ctx.memo[mk]


def clamp_idx(x, lo, hi, dt):
    """clamp scalar (py or z3) into [lo,hi]"""
    if not is_sym(x):
        return min(max(int(x), lo), hi)
    return x  # symbolic handled by ITE over range with <=/>= conditions


def index_cases(x, lo, hi, dt):
    """yield (cond, value) pairs covering clamp(x, lo, hi) for value in lo..hi"""
    if not is_sym(x):
        v = min(max(int(x), lo), hi)
        return [(True, v)]
    cases = []
    for v in range(lo, hi + 1):
        if lo == hi:
            c = True
        elif v == lo:
            c = s_cmp("le", x, lo, dt)
        elif v == hi:
            c = s_cmp("ge", x, hi, dt)
        else:
            c = s_cmp("eq", x, v, dt)
        cases.append((c, v))
    return cases


def select_cases(cases_list, build, dt):
    """cases_list: list over dims of [(cond, val)]; build(vals)->object array; returns merged object array"""
    result = None
    for combo in itertools.product(*cases_list):
        cond = True
        for c, _ in combo:
            cond = b_and(cond, c)
        arr = build([v for _, v in combo])
        if result is None:
            result = arr
        else:
            result = vec2(lambda x, y: ite(cond, x, y, dt), arr, result)
    return result


def dyn_slice(ctx, a, starts, sizes, odt):
    src = a.obj()
    cl = []
    for d, (s, sz) in enumerate(zip(starts, sizes)):
        x = s.obj().reshape(-1)[0]
        cl.append(index_cases(x, 0, src.shape[d] - sz, s.dtype))
    # order cases so that the *last* combo is the default; select_cases starts from first as base -> fine (conditions are exhaustive)
    res = select_cases(cl, lambda vs: src[tuple(slice(v, v + sz) for v, sz in zip(vs, sizes))].copy(), a.dtype)
    return SV(res, odt)


def dyn_update_slice(ctx, a, upd, starts, odt):
    src = a.obj()
    u = upd.obj()
    cl = []
    for d, s in enumerate(starts):
        x = s.obj().reshape(-1)[0]
        cl.append(index_cases(x, 0, src.shape[d] - u.shape[d], s.dtype))

    def build(vs):
        o = src.copy()
        o[tuple(slice(v, v + sz) for v, sz in zip(vs, u.shape))] = u
        return o
    return SV(select_cases(cl, build, a.dtype), odt)


def gather(ctx, eqn, ins, odt):
    operand, indices = ins
    p = eqn.params
    dn = p["dimension_numbers"]
    obd = tuple(getattr(dn, "operand_batching_dims", ()))
    sibd = tuple(getattr(dn, "start_indices_batching_dims", ()))
    slice_sizes = p["slice_sizes"]
    mode = str(p["mode"])
    fill = "FILL" in mode
    src = operand.obj()
    idx = indices.obj()
    batch_shape = idx.shape[:-1]
    k = idx.shape[-1]
    out_shape = aval_shape(eqn.outvars[0].aval)
    offset_dims = dn.offset_dims
    collapsed = dn.collapsed_slice_dims
    sim = dn.start_index_map
    slice_dims = [d for d in range(src.ndim) if d not in collapsed and d not in obd]
    slice_shape = tuple(slice_sizes[d] for d in slice_dims)
    tmp = np.empty(batch_shape + slice_shape, dtype=object)
    fillv = None
    if fill:
        fv = p["fill_value"]
        dt = operand.dtype
        if fv is None:
            fillv = np.float32(np.nan) if dt.kind == "f" else (True if dt.kind == "b" else (int(np.iinfo(dt).min) if dt.kind == "i" else int(np.iinfo(dt).max)))
        else:
            fillv = fv
    for b in np.ndindex(*batch_shape):
        cl = []
        inb = True
        for j in range(k):
            d = sim[j]
            x = idx[b + (j,)]
            hi = src.shape[d] - slice_sizes[d]
            if fill:
                # out of bounds -> whole slice filled
                c_in = b_and(s_cmp("ge", x, 0, indices.dtype), s_cmp("le", x, hi, indices.dtype))
                inb = b_and(inb, c_in)
            else:
                if is_sym(x):
                    ctx.oob.append(("gather", z3.Or(s_cmp("lt", x, 0, indices.dtype), s_cmp("gt", x, hi, indices.dtype))))
            cl.append(index_cases(x, 0, hi, indices.dtype))

        def build(vs, b=b):
            start = [0] * src.ndim
            for j, v in enumerate(vs):
                start[sim[j]] = v
            for od, idd in zip(obd, sibd):
                start[od] = b[idd]
            sl = tuple(slice(start[d], start[d] + slice_sizes[d]) for d in range(src.ndim))
            piece = src[sl]
            sq = tuple(collapsed) + obd
            return np.squeeze(piece, axis=sq).copy() if sq else piece.copy()
        piece = select_cases(cl, build, operand.dtype)
        if fill and inb is not True:
            piece = vec1(lambda x: ite(inb, x, fillv, operand.dtype), piece)
        if piece.ndim == 0:
            tmp[b] = piece[()]
        else:
            tmp[b] = piece
    # arrange dims: output dims = batch dims (in order) interleaved with offset dims
    nb = len(batch_shape)
    perm = []
    bi, oi = 0, 0
    for d in range(len(out_shape)):
        if d in offset_dims:
            perm.append(nb + offset_dims.index(d))
        else:
            perm.append(bi)
            bi += 1
    out = np.transpose(tmp, perm)
    return SV(out, odt)


# opt-in (process-wide, set by a harness): compact encoding of scatter, see below.  Default off so that other harnesses'
# term shapes / timings are untouched.
COMPACT_SCATTER = False


def scatter(ctx, eqn, ins, odt, add):
    operand, indices, updates = ins
    p = eqn.params
    dn = p["dimension_numbers"]
    obd = tuple(getattr(dn, "operand_batching_dims", ()))
    sibd = tuple(getattr(dn, "scatter_indices_batching_dims", ()))
    mode = str(p["mode"])
    drop = "FILL_OR_DROP" in mode
    src = operand.obj().copy()
    idx = indices.obj()
    upd = updates.obj()
    uwd = dn.update_window_dims
    iwd = dn.inserted_window_dims
    sdod = dn.scatter_dims_to_operand_dims
    k = idx.shape[-1]
    batch_shape = idx.shape[:-1]
    # bring updates to layout batch_shape + window_shape
    ub = [d for d in range(upd.ndim) if d not in uwd]
    U = np.transpose(upd, ub + list(uwd))
    window_dims_operand = [d for d in range(src.ndim) if d not in iwd and d not in obd]
    wshape_full = [1] * src.ndim
    for wd, od in zip(range(len(uwd)), window_dims_operand):
        wshape_full[od] = U.shape[len(ub) + wd]
    dt = operand.dtype
    for b in np.ndindex(*batch_shape):
        Ub = np.asarray(U[b], dtype=object).reshape(wshape_full) if isinstance(U[b], np.ndarray) else np.array([U[b]], dtype=object).reshape(wshape_full)
        cl = []
        inb = True
        for j in range(k):
            d = sdod[j]
            x = idx[b + (j,)]
            hi = src.shape[d] - wshape_full[d]
            c_in = b_and(s_cmp("ge", x, 0, indices.dtype), s_cmp("le", x, hi, indices.dtype))
            if drop:
                inb = b_and(inb, c_in)
            elif is_sym(x):
                ctx.oob.append(("scatter", b_not(c_in)))
            cl.append(index_cases(x, 0, hi, indices.dtype))
        if inb is False:
            continue

        def build(vs, b=b, Ub=Ub):
            o = src.copy()
            start = [0] * src.ndim
            for j, v in enumerate(vs):
                start[sdod[j]] = v
            for od, idd in zip(obd, sibd):
                start[od] = b[idd]
            sl = tuple(slice(start[d], start[d] + wshape_full[d]) for d in range(src.ndim))
            if add:
                o[sl] = vec2(lambda x, y: s_binop("add", x, y, dt), o[sl], Ub)
            else:
                o[sl] = Ub
            return o
        if COMPACT_SCATTER:
            # same semantics (the clamped start cases are mutually exclusive), but a cell is only wrapped by the start
            # combinations whose window covers it: board.at[r, c].set(v) becomes cell(i,j) = ite(r==i & c==j, v, old) instead
            # of an ite chain over all rows*cols start positions per cell
            new = src.copy()
            for combo in itertools.product(*cl):
                cond = True
                for c, _ in combo:
                    cond = b_and(cond, c)
                start = [0] * src.ndim
                for j, (_, v) in enumerate(combo):
                    start[sdod[j]] = v
                for od, idd in zip(obd, sibd):
                    start[od] = b[idd]
                sl = tuple(slice(start[d], start[d] + wshape_full[d]) for d in range(src.ndim))
                val = vec2(lambda x, y: s_binop("add", x, y, dt), src[sl], Ub) if add else Ub
                new[sl] = vec2(lambda x, y: ite(cond, x, y, dt), np.asarray(val, dtype=object), new[sl])
        else:
            new = select_cases(cl, build, dt)
        if inb is not True:
            new = vec2(lambda x, y: ite(inb, x, y, dt), new, src)
        src = new
    return SV(src, odt)


# the implied lemmas below are asserted facts: every query of the job pays for satisfying them even when its goal does not
# look at the sorted values (Sudoku: 27 nine-element sorts inside the reward, measured 10 s per otherwise trivial query).
# A harness whose goals never need them may switch them off (process-wide; each job runs in its own process).
SORT_LEMMAS = True


def sort_rule(ctx, eqn, ins):
    p = eqn.params
    dim, nk = p["dimension"], p["num_keys"]
    arrs = [np.moveaxis(i.obj(), dim, -1) for i in ins]
    n = arrs[0].shape[-1]
    outs = [np.empty(a.shape, dtype=object) for a in arrs]
    for idx in np.ndindex(*arrs[0].shape[:-1]):
        rows = [a[idx] for a in arrs]

        def less(i, j):
            # lexicographic on keys, stable (i<j tie-break)
            r = (i < j)
            for kk in range(nk - 1, -1, -1):
                dt = ins[kk].dtype
                lt = s_cmp("lt", rows[kk][i], rows[kk][j], dt)
                eq = s_cmp("eq", rows[kk][i], rows[kk][j], dt)
                r = b_or(lt, b_and(eq, r))
            return r
        # rank_i = number of j with less(j,i)
        nb = max(1, (n).bit_length())
        ranks = []
        for i in range(n):
            cnt = 0
            for j in range(n):
                if j == i:
                    continue
                c = less(j, i)
                if is_sym(c):
                    cz = z3.If(c, z3.BitVecVal(1, 8), z3.BitVecVal(0, 8))
                    cnt = cz + cnt if is_sym(cnt) else (cz + z3.BitVecVal(cnt, 8) if cnt else cz)
                else:
                    cnt = cnt + int(c)
            ranks.append(cnt)
        perm_cond = None
        # implied lemma (a tautology of the definitions above, stated to spare the solver a pigeonhole argument): unless
        # a float key is NaN, `less` is a strict total order, so the ranks are a permutation of 0..n-1, i.e. every rank
        # value is taken by some element (otherwise the output chains below fall through to their last operand)
        if SORT_LEMMAS and n > 2 and any(is_sym(r) for r in ranks) and not any((not is_sym(x)) and x != x for kk in range(nk) for x in rows[kk]):
            nonan = [z3.Not(z3.fpIsNaN(x)) for kk in range(nk) if ins[kk].dtype.kind == "f" for x in rows[kk] if is_sym(x)]
            taken = [z3.Or([(ranks[i] == z3.BitVecVal(r, 8)) if is_sym(ranks[i]) else z3.BoolVal(ranks[i] == r) for i in range(n)]) for r in range(n)]
            ctx.assumptions.append(z3.Implies(z3.And(nonan), z3.And(taken)) if nonan else z3.And(taken))
            perm_cond = z3.And(nonan) if nonan else z3.BoolVal(True)
        for o, rows_o, inp in zip(outs, rows, ins):
            for r in range(n):
                val = rows_o[n - 1]
                for i in range(n - 2, -1, -1):
                    c = (ranks[i] == r)
                    if is_sym(ranks[i]):
                        c = ranks[i] == z3.BitVecVal(r, 8)
                    val = ite(c, rows_o[i], val, inp.dtype)
                o[idx + (r,)] = val
            # second implied lemma: the output row is a permutation of the input row, so a concrete row of pairwise
            # distinct integers (the iota operand of argsort) yields pairwise distinct outputs
            if perm_cond is not None and inp.dtype.kind in "iu" and all(not is_sym(x) for x in rows_o) and len(set(int(x) for x in rows_o)) == n:
                ctx.assumptions.append(z3.Implies(perm_cond, z3.Distinct(*[to_z3(o[idx + (r,)], inp.dtype) for r in range(n)])))
    return [SV(np.moveaxis(o, -1, dim), i.dtype) for o, i in zip(outs, ins)]


# ---------------------------------------------------------------- stubs for jax.random
def _operand_layout(inner, k, out_rank):
    """How operand k of a jax.random sampler pjit is broadcast to the output: list m (len out_rank) with m[d] = operand dim
    feeding output dim d (or None).  Read off the sampler's own broadcast_in_dim equations, so batched (vmap) and unbatched
    per-element bounds are told apart (their shapes alone can be ambiguous)."""
    v0 = inner.invars[k]
    lay = {v0: list(range(len(v0.aval.shape)))}
    if len(v0.aval.shape) == out_rank:
        return lay[v0]
    for e in inner.eqns:
        n = e.primitive.name
        src = None
        for v in e.invars:
            if not isinstance(v, jax.core.Literal) and v in lay:
                src = v
                break
        if src is None:
            continue
        out = e.outvars[0]
        if n == "convert_element_type" or (n == "pjit" and e.params.get("name") == "clip" and e.invars[0] is src):
            lay[out] = lay[src]
        elif n == "broadcast_in_dim":
            bd, shape = e.params["broadcast_dimensions"], e.params["shape"]
            new = [None] * len(shape)
            for i, d in enumerate(bd):
                new[d] = lay[src][i]
            lay[out] = new
        else:
            continue
        if len(lay[out]) == out_rank:
            return lay[out]
    return None


def _bcast_operand(inner, k, operand, oshape):
    src = operand.obj()
    if src.ndim == 0:
        return np.broadcast_to(src, oshape)
    m = _operand_layout(inner, k, len(oshape))
    if m is None:
        if src.shape == tuple(oshape):
            return src
        try:
            return np.broadcast_to(src, oshape)
        except ValueError:
            return np.broadcast_to(src.reshape(src.shape + (1,) * (len(oshape) - src.ndim)), oshape)
    out = np.empty(oshape, dtype=object)
    for idx in np.ndindex(*oshape):
        op = [0] * src.ndim
        for d, j in enumerate(m):
            if j is not None:
                op[j] = idx[d] if src.shape[j] != 1 else 0
        out[idx] = src[tuple(op)]
    return out


def _lane_stub(kind):
    def stub(ctx, eqn, ins):
        key, minval, maxval = ins[0], ins[1], ins[2]
        v = eqn.outvars[0]
        oshape, dt = aval_shape(v.aval), np_dtype(v.aval)
        keys = key.obj()
        kshape = keys.shape[:-1]          # batch dims added by vmap (usually ())
        lane_shape = oshape[len(kshape):]
        out = np.empty(oshape, dtype=object)
        inner = eqn.params["jaxpr"].jaxpr
        lo = _bcast_operand(inner, 1, minval, oshape)
        hi = _bcast_operand(inner, 2, maxval, oshape)
        for b in np.ndindex(*kshape):
          def leaf(lane, b=b):
            mk = (kind, _lane_id(lane), lane_shape, str(dt), _lane_id(lo[b] if lane_shape else lo[b:b + 1] if False else np.asarray(lo[b], dtype=object)),
                  _lane_id(np.asarray(hi[b], dtype=object)))
            new = mk not in ctx.memo
            if new:
                ctx.memo[mk] = ctx.fresh_arr(kind, lane_shape, dt).a
            blk = ctx.memo[mk]
            if new:
                for i in np.ndindex(*lane_shape):
                    x = blk[i]
                    l = s_convert(lo[b + i], minval.dtype, dt)
                    h = s_convert(hi[b + i], maxval.dtype, dt)
                    # jax.random contract: minval <= x < maxval; degenerate range (maxval <= minval) returns minval
                    proper = s_cmp("lt", l, h, dt)
                    inside = b_and(s_cmp("ge", x, l, dt), s_cmp("lt", x, h, dt))
                    degenerate = s_cmp("eq", x, l, dt)
                    ctx.assumptions.append(to_z3(b_or(b_and(proper, inside), b_and(b_not(proper), degenerate)), np.bool_))
                    if dt.kind == "f" and is_sym(x):
                        ctx.assumptions.append(z3.Not(z3.fpIsNaN(x)))
                    lv, hv = vs_of(l), vs_of(h)
                    if dt.kind in "iu" and lv is not None and hv is not None and is_sym(x):
                        lo_i, hi_i = min(lv), max(max(hv) - 1, max(lv))
                        if hi_i - lo_i < VS_MAX:
                            vs_set(x, list(range(lo_i, hi_i + 1)))
            return blk
          blk_ = _lane_apply(_key_cases(keys[b]), leaf, dt)
          out[b] = blk_ if lane_shape else blk_[()]
        return [SV(out, dt)]
    return stub


stub_randint = _lane_stub("randint")
stub_uniform = _lane_stub("uniform")


def stub_shuffle(ctx, eqn, ins):
    """DESIGN 1.4: pjit[name=_shuffle](key, x) -> x[pi] with pi an ARBITRARY permutation (in range, Distinct), memoised on
    the key.  Over-approximates the one-round sort-by-random-bits implementation (whose rank encoding makes
    'the drawn cells are distinct' a pigeonhole query: Connector 4x4 reset unknown at 120 s).  Only the unbatched 1-D
    case is stubbed; any other shape falls back to executing the implementation symbolically."""
    if len(ins) != 2:
        return None
    key, x = ins
    kshape = tuple(key.shape[:-1])          # () or the batch dims added by vmap
    oshape = aval_shape(eqn.outvars[0].aval)
    if len(kshape) > 1 or len(oshape) != len(kshape) + 1:
        ctx.stats.setdefault("stub_fallback", []).append("_shuffle" + str((key.shape, x.shape)))
        return None
    n, dt = oshape[-1], x.dtype
    if not ((x.a.ndim == 1 and x.shape == (n,)) or (kshape and tuple(x.shape) == tuple(oshape))):
        ctx.stats.setdefault("stub_fallback", []).append("_shuffle" + str((key.shape, x.shape)))
        return None
    keys = key.obj()
    outs = np.empty(oshape, dtype=object)
    for b in (np.ndindex(*kshape) if kshape else [()]):
        def leaf_pi(lane):
            mk = ("shuffle", _lane_id(lane), n)
            if mk not in ctx.memo:
                pi_ = ctx.fresh_arr("shuffle_pi", (n,), np.int32, 0, n - 1).a
                if n > 1:
                    ctx.assumptions.append(z3.Distinct(*[to_z3(p, np.int32) for p in pi_]))
                ctx.memo[mk] = pi_
            return ctx.memo[mk]
        pi = _lane_apply(_key_cases(keys[b] if kshape else keys), leaf_pi, np.int32)
        xo = x.obj() if x.a.ndim == 1 else x.obj()[b]
        xc = x.a if (x.conc and x.a.ndim == 1) else (x.a[b] if x.conc else None)
        ident = xc is not None and dt.kind in "iu" and np.array_equal(xc, np.arange(n))
        for r in range(n):
            if ident:
                outs[b + (r,)] = s_convert(pi[r], np.int32, dt)
                continue
            val = xo[n - 1]
            for i_ in range(n - 2, -1, -1):
                val = ite(s_cmp("eq", pi[r], i_, np.int32), xo[i_], val, dt)
            outs[b + (r,)] = val
    return [SV(outs, dt)]


def stub_gumbel(ctx, eqn, ins):
    """DESIGN 1.4: pjit[name=_gumbel](key) -> fresh FINITE float32 per element (the implementation is
    -log(-log(uniform[tiny,1))), always finite), memoised per key lane."""
    v = eqn.outvars[0]
    oshape, dt = aval_shape(v.aval), np_dtype(v.aval)
    if len(ins) != 1 or dt != np.float32:
        return None
    keys = ins[0].obj()
    kshape = keys.shape[:-1]
    lane_shape = oshape[len(kshape):]
    out = np.empty(oshape, dtype=object)
    for b in np.ndindex(*kshape):
        def leaf_g(lane):
            mk = ("gumbel", _lane_id(lane), lane_shape)
            if mk not in ctx.memo:
                blk = ctx.fresh_arr("gumbel", lane_shape, dt).a
                for x in blk.reshape(-1):
                    ctx.assumptions.append(z3.Not(z3.Or(z3.fpIsNaN(x), z3.fpIsInf(x))))
                ctx.memo[mk] = blk
            return ctx.memo[mk]
        blk_ = _lane_apply(_key_cases(keys[b]), leaf_g, dt)
        out[b] = blk_ if lane_shape else blk_[()]
    return [SV(out, dt)]


STUBS = {"_randint": stub_randint, "_uniform": stub_uniform, "_shuffle": stub_shuffle, "_gumbel": stub_gumbel}


# ---------------------------------------------------------------- front end
def sym_call(fn, args_tree, ctx=None):
    """args_tree: pytree whose leaves are SV; returns (out_tree of SV, ctx)"""
    ctx = ctx or Ctx()
    leaves, treedef = jax.tree_util.tree_flatten(args_tree, is_leaf=lambda x: isinstance(x, SV))
    shapes = [jax.ShapeDtypeStruct(l.shape, l.dtype) for l in leaves]
    closed, out_shape = jax.make_jaxpr(lambda *ls: fn(*jax.tree_util.tree_unflatten(treedef, ls)), return_shape=True)(*shapes)
    ctx.last_closed = closed
    outs = eval_jaxpr(ctx, closed.jaxpr, closed.consts, leaves)
    out_tree = jax.tree_util.tree_unflatten(jax.tree_util.tree_structure(out_shape), outs)
    return out_tree, ctx

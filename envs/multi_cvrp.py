"""MultiCVRP harness (bounded unrolling from a symbolic instance, DESIGN 1.7 / C06 / C08).

Rules (docs/environments/multi_cvrp.md, class docstring, comments in env._update_state): node 0 is the depot, nodes 1..N
customers with integer demands; every vehicle picks its next node.  A customer is legal for a vehicle iff its demand is
non-zero (not served yet) and not larger than the vehicle's remaining capacity; the depot is always legal and refills
the capacity.  A selection that is not legal 'is zeroed', i.e. the vehicle is sent to the depot; if several vehicles pick
the same customer only one of them goes there (the code keeps the lowest vehicle index; the comment does not say which)
and the others are sent to the depot.  A served customer's demand becomes 0.  The episode ends when all demands are 0
and all vehicles are at the depot, or when step_count exceeds 2*num_customers.  Dense reward: minus the distance
travelled by all vehicles this step minus the soft-time-window penalties incurred this step; sparse: minus total
distance minus total penalties at the end.  On the step-limit branch the docs only say 'a large negative reward': no
value is claimed there.

Instance (config 'MultiCVRP@N6V2~k', 6 customers / 2 vehicles): coordinates, time windows and penalty coefficients are those of the real reset for
PRNGKey(VERIF_SEED+k) (distances go through sqrt); customer demands (0..customer_demand_max), vehicle capacities
(0..max_capacity) and the step counter (one of 1, 2N-1, 2N: vehicles may have idled at the depot) are symbolic; vehicles start at the
depot with zero local time / distance / penalty accumulators and an all-depot `order` history, k symbolic joint actions
follow.  The action spec admits num_customers+1 (a node that does not exist): all obligations except one dedicated
C05 obligation are stated for actions 0..num_customers."""
import math

import numpy as np

from engine import sym as S
from engine import vexpr as X
from engine.jx2smt import SV
from engine.vexpr import V, vs, where, all_, any_, pick, count, sum_
from envs import _instances as I
from envs.base import Harness, register

F32 = np.float32
I16 = np.int16
TOL = 1e-4      # absolute reward tolerance: float32 differences of accumulated sums (magnitudes up to ~100 on the 10x10 map)


def _sparse_factory():
    return "sparse"


@register
class MultiCVRPH(Harness):
    ENV = "MultiCVRP"
    QUICK = ["MultiCVRP@N6V2~0", "MultiCVRP@N6V2~1", "MultiCVRP@N6V2~2", "MultiCVRP@N6V2~3"]
    THOROUGH = [f"MultiCVRP@N6V2~{k}" for k in range(4, 8)]
    BMC = True
    BMC_DEPTH = {"quick": 2, "thorough": 3}
    C11_HORIZON_EXTRA = ["MultiCVRP@N6V3~0"]     # three vehicles: the documented horizon is 2*num_customers whatever the fleet size
    INVALID = "ignore"            # an illegal selection does not end the episode: the vehicle is sent to the depot
    REWARD_VARIANTS = [{"steps": "start"}, {"reward": "sparse", "steps": "start"}]
    DIFF_ULPS = 16
    MULTI_DISCRETE = False

    def __init__(self, cfg, **over):
        base_cfg, self.inst = I.split_cfg(cfg)
        over = dict(over)
        self.sparse = over.pop("reward", None) == "sparse"
        # C08 variants start at step_count == 1 (concrete): no reward value is claimed on the step-limit branch, and with a symbolic
        # counter the undetermined `worst_case_remaining_reward` expression would have to be bit-blasted in every reward query
        self.from_start = over.pop("steps", None) == "start"
        super().__init__(base_cfg, **over)
        self.cfg = cfg
        self.over = ({"reward": "sparse"} if self.sparse else {}) | ({"steps": "start"} if self.from_start else {})
        e = self.env
        self.N, self.Vn = e._num_customers, e._num_vehicles
        self.maxcap, self.maxdem = int(e._max_capacity), int(e._customer_demand_max)
        if self.sparse:
            from jumanji.environments.routing.multi_cvrp.reward import SparseReward
            e._reward_fn = SparseReward(self.Vn, self.N, e._map_max)
        self.limit = 2 * self.N
        self.s0 = I.reset_state(e, self.inst or 0)
        self.D = I.dist_matrix(self.s0.nodes.coordinates)
        self.Dtab = I.ftab(self.D.astype(F32))

    # ------------------------------------------------------------------ symbolic instance
    def bmc_init(self, ctx):
        from jumanji.environments.routing.multi_cvrp.types import Node, PenalityCoeff, State, StateVehicle, TimeWindow
        from jumanji.environments.routing.multi_cvrp.utils import create_action_mask
        N, Vn, s0 = self.N, self.Vn, self.s0
        c = lambda x: SV(np.asarray(x), np.asarray(x).dtype)  # noqa
        cust = ctx.fresh_arr("S.demands", (N,), I16, 0, self.maxdem)
        demands = SV(np.concatenate([np.array([0], dtype=object), cust.a]), I16)
        caps = ctx.fresh_arr("S.capacities", (Vn,), I16, 0, self.maxcap)
        if self.from_start:
            step = SV(np.asarray(1, I16), I16)
        else:
            step = ctx.fresh_arr("S.step_count", (), I16, 1, self.limit)
        # the start (1) and the two values next to the step limit; keeps most `order` slots concrete
        import z3
        from engine import jx2smt as J
        if not self.from_start:
            x = step.a[()]
            ctx.assumptions.append(z3.Or([x == v for v in (1, self.limit - 1, self.limit)]))
            J.vs_set(x, [1, self.limit - 1, self.limit])
        mask = S.call(ctx, create_action_mask, demands, caps)     # cached field; C04 proves it equal to the rule (reset obligation)
        st = State(nodes=Node(coordinates=c(s0.nodes.coordinates), demands=demands),
                   windows=TimeWindow(start=c(s0.windows.start), end=c(s0.windows.end)),
                   coeffs=PenalityCoeff(early=c(s0.coeffs.early), late=c(s0.coeffs.late)),
                   vehicles=StateVehicle(local_times=c(np.zeros(Vn, F32)), positions=c(np.zeros(Vn, I16)), capacities=caps,
                                         distances=c(np.zeros(Vn, F32)), time_penalties=c(np.zeros(Vn, F32))),
                   order=c(np.zeros((Vn, 2 * N), I16)), step_count=step, action_mask=mask, key=ctx.fresh_arr("S.key", (2,), np.uint32))
        return st, []

    def bmc_first_timestep(self, ctx, st0):
        from jumanji.types import restart
        env = self.env
        return S.call(ctx, lambda s: restart(observation=env._state_to_observation(s)), st0)

    # ------------------------------------------------------------------ rules
    def mask_rule(self, st):
        dem, cap = vs(st.nodes.demands), vs(st.vehicles.capacities)
        out = np.empty((self.Vn, self.N + 1), dtype=object)
        for v in range(self.Vn):
            out[v, 0] = X.TRUE
            for c in range(1, self.N + 1):
                out[v, c] = (dem[c] > 0) & (dem[c] <= cap[v])
        return out

    def allowed_by(self, mask, act):
        mask = np.asarray(mask, dtype=object)
        a = vs(act)
        return [pick(mask[v], a[v], default=X.FALSE) for v in range(self.Vn)]       # num_customers+1 has no mask entry

    def _inr(self, act):
        return [x <= self.N for x in vs(act)]

    def _sane(self, st):
        """the pre-state has not been corrupted by an earlier num_customers+1 selection (position / route entry N+1)"""
        return all_([p <= self.N for p in vs(st.vehicles.positions)] + [o <= self.N for o in vs(st.order).reshape(-1)])

    def _dom(self, st, act):
        return self._sane(st) & all_(self._inr(act))

    def _next(self, st, act):
        """reference destination of every vehicle: own selection if legal and no lower-index vehicle legally selected the
        same customer, else the depot"""
        legal = self.action_legal(st, act)
        a = vs(act)
        cand = [where(legal[v], a[v], 0, I16) for v in range(self.Vn)]
        nxt = []
        for v in range(self.Vn):
            clash = any_([(cand[u] == cand[v]) for u in range(v)])
            nxt.append(where(clash, 0, cand[v], I16))
        return nxt

    def treated_invalid(self, st, act, ns, ts):
        """the vehicle asked for a customer and was sent to the depot instead.  Claimed only for in-range selections that
        no other vehicle makes as well (conflict resolution between two legal selections is not a per-agent legality matter:
        the mask is documented as the 'marginal action mask for each vehicle')."""
        a, p1 = vs(act), vs(ns.vehicles.positions)
        inr = self._dom(st, act)
        legal = self.action_legal(st, act)
        out = []
        for v in range(self.Vn):
            alone = all_([a[u] != a[v] for u in range(self.Vn) if u != v])
            redirected = (a[v] != 0) & (p1[v] == 0)
            # outside the claimed domain the entry is made equal to 'rule forbids' so that C04's iff is trivially true there
            out.append(where(inr & alone, redirected, ~legal[v], X.BOOL))
        return out

    def illegal_effect(self, st, act, ns, ts, bad):
        a = vs(act)
        dem0, dem1 = vs(st.nodes.demands), vs(ns.nodes.demands)
        p1, c1 = vs(ns.vehicles.positions), vs(ns.vehicles.capacities)
        inr = self._inr(act)
        ob = []
        for v in range(self.Vn):
            b = bad[v] & inr[v] & self._sane(st)
            ob.append((f"vehicle{v}: illegal customer selection => sent to the depot with refilled capacity", b.implies((p1[v] == 0) & (c1[v] == self.maxcap))))
            others = any_([p1[u] == a[v] for u in range(self.Vn) if u != v])
            ob.append((f"vehicle{v}: illegal selection collects nothing (the customer's demand changes only if another vehicle serves it)",
                       b.implies((pick(dem1, a[v], default=0) == pick(dem0, a[v], default=0)) | others)))
        ob.append(("in-spec selection num_customers+1 (a node that does not exist; no mask entry) is handled like any illegal selection: vehicle sent to the depot",
                   all_([(a[v] == self.N + 1).implies((p1[v] == 0) & (c1[v] == self.maxcap)) for v in range(self.Vn)])))
        return ob

    # ------------------------------------------------------------------ C06
    def _served(self, st, c):
        """number of times customer c appears in the recorded routes order[:, :step_count] of all vehicles"""
        order, sc = vs(st.order), vs(st.step_count)
        return count([(sc > t) & (order[v, t] == c) for v in range(self.Vn) for t in range(order.shape[1])])

    def constraints(self, st):
        cap, dem = vs(st.vehicles.capacities), vs(st.nodes.demands)
        ob = [("vehicle load never exceeds capacity (remaining capacity in [0, max_capacity])", all_([(x >= 0) & (x <= self.maxcap) for x in cap]))]
        ob.append(("no customer is served twice (appears at most once in the recorded routes, and then its demand is 0)",
                   all_([(self._served(st, c) <= 1) & ((self._served(st, c) == 1).implies(dem[c] == 0)) for c in range(1, self.N + 1)])))
        return ob

    def complete(self, st, ts):
        dem, pos = vs(st.nodes.demands), vs(st.vehicles.positions)
        done = all_([d == 0 for d in dem]) & all_([p == 0 for p in pos])
        # (a step-limit LAST is not a completion; `done` is recomputed from the raw arrays)
        return done, [("every demand is served and all vehicles are back at the depot", done)] + self.constraints(st)

    # ------------------------------------------------------------------ C08
    def _penalty(self, lt, node):
        """soft time window penalty of arriving at `node` at local time lt (float32 V arithmetic, documented formula)"""
        s0 = self.s0
        ws, we = pick(I.ftab(s0.windows.start), node, default=I.fconst(0)), pick(I.ftab(s0.windows.end), node, default=I.fconst(0))
        ce, cl = pick(I.ftab(s0.coeffs.early), node, default=I.fconst(0)), pick(I.ftab(s0.coeffs.late), node, default=I.fconst(0))
        early = where(lt < ws, (ws - lt) * ce, I.fconst(0), F32)
        late = where(lt > we, (lt - we) * cl, I.fconst(0), F32)
        return early + late

    def _route_totals(self, st):
        """(distance, penalty) per vehicle recomputed from the recorded route order[v, :step_count] alone"""
        order, sc = vs(st.order), vs(st.step_count)
        T = order.shape[1]
        out = []
        for v in range(self.Vn):
            dist, pen = I.fconst(0), I.fconst(0)
            for t in range(1, T):
                on = sc > t
                d = pick(self.Dtab, order[v, t - 1], order[v, t], default=I.fconst(0))
                dist = where(on, dist + d, dist, F32)
                pen = where(on, pen + self._penalty(dist, order[v, t]), pen, F32)
            out.append((dist, pen))
        return out

    def _phi(self, st):
        """documented objective of the partial solution held in the state: -(total distance) - (total time penalties),
        summed in the association the reward functions use (so that the float32 identity below is exact)"""
        d, p = vs(st.vehicles.distances), vs(st.vehicles.time_penalties)
        fold = lambda xs: xs[0] if len(xs) == 1 else fold(xs[:-1]) + xs[-1]  # noqa  (x0 + x1) + x2 ..., no leading 0.0
        return fold(list(d)), fold(list(p))

    @staticmethod
    def _fneg(v):
        """-v with the term shape the interpreter gives a float negation (so that identical formulas are identical terms)"""
        import z3
        from engine import jx2smt as J
        if v.conc:
            return V(F32(-v.x), F32)
        return V(J.s_unary_f("neg", v.x, F32) if J.small(v.x) else z3.fpNeg(v.x), F32)

    @staticmethod
    def _near(x, want, tol=TOL):
        """x == want bit for bit (decided syntactically when both are the same term) or within the absolute tolerance"""
        return X.biteq(x, want) | I.within(x, want - F32(tol), want + F32(tol))

    def reward_law(self, st, act, ns, ts, legal):
        r = vs(ts.reward)
        dom = self._dom(st, act)
        pos, lt = vs(st.vehicles.positions), vs(st.vehicles.local_times)
        nxt = self._next(st, act)
        limit = (vs(st.step_count) + 1) > self.limit
        last = vs(ts.step_type) == 2
        (D0, P0), (D1, P1) = self._phi(st), self._phi(ns)
        ob = []
        if not self.sparse:
            want = (D0 - D1) + (P0 - P1)
            ob.append(("dense: reward == Phi(S') - Phi(S), Phi = -(sum of vehicle distances) - (sum of vehicle time penalties) of the state (within 1e-4)",
                       (dom & ~limit).implies(self._near(r, want))))
        else:
            want = self._fneg(D1) - P1
            ob.append(("sparse: reward == [LAST] * Phi(S') (within 1e-4), 0 before",
                       (dom & ~limit).implies(where(last, self._near(r, want), r == F32(0), X.BOOL))))
        # the accumulators behind Phi advance by this step's documented terms (independent float64 distances, documented penalty formula)
        d0, d1 = vs(st.vehicles.distances), vs(ns.vehicles.distances)
        p0, p1 = vs(st.vehicles.time_penalties), vs(ns.vehicles.time_penalties)
        lt1 = vs(ns.vehicles.local_times)
        for v in range(self.Vn):
            d = pick(self.Dtab, pos[v], nxt[v], default=I.fconst(0))
            ob.append((f"vehicle{v}: distance and local time advance by d(position, destination) (within 1e-4)",
                       dom.implies(self._near(d1[v], d0[v] + d) & self._near(lt1[v], lt[v] + d))))
            # arrival time = the new local time of S' (tied to local_time + d by the obligation above)
            ob.append((f"vehicle{v}: time penalty advances by the soft-window penalty of arriving at the new local time (within 1e-4)",
                       dom.implies(self._near(p1[v], p0[v] + self._penalty(lt1[v], nxt[v])))))
        # Phi recomputed from the raw route history: the accumulators of S' equal the length / penalties of the recorded routes
        rec = (vs(ns.step_count) <= self.limit) & dom      # the last write into `order` is dropped beyond the array
        tots = self._route_totals(ns)
        for v in range(self.Vn):
            ob.append((f"vehicle{v}: accumulated distance of S' == length of its recorded route (within 1e-4)", rec.implies(self._near(d1[v], tots[v][0]))))
            ob.append((f"vehicle{v}: accumulated time penalty of S' == penalties along its recorded route (within 1e-4)", rec.implies(self._near(p1[v], tots[v][1]))))
        return ob

    # ------------------------------------------------------------------ C09
    def ref_step(self, st, act):
        N, Vn = self.N, self.Vn
        dem, cap, sc, order = vs(st.nodes.demands), vs(st.vehicles.capacities), vs(st.step_count), vs(st.order)
        nxt = self._next(st, act)
        ncap = np.array([where(nxt[v] == 0, self.maxcap, cap[v] - pick(dem, nxt[v], default=0), I16) for v in range(Vn)], dtype=object)
        ndem = np.array([where(any_([nxt[v] == c for v in range(Vn)]), 0, dem[c], I16) for c in range(N + 1)], dtype=object)
        nord = order.copy()
        for v in range(Vn):
            nord[v] = X.put(order[v], sc, nxt[v])
        nsc = sc + 1
        nmask = np.empty((Vn, N + 1), dtype=object)
        for v in range(Vn):
            nmask[v, 0] = X.TRUE
            for c in range(1, N + 1):
                nmask[v, c] = (ndem[c] > 0) & (ndem[c] <= ncap[v])
        done = (all_([d == 0 for d in ndem]) & all_([x == 0 for x in nxt])) | (nsc > self.limit)
        return {"_when": self._dom(st, act), "_when_last": self._dom(st, act), "last": done,
                "nodes.demands": ndem, "vehicles.positions": np.array(nxt, dtype=object), "vehicles.capacities": ncap, "order": nord,
                "step_count": nsc, "action_mask": nmask,
                "nodes.coordinates": vs(st.nodes.coordinates), "windows.start": vs(st.windows.start), "windows.end": vs(st.windows.end),
                "coeffs.early": vs(st.coeffs.early), "coeffs.late": vs(st.coeffs.late)}

    # ------------------------------------------------------------------ C11 / C12
    def step_count(self, st):
        return vs(st.step_count)

    def measure(self, st):
        # documented horizon: the episode ends once step_count exceeds 2*num_customers (step_count starts at 1)
        return vs(st.step_count), self.limit + 1

    def observer(self, ns):
        coords, pos = vs(ns.nodes.coordinates), vs(ns.vehicles.positions)
        vc = np.empty((self.Vn, 2), dtype=object)
        for v in range(self.Vn):
            for k in range(2):
                # XLA clamps an out-of-range index (position num_customers+1, reachable through the off-by-one action spec) to the last node
                vc[v, k] = pick(coords[:, k], X.vmin(pos[v], X.const(self.N, I16)), default=I.fconst(-1))
        return {"nodes.coordinates": coords, "nodes.demands": vs(ns.nodes.demands), "windows.start": vs(ns.windows.start),
                "windows.end": vs(ns.windows.end), "coeffs.early": vs(ns.coeffs.early), "coeffs.late": vs(ns.coeffs.late),
                "vehicles.coordinates": vc, "vehicles.local_times": vs(ns.vehicles.local_times), "vehicles.capacities": vs(ns.vehicles.capacities),
                "action_mask": self.mask_rule(ns)}

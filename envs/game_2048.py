"""Game2048 harness.  Rules (docs/environments/game_2048.md + class docstring): the board holds exponents (0 = empty, e = tile
2^e); an action slides every tile as far as possible towards up(0) / right(1) / down(2) / left(3); two equal neighbouring
tiles (after sliding) merge once into a tile of twice the value, the reward is the sum of the values of the newly created
tiles; an action is valid iff it changes the board; after a valid move one new tile (exponent 1 or 2) appears on an empty
cell; an invalid move is ignored (board unchanged, no tile spawned); the episode ends when no move is valid.

Domain of the claim: board_size 3 (thorough 4), pre-state exponents 0..5 (successors reach 6); `score` ranges over the value
set {0,4,8,12} (it is only ever added to), `step_count` over 0..7 (the environment has no time limit)."""
import numpy as np

from engine import jx2smt as J
from engine import sym as S
from engine import vexpr as X
from engine.jx2smt import SV
from engine.vexpr import V, vs, where, all_, any_, pick, put, count, sum_
from envs.base import Harness, register

EMAX = 5          # largest exponent in the symbolic pre-state
KERNEL_EMAX = 6   # row kernels are driven over exponents 0..6
F32 = np.float32


def tile_value(e, emax):
    """2^e for e >= 1, 0 for the empty cell (int32 V); exponents above emax+1 are outside the domain"""
    out = X.const(0)
    for k in range(1, emax + 3):
        out = where(e == k, 1 << k, out)
    return out


def slide_row(cells, emax):
    """reference slide/merge of one line towards index 0 (cells: list of V int32) -> (new cells, reward as int32 V).
    Tiles are taken in order; a tile merges with the last placed tile iff that one has the same exponent and is not itself
    the result of a merge in this move."""
    n = len(cells)
    out = np.array([X.const(0) for _ in range(n)], dtype=object)
    cnt = X.const(0)            # number of placed tiles
    can_merge = X.FALSE         # last placed tile may still absorb an equal tile
    reward = X.const(0)
    for c in cells:
        nz = c != 0
        last = pick(out, cnt - 1, default=0)
        do_merge = nz & can_merge & (last == c)
        out = put(out, cnt - 1, c + 1, cond=do_merge)
        out = put(out, cnt, c, cond=nz & ~do_merge)
        reward = reward + where(do_merge, tile_value(c + 1, emax), 0)
        cnt = where(nz & ~do_merge, cnt + 1, cnt)
        can_merge = where(nz, ~do_merge, can_merge, X.BOOL)
    return list(out), reward


def lines(n, a):
    """the n lines of the board for direction a, each as the list of (row, col) from the wall the tiles move to"""
    if a == 0:
        return [[(i, j) for i in range(n)] for j in range(n)]
    if a == 1:
        return [[(i, j) for j in range(n - 1, -1, -1)] for i in range(n)]
    if a == 2:
        return [[(i, j) for i in range(n - 1, -1, -1)] for j in range(n)]
    return [[(i, j) for j in range(n)] for i in range(n)]


@register
class Game2048H(Harness):
    ENV = "Game2048"
    QUICK = ["Game2048@3"]
    THOROUGH = ["Game2048@4"]
    INVALID = "ignore"
    REF_DRAWS = True       # the reference reads the spawned tile (fresh randomness) from S'
    # bounded by design (2048 has no largest tile and no time limit): exponents <= 5 and step_count <= 7 are bounds of the claim
    OPEN_DOMAIN = (".board", ".step_count")

    def __init__(self, cfg, **over):
        super().__init__(cfg, **over)
        # move_left_row / can_move_left_row: every iteration advances origin_idx or target_idx (target <= origin < n), so at most
        # 2n-2 iterations run; the engine unrolls `UNROLL` iterations symbolically and PROVES the loop has stopped (unwinding
        # assertion), so a tight bound only removes dead iterations from every term (default 16)
        self.UNROLL = 2 * self.env.board_size - 1
        J.COMPACT_SCATTER = True   # row.at[idx].set(v) as one ite per cell (engine/jx2smt.py), process-wide, own job process

    def n(self):
        return self.env.board_size

    # ------------------------------------------------------------------ state
    def sym_state(self, ctx, tag="S"):
        from jumanji.environments.logic.game_2048.types import State
        n = self.n()
        board = ctx.fresh_arr(tag + ".board", (n, n), np.int32, 0, EMAX)
        step = ctx.fresh_arr(tag + ".step_count", (), np.int32, 0, 7)
        k = ctx.fresh_arr(tag + ".score_quarter", (), np.int32, 0, 3)
        score = X.to_sv((vs(k) * 4).astype(F32), F32)
        key = ctx.fresh_arr(tag + ".key", (2,), np.uint32)
        mask = S.call(ctx, self.env._get_action_mask, board)
        return State(board=board, step_count=step, action_mask=mask, score=score, key=key), []

    def inv(self, st, ctx=None):
        b = vs(st.board)
        flat = list(b.reshape(-1))
        return [("exponents >= 0", all_([x >= 0 for x in flat])),
                ("the board holds at least one tile", any_([x > 0 for x in flat])),
                ("step_count >= 0", vs(st.step_count) >= 0),
                ("cached action_mask == mask rule", X.eq_arr(vs(st.action_mask), self.mask_rule(st)))]

    # ------------------------------------------------------------------ rules
    def _moves(self, b, emax=EMAX + 1):
        """reference result of each of the 4 moves: [(board, reward int32 V)]"""
        n = self.n()
        res = []
        for a in range(4):
            nb = np.empty((n, n), dtype=object)
            rew = X.const(0)
            for line in lines(n, a):
                out, r = slide_row([b[p] for p in line], emax)
                for p, v in zip(line, out):
                    nb[p] = v
                rew = rew + r
            res.append((nb, rew))
        return res

    def mask_rule(self, st):
        b = vs(st.board)
        out = np.empty((4,), dtype=object)
        for a, (nb, _) in enumerate(self._moves(b)):
            out[a] = any_([nb[p] != b[p] for p in np.ndindex(*b.shape)])
        return out

    def _ref_move(self, st, act):
        """(legal, moved board M before the spawn, reward int V) for the symbolic action"""
        b, a = vs(st.board), vs(act)
        mv = self._moves(b)
        n = self.n()
        M = np.empty((n, n), dtype=object)
        for p in np.ndindex(n, n):
            M[p] = where(a == 0, mv[0][0][p], where(a == 1, mv[1][0][p], where(a == 2, mv[2][0][p], mv[3][0][p])))
        rew = where(a == 0, mv[0][1], where(a == 1, mv[1][1], where(a == 2, mv[2][1], mv[3][1])))
        legal = any_([M[p] != b[p] for p in np.ndindex(n, n)])
        return legal, M, rew

    def treated_invalid(self, st, act, ns, ts):
        # the environment's reaction to an invalid move: it is ignored -- the board stays as it is (nothing moves, nothing spawns)
        return [X.eq_arr(vs(ns.board), vs(st.board))]

    def illegal_effect(self, st, act, ns, ts, bad):
        b = bad[0]
        none_legal = ~any_(list(self.mask_rule(st)))
        return [("invalid move: board unchanged (nothing slides, no tile spawned)", b.implies(X.same(ns.board, st.board))),
                ("invalid move: reward 0", b.implies(vs(ts.reward) == F32(0.0))),
                ("invalid move: score unchanged", b.implies(X.same(ns.score, st.score))),
                ("invalid move: episode continues as for a no-op (LAST iff no move was valid at all)", b.implies((vs(ts.step_type) == 2).iff(none_legal)))]

    # ------------------------------------------------------------------ C07
    def _spawn_obl(self, st, act, ns):
        """S' == reference slide/merge result + exactly one spawned tile (legal) / + nothing (illegal)"""
        n = self.n()
        legal, M, _ = self._ref_move(st, act)
        b1 = vs(ns.board)
        ob = []
        diff = []
        for p in np.ndindex(n, n):
            d = b1[p] != M[p]
            diff.append(d)
            ob.append((f"cell{p}: equals the reference slide/merge result, or was empty there and holds a new tile of exponent 1 or 2",
                       (~d) | ((M[p] == 0) & ((b1[p] == 1) | (b1[p] == 2)))))
        ob.append(("exactly one tile is spawned by a valid move, none by an invalid one", count(diff) == where(legal, 1, 0)))
        return ob

    def conserve(self, st, act, ns, ts):
        n = self.n()
        b0, b1, a = vs(st.board), vs(ns.board), vs(act)
        legal = pick(self.mask_rule(st), a)
        ob = []
        # tile-sum conservation per line of the move (frame = the other lines): a line's tile sum changes only by the spawned tile
        gains = {}
        for kind, acts, ls in (("row", (1, 3), lines(n, 3)), ("column", (0, 2), lines(n, 0))):
            horiz = (a == acts[0]) | (a == acts[1])
            gains[kind] = []
            for i, line in enumerate(ls):
                delta = sum_([tile_value(b1[p], EMAX + 1) for p in line]) - sum_([tile_value(b0[p], EMAX) for p in line])
                ob.append((f"{kind} {i} (line of the move): tile sum conserved up to one spawned tile (delta in {{0,2,4}})",
                           horiz.implies((delta == 0) | (delta == 2) | (delta == 4))))
                gains[kind].append((horiz, delta != 0))
        for kind in ("row", "column"):
            horiz = gains[kind][0][0]
            ob.append((f"{kind} move: exactly one line gains a tile after a valid move, none after an invalid one",
                       horiz.implies(count([g for _, g in gains[kind]]) == where(legal, 1, 0))))
        return ob + self._spawn_obl(st, act, ns)

    # ------------------------------------------------------------------ C08 / C09
    def reward_law(self, st, act, ns, ts, legal):
        _, _, rew = self._ref_move(st, act)
        return [("reward == sum of the values of the tiles created by merges in this move (reference slide/merge)", vs(ts.reward) == rew.astype(F32)),
                ("score' == score + reward (score = cumulative reward = Phi)", vs(ns.score) == vs(st.score) + vs(ts.reward)),
                ("invalid move => reward 0", (~legal).implies(vs(ts.reward) == F32(0.0)))]

    def ref_step(self, st, act, ns=None):
        n = self.n()
        legal, M, rew = self._ref_move(st, act)
        b1 = vs(ns.board)
        # the spawned tile is fresh randomness: read its cell/value from S' (first cell that differs from the slide/merge result,
        # accepted only if it was empty and holds exponent 1 or 2); a valid move without any spawn poisons the reference (-1)
        ref = np.empty((n, n), dtype=object)
        seen = X.FALSE
        for p in np.ndindex(n, n):
            d = b1[p] != M[p]
            ok = legal & d & ~seen & (M[p] == 0) & ((b1[p] == 1) | (b1[p] == 2))
            ref[p] = where(ok, b1[p], M[p])
            seen = seen | d
        ref[0, 0] = where(legal & ~seen, -1, ref[0, 0])
        # termination: no move changes the successor board (evaluated on S'.board, which the obligation "S'.board == reference"
        # pins to the reference up to the random tile)
        from types import SimpleNamespace
        none_legal = ~any_(list(self.mask_rule(SimpleNamespace(board=ns.board))))
        return {"board": ref, "step_count": vs(st.step_count) + 1, "score": vs(st.score) + rew.astype(F32),
                "reward": rew.astype(F32), "last": none_legal}

    def observer(self, ns):
        return {"board": vs(ns.board), "action_mask": vs(ns.action_mask)}

    # ------------------------------------------------------------------ kernels (rows of length 2..5, exponents 0..6)
    def _row_kernels(self, R, which):
        import jax
        import jax.numpy as jnp
        from jumanji.environments.logic.game_2048 import utils as U
        from engine.jx2smt import Ctx
        from checks import common as C
        for L in (2, 3, 4, 5):
            ctx = Ctx(max_unroll=2 * L + 2)
            row = ctx.fresh_arr(f"row{L}", (L,), np.int32, 0, KERNEL_EMAX)
            new_row, rew = S.call(ctx, U.move_left_row, row, R=R, name="move_left_row")
            can = S.call(ctx, U.can_move_left_row, row, R=R, name="can_move_left_row")
            A = list(ctx.assumptions)
            C.unwinding(R, ctx, [])
            R.reach(f"row kernel len {L}", A)

            def oracle(row_, new_, rew_, can_, L=L):
                r, o = list(vs(row_)), list(vs(new_))
                ref, rr = slide_row(r, KERNEL_EMAX)
                tv = lambda e: tile_value(e, KERNEL_EMAX)  # noqa
                phi = lambda cells: sum_([where(e > 0, (e - 1) * tile_value(e, KERNEL_EMAX), 0) for e in cells])  # noqa
                ob = {}
                ob["c07"] = [(f"row len {L}: tile sum conserved by move_left_row", sum_([tv(e) for e in o]) == sum_([tv(e) for e in r])),
                             (f"row len {L}: number of tiles never grows", count([e > 0 for e in o]) <= count([e > 0 for e in r]))]
                ob["c08"] = [(f"row len {L}: reward == Phi(row') - Phi(row), Phi = sum (e-1)*2^e (merge e,e -> e+1 pays 2^(e+1))",
                              vs(rew_) == (phi(o) - phi(r)).astype(F32))]
                ob["c09"] = [(f"row len {L}: move_left_row == reference slide/merge", all_([x == y for x, y in zip(o, ref)])),
                             (f"row len {L}: move_left_row reward == sum of created tiles", vs(rew_) == rr.astype(F32)),
                             (f"row len {L}: can_move_left_row <=> the reference move changes the row", vs(can_).iff(any_([x != y for x, y in zip(r, ref)])))]
                return ob[which]

            def replay_for(name, row=row, oracle=oracle):
                def replay(model):
                    r_np = S.model_sv(model, row)
                    nr, rw = jax.jit(U.move_left_row)(jnp.asarray(r_np))
                    cm = jax.jit(U.can_move_left_row)(jnp.asarray(r_np))
                    nr, rw, cm = np.asarray(nr), np.asarray(rw), np.asarray(cm)
                    vals = dict(oracle(SV(r_np, r_np.dtype), SV(nr, nr.dtype), SV(rw, rw.dtype), SV(cm, cm.dtype)))
                    return (not bool(vals[name])), {"row": r_np.tolist(), "move_left_row": nr.tolist(), "reward": float(rw), "can_move": bool(cm)}
                return replay
            for n_, v in oracle(row, new_row, rew, can):
                R.prove(n_, A, v.term() if not v.conc else bool(v), replay=replay_for(n_))

    def _transform_kernel(self, R):
        """transform_board(board, a) only rearranges cells: its output is literally a permutation of the input variables, maps row i
        of the result to the i-th line of the move, and is an involution (move = T . move_left . T)"""
        from jumanji.environments.logic.game_2048 import utils as U
        from engine.jx2smt import Ctx
        n = self.n()
        for a in range(4):
            ctx = Ctx()
            B = ctx.fresh_arr(f"T{a}", (n, n), np.int32)
            out = S.call(ctx, U.transform_board, B, SV(np.asarray(a, np.int32), np.int32), R=R, name="transform_board")
            back = S.call(ctx, U.transform_board, out, SV(np.asarray(a, np.int32), np.int32))
            ids = {B.a[p].get_id(): p for p in np.ndindex(n, n)}
            got = {}
            ok = not out.conc
            for p in np.ndindex(n, n):
                x = out.obj()[p]
                if not J.is_sym(x) or x.get_id() not in ids:
                    ok = False
                    break
                got[p] = ids[x.get_id()]
            perm = ok and len(set(got.values())) == n * n
            # rows are moved independently (vmap), so only the SET of rows matters: each row of the transformed board must be one
            # line of the move, read from the wall the tiles move to
            rows_got = {tuple(got[(i, k)] for k in range(n)) for i in range(n)} if perm else set()
            rows_want = {tuple(line) for line in lines(n, a)}
            R.structural(f"transform_board(., {a}) is a permutation of the cells", perm, {"action": a})
            R.structural(f"transform_board(., {a}): its rows are exactly the lines of the move, each read from the wall the tiles move to",
                         perm and rows_got == rows_want, {"action": a, "got": {str(k): v for k, v in got.items()}})
            inv_ok = (not back.conc) and all(J.is_sym(back.obj()[p]) and back.obj()[p].get_id() == B.a[p].get_id() for p in np.ndindex(n, n))
            R.structural(f"transform_board(transform_board(., {a}), {a}) is the identity", inv_ok, {"action": a})

    def kernels_c07(self, R):
        self._row_kernels(R, "c07")
        self._transform_kernel(R)

    def kernels_c08(self, R):
        self._row_kernels(R, "c08")

    def kernels_c09(self, R):
        from checks import drivers as D
        self._row_kernels(R, "c09")
        self._transform_kernel(R)
        sp = D.build_step(R, self, validate=0)
        D.prove_list(R, sp, lambda st, act, ns, ts: self._spawn_obl(st, act, ns), prefix="successor modulo the spawned tile: ")

"""TSP harness.  Rules (docs/environments/tsp.md + class docstring): the action is the next city; a city is legal iff
it has not been visited; an illegal action ends the episode with reward -num_cities*sqrt(2) and leaves the state
untouched; the episode ends when every city has been visited.  Dense reward: minus the distance from the current
city to the chosen one, 0 for the first chosen city, plus minus the distance back to the first city on the last
step; sparse reward: minus the length of the closed tour on the last step, 0 before.

Configs: 'TSP@n' = coordinates symbolic float32 in [0,1] (no claim that needs sqrt arithmetic: C08 restricted to the
penalty / first-step branches, C09 without the reward of legal moves); 'TSP@n~k' = coordinates of the real reset for
PRNGKey(VERIF_SEED+k), 'TSP@5~c' = the 5-city instance of tsp/conftest.py; position, visited set, trajectory and action
are symbolic everywhere.  With concrete coordinates a distance depends on (position, action) only and is tabulated."""
import itertools
import math

import numpy as np

from engine import sym as S
from engine import vexpr as X
from engine.jx2smt import SV
from engine.vexpr import V, vs, where, all_, any_, pick, count
from envs import _instances as I
from envs.base import Harness, register

CONFTEST_COORDS = [[0.0, 0.0], [0.0, 1.0], [1.0, 0.0], [1.0, 1.0], [0.5, 0.5]]   # tsp/conftest.py DummyGenerator


def _sparse():
    from jumanji.environments.routing.tsp.reward import SparseReward
    return SparseReward()


@register
class TSPH(Harness):
    ENV = "TSP"
    QUICK = ["TSP@4", "TSP@4~0", "TSP@4~1", "TSP@4~2", "TSP@4~3"]
    THOROUGH = ["TSP@6"] + [f"TSP@6~{k}" for k in range(8)] + ["TSP@5~c"]
    INVALID = "terminate"
    REWARD_VARIANTS = [{}, {"reward_fn": _sparse()}]
    REF_REWARD_VARIANTS = True   # ref_step follows the configured reward function (C09 runs the variants too)
    DIFF_ULPS = 8   # jitted XLA:CPU (FMA-fused norm) vs primitive-by-primitive float32 evaluation of the encoding: rewards differ by <= 1 ulp per norm

    def __init__(self, cfg, **over):
        base_cfg, self.inst = I.split_cfg(cfg)
        super().__init__(base_cfg, **over)
        self.cfg = cfg
        self.n = self.env.num_cities
        self.sparse = type(self.env.reward_fn).__name__ == "SparseReward"
        # reset does not depend on the instance: Inv(reset) / reset bounds are proved once, in the symbolic-coordinates config
        self.RESET_INV = self.inst is None
        if self.inst is None:
            self.coords = None
        elif self.inst == "c":
            assert self.n == 5
            self.coords = np.asarray(CONFTEST_COORDS, np.float32)
        else:
            self.coords = np.asarray(I.reset_state(self.env, self.inst).coordinates, np.float32)
        # documented penalty -num_cities*sqrt(2): a real number; the float32 the code returns must be within 2 ulp of it
        p = -self.n * math.sqrt(2.0)
        self.pen = I.band(p, abs(p) * 2.0 ** -22)
        if self.coords is not None:
            self.D = I.dist_matrix(self.coords)

    # ------------------------------------------------------------------ pre-state
    def sym_state(self, ctx, tag="S"):
        from jumanji.environments.routing.tsp.types import State
        n = self.n
        pre = []
        if self.coords is None:
            coords = ctx.fresh_arr(tag + ".coordinates", (n, 2), np.float32)
            pre += [S.fp_in(x, 0.0, 1.0, tiny=2.0 ** -24) for x in coords.a.reshape(-1)]
        else:
            coords = SV(self.coords, np.float32)
        pos = ctx.fresh_arr(tag + ".position", (), np.int32, -1, n - 1)
        visited = ctx.fresh_arr(tag + ".visited_mask", (n,), np.bool_)
        traj = ctx.fresh_arr(tag + ".trajectory", (n,), np.int32, -1, n - 1)
        nv = ctx.fresh_arr(tag + ".num_visited", (), np.int32, 0, n - 1)
        key = ctx.fresh_arr(tag + ".key", (2,), np.uint32)
        return State(coordinates=coords, position=pos, visited_mask=visited, trajectory=traj, num_visited=nv, key=key), pre

    def inv(self, st, ctx=None):
        n = self.n
        c, pos, vis, traj, nv = vs(st.coordinates), vs(st.position), vs(st.visited_mask), vs(st.trajectory), vs(st.num_visited)
        ob = [("coordinates inside the unit square", all_([(x >= np.float32(0)) & (x <= np.float32(1)) for x in c.reshape(-1)])),
              ("num_visited in [0, num_cities) on a non-terminal state", (nv >= 0) & (nv < n)),
              ("num_visited == number of visited cities", nv == count(list(vis))),
              ("trajectory[:num_visited] holds visited in-range cities, the rest is -1",
               all_([where(nv > i, (traj[i] >= 0) & (traj[i] < n) & pick(vis, traj[i], default=False), traj[i] == -1, X.BOOL) for i in range(n)])),
              ("position is the last city of the trajectory (-1 before the first move)",
               where(nv == 0, pos == -1, pos == pick(traj, nv - 1, default=-2), X.BOOL))]
        ob += self.constraints(st)
        return ob

    # ------------------------------------------------------------------ rules
    def _on_route(self, st, c):
        traj, nv = vs(st.trajectory), vs(st.num_visited)
        return any_([(nv > i) & (traj[i] == c) for i in range(self.n)])

    def mask_rule(self, st):
        """a city may be chosen iff it is not on the route so far (recomputed from trajectory[:num_visited], not from
        the visited_mask field the environment itself consults)"""
        out = np.empty((self.n,), dtype=object)
        for c in range(self.n):
            out[c] = ~self._on_route(st, c)
        return out

    def _penalised(self, ts):
        return I.within(vs(ts.reward), *self.pen)

    def treated_invalid(self, st, act, ns, ts):
        return [(vs(ts.step_type) == 2) & self._penalised(ts) & (vs(ns.num_visited) == vs(st.num_visited))]

    def illegal_effect(self, st, act, ns, ts, bad):
        b = bad[0]
        ob = [("illegal => LAST", b.implies(vs(ts.step_type) == 2)),
              ("illegal => reward == -num_cities*sqrt(2) (within 2 ulp)", b.implies(self._penalised(ts)))]
        for f in ("coordinates", "position", "visited_mask", "trajectory", "num_visited", "key"):
            ob.append((f"illegal => state.{f} untouched", b.implies(X.same(getattr(st, f), getattr(ns, f)))))
        return ob

    # ------------------------------------------------------------------ C06
    def constraints(self, st):
        n = self.n
        vis, traj, nv = vs(st.visited_mask), vs(st.trajectory), vs(st.num_visited)
        return [("no city appears twice on the route", all_([(nv > j).implies(traj[i] != traj[j]) for j in range(n) for i in range(j)])),
                ("visited_mask marks exactly the cities on the route", all_([vis[c].iff(self._on_route(st, c)) for c in range(n)]))]

    def complete(self, st, ts):
        n = self.n
        vis, traj = vs(st.visited_mask), vs(st.trajectory)
        done = all_(list(vis))
        return done, [("every city appears exactly once in the trajectory (a Hamiltonian tour)",
                       all_([count([traj[i] == c for i in range(n)]) == 1 for c in range(n)])),
                      ("num_visited == num_cities", vs(st.num_visited) == n)]

    # ------------------------------------------------------------------ C08
    def _tour_bounds(self, traj):
        """(lo, hi) V float32 bands around minus the closed tour length of the permutation `traj`; a trajectory that is not
        a permutation gets the empty band (+1, +1): minus a length can never be there"""
        n = self.n
        eq = [[traj[i] == c for c in range(n)] for i in range(n)]
        lo, hi = I.fconst(1.0), I.fconst(1.0)
        seen = {}
        for perm in itertools.permutations(range(n)):
            # exact (order independent) sum of the float64 edge lengths of the cycle
            L = math.fsum(self.D[perm[i], perm[(i + 1) % n]] for i in range(n))
            l, h = seen.setdefault(round(L, 15), I.band(-L))
            c = all_([eq[i][perm[i]] for i in range(n)])
            lo, hi = where(c, V(l, np.float32), lo, np.float32), where(c, V(h, np.float32), hi, np.float32)
        return lo, hi

    def reward_law(self, st, act, ns, ts, legal):
        n = self.n
        r, nv, pos, a, traj = vs(ts.reward), vs(st.num_visited), vs(st.position), vs(act), vs(st.trajectory)
        ob = [("illegal action: reward == -num_cities*sqrt(2) (within 2 ulp)", (~legal).implies(self._penalised(ts)))]
        closing = (nv + 1) == n
        zero = r == np.float32(0)
        if self.coords is None:
            # symbolic coordinates: only the branches that need no sqrt arithmetic are claimed
            if self.sparse:
                ob.append(("sparse, legal, tour not finished: reward == 0", (legal & ~closing).implies(zero)))
            else:
                ob.append(("dense, first chosen city: reward == 0", (legal & (nv == 0)).implies(zero)))
            return ob
        if self.sparse:
            lo, hi = self._tour_bounds(vs(ns.trajectory))
            ob.append(("sparse, legal: reward == [tour finished] * -(closed tour length of the final trajectory) within 1e-5",
                       legal.implies(where(closing, I.within(r, lo, hi), zero, X.BOOL))))
            return ob
        # dense: Phi(S) = -(length of the open path trajectory[:num_visited]); closing leg back to trajectory[0] on the last step
        D2 = I.band_tab(-self.D)
        D3 = I.band_tab(-(self.D[:, :, None] + self.D[None, :, :]))
        first = nv == 0
        t0 = traj[0]
        lo = where(first, I.fconst(0), where(closing, pick(D3[0], pos, a, t0, default=I.fconst(1)), pick(D2[0], pos, a, default=I.fconst(1)), np.float32), np.float32)
        hi = where(first, I.fconst(0), where(closing, pick(D3[1], pos, a, t0, default=I.fconst(1)), pick(D2[1], pos, a, default=I.fconst(1)), np.float32), np.float32)
        ob.append(("dense, legal: reward == -( d(position, action) [0 for the first city] + d(action, first city) [last step only] ) within 1e-5",
                   legal.implies(I.within(r, lo, hi))))
        return ob

    # ------------------------------------------------------------------ C09
    def ref_step(self, st, act):
        n = self.n
        pos, vis, traj, nv, a = vs(st.position), vs(st.visited_mask), vs(st.trajectory), vs(st.num_visited), vs(act)
        legal = self.action_legal(st, act)[0]
        nvis = np.array([where(legal & (a == c), True, vis[c], X.BOOL) for c in range(n)], dtype=object)
        ntraj = X.put(traj, nv, a, cond=legal)
        nnv = where(legal, nv + 1, nv)
        ref = {"coordinates": vs(st.coordinates), "position": where(legal, a, pos), "visited_mask": nvis, "trajectory": ntraj,
               "num_visited": nnv, "last": (~legal) | (nnv == n)}
        # reward: exact where the rules give an exact number, a 1e-5 band otherwise (float32 sqrt/sum order is not a rule)
        first, closing = nv == 0, (nv + 1) == n
        zero = I.fconst(0)
        plo, phi = V(self.pen[0], np.float32), V(self.pen[1], np.float32)
        if self.coords is None:
            return ref
        if self.sparse:
            lo, hi = self._tour_bounds(ntraj)
            llo, lhi = where(closing, lo, zero, np.float32), where(closing, hi, zero, np.float32)
        else:
            D2 = I.band_tab(-self.D)
            D3 = I.band_tab(-(self.D[:, :, None] + self.D[None, :, :]))
            one = I.fconst(1)
            llo = where(first, zero, where(closing, pick(D3[0], pos, a, traj[0], default=one), pick(D2[0], pos, a, default=one), np.float32), np.float32)
            lhi = where(first, zero, where(closing, pick(D3[1], pos, a, traj[0], default=one), pick(D2[1], pos, a, default=one), np.float32), np.float32)
        ref["reward_range"] = (where(legal, llo, plo, np.float32), where(legal, lhi, phi, np.float32))
        return ref

    # ------------------------------------------------------------------ C11 / C12
    def measure(self, st):
        return count(list(vs(st.visited_mask))), self.n

    def observer(self, ns):
        return {"coordinates": vs(ns.coordinates), "position": vs(ns.position), "trajectory": vs(ns.trajectory),
                "action_mask": self.mask_rule(ns)}

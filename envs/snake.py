"""Snake harness.  Rules (docs/environments/snake.md + class docstring): the head moves up/right/down/left
([0,1,2,3]); `body_state` numbers the body cells decreasingly from the head (= length) to the tail (= 1); if the new
head cell holds the fruit the snake grows by one (nothing else moves) and a new fruit is sampled on a free cell,
otherwise every body number decreases by one (the tail cell is freed).  A move is legal iff the new head is on the
board and not on the body after the tail has moved; reward 1.0 iff a fruit is eaten; the episode ends on an
invalid action, when the board is full, or at the time limit.

Not determined by the docs (claims restricted accordingly): the successor STATE and the head plane of the observation
after an invalid action (the episode is over; the code writes the head with a wrapped negative index when the snake
leaves through the top/left edge and drops the write at the bottom/right edge)."""
import numpy as np

from engine import sym as S
from engine import vexpr as X
from engine.jx2smt import SV
from engine.vexpr import V, vs, where, all_, any_, pick, put, count
from envs.base import Harness, register

MOVES = [(-1, 0), (0, 1), (1, 0), (0, -1)]  # up, right, down, left  (row, col)
F32 = np.float32
I32 = np.int32


@register
class SnakeH(Harness):
    ENV = "Snake"
    QUICK = ["Snake@3x4", "Snake@4x3", "Snake@3x3"]
    THOROUGH = ["Snake@4x4", "Snake@2x5"]
    INVALID = "terminate"
    TIME_LIMIT = True
    REF_DRAWS = True   # ref_step reads S' only for the re-sampled fruit position (fresh randomness)
    OBS_GROUP = 10     # the (R,C,5) float grid is proved in chunks of two cells (one monolithic query: 40 s on 3x4)

    @staticmethod
    def capacity(env):
        """largest values the rules give the counting leaves (checks/C07.run_capacity)"""
        n = env.num_rows * env.num_cols
        return {".body_state": n, ".length": n}

    def dims(self):
        return self.env.num_rows, self.env.num_cols

    def cells(self):
        R_, C_ = self.dims()
        return [(i, j) for i in range(R_) for j in range(C_)]

    # ------------------------------------------------------------------ pre-state
    def sym_state(self, ctx, tag="S"):
        from jumanji.environments.routing.snake.types import Position, State
        R_, C_ = self.dims()
        N = R_ * C_
        bs = ctx.fresh_arr(tag + ".body_state", (R_, C_), I32, 0, N)
        length = ctx.fresh_arr(tag + ".length", (), I32, 1, N)
        hr = ctx.fresh_arr(tag + ".head_row", (), I32, 0, R_ - 1)
        hc = ctx.fresh_arr(tag + ".head_col", (), I32, 0, C_ - 1)
        fr = ctx.fresh_arr(tag + ".fruit_row", (), I32, 0, R_ - 1)
        fc = ctx.fresh_arr(tag + ".fruit_col", (), I32, 0, C_ - 1)
        step = ctx.fresh_arr(tag + ".step_count", (), I32, 0, self.T - 1)
        key = ctx.fresh_arr(tag + ".key", (2,), np.uint32)
        b = vs(bs)
        # derived (cached) planes; the tie is also an Inv conjunct, so it is re-proved on reset and on every successor
        body = X.to_sv(np.array([[b[i, j] > 0 for j in range(C_)] for i in range(R_)], dtype=object), np.bool_)
        tail = X.to_sv(np.array([[b[i, j] == 1 for j in range(C_)] for i in range(R_)], dtype=object), np.bool_)
        head = Position(row=hr, col=hc)
        mask = S.call(ctx, self.env._get_action_mask, head, bs)
        return State(body=body, body_state=bs, head_position=head, tail=tail, fruit_position=Position(row=fr, col=fc),
                     length=length, step_count=step, action_mask=mask, key=key), []

    def _adj(self, p):
        R_, C_ = self.dims()
        return [(p[0] + dr, p[1] + dc) for dr, dc in MOVES if 0 <= p[0] + dr < R_ and 0 <= p[1] + dc < C_]

    def inv(self, st, ctx=None):
        R_, C_ = self.dims()
        N = R_ * C_
        b, L = vs(st.body_state), vs(st.length)
        hr, hc = vs(st.head_position.row), vs(st.head_position.col)
        fr, fc = vs(st.fruit_position.row), vs(st.fruit_position.col)
        sc = vs(st.step_count)
        cells = self.cells()
        ob = [("length in [1, rows*cols]", (L >= 1) & (L <= N))]
        # the body is a chain numbered 1..length on 4-adjacent cells ending at the head, stated locally (no counting):
        # numbers in range, non-zero numbers pairwise distinct, every number k >= 2 has a neighbour k-1, the head holds `length`
        for n, p in enumerate(cells):
            ob.append((f"cell{p}: 0 <= body_state <= length; its number is unique; k>=2 has a 4-neighbour numbered k-1",
                       (b[p] >= 0) & (b[p] <= L)
                       & all_([(b[p] == 0) | (b[p] != b[q]) for q in cells[n + 1:]])
                       & (b[p] >= 2).implies(any_([b[q] == b[p] - 1 for q in self._adj(p)]))))
        ob += [("head on the board", (hr >= 0) & (hr < R_) & (hc >= 0) & (hc < C_)),
               ("the head cell holds `length`", pick(b, hr, hc, default=X.const(-1)) == L),
               ("fruit on the board", (fr >= 0) & (fr < R_) & (fc >= 0) & (fc < C_)),
               ("fruit not on the body", pick(b, fr, fc, default=X.const(-1)) == 0),
               ("body plane == (body_state > 0)", X.eq_arr(vs(st.body), np.array([[b[i, j] > 0 for j in range(C_)] for i in range(R_)], dtype=object))),
               ("tail plane == (body_state == 1)", X.eq_arr(vs(st.tail), np.array([[b[i, j] == 1 for j in range(C_)] for i in range(R_)], dtype=object))),
               ("step_count in [0, time_limit]", (sc >= 0) & (sc <= self.T)),
               ("cached action_mask == mask rule", X.eq_arr(vs(st.action_mask), self.mask_rule(st)))]
        return ob

    # ------------------------------------------------------------------ rules
    def _legal_at(self, b, r, c):
        """new head (r, c) is on the board and, once the tail has moved, not on the body: the cell is free or is the tail cell"""
        R_, C_ = self.dims()
        inside = (r >= 0) & (r < R_) & (c >= 0) & (c < C_)
        x = pick(b, r, c, default=X.const(2))
        return inside & ((x == 0) | (x == 1))

    def mask_rule(self, st):
        b = vs(st.body_state)
        hr, hc = vs(st.head_position.row), vs(st.head_position.col)
        out = np.empty((4,), dtype=object)
        for k, (dr, dc) in enumerate(MOVES):
            out[k] = self._legal_at(b, hr + dr, hc + dc)
        return out

    def action_legal(self, st, act):
        return [pick(self.mask_rule(st), vs(act))]

    def _full(self, st):
        return all_([x > 0 for x in vs(st.body_state).reshape(-1)])

    def treated_invalid(self, st, act, ns, ts):
        # The environment's reaction to an invalid action is "the episode ends".  It is observable as such only when no
        # other cause ends the episode on the same step (time limit / board full); on those steps the claim is void.
        t1 = vs(st.step_count) + 1
        other = (t1 >= self.T) | self._full(ns)
        legal = self.action_legal(st, act)[0]
        return [where(other, ~legal, vs(ts.step_type) == 2, X.BOOL)]

    def illegal_effect(self, st, act, ns, ts, bad):
        b = bad[0]
        return [("illegal => LAST", b.implies(vs(ts.step_type) == 2)),
                ("illegal => reward 0 (no fruit can be eaten by an invalid move)", b.implies(vs(ts.reward) == F32(0))),
                ("illegal => length unchanged", b.implies(vs(ns.length) == vs(st.length)))]

    def _new_head(self, st, act):
        a = vs(act)
        dr = where(a == 0, -1, where(a == 2, 1, 0))
        dc = where(a == 1, 1, where(a == 3, -1, 0))
        return vs(st.head_position.row) + dr, vs(st.head_position.col) + dc

    def conserve(self, st, act, ns, ts):
        R_, C_ = self.dims()
        b0, b1 = vs(st.body_state), vs(ns.body_state)
        L0, L1 = vs(st.length), vs(ns.length)
        nr, nc = self._new_head(st, act)
        fr, fc = vs(st.fruit_position.row), vs(st.fruit_position.col)
        eaten = (nr == fr) & (nc == fc)
        ob = [("head advances exactly one cell in the direction of the action", (vs(ns.head_position.row) == nr) & (vs(ns.head_position.col) == nc)),
              ("length grows by one iff the fruit is eaten", L1 == L0 + where(eaten, 1, 0)),
              ("fruit stays where it is unless eaten", (~eaten).implies((vs(ns.fruit_position.row) == fr) & (vs(ns.fruit_position.col) == fc)))]
        for p in self.cells():
            here = (nr == p[0]) & (nc == p[1])
            moved = where(b0[p] > 0, b0[p] - 1, 0)
            ob.append((f"cell{p}: new head cell gets `length`; other cells keep their number (fruit eaten) or count down by one (tail freed)",
                       where(here, b1[p] == L1, b1[p] == where(eaten, b0[p], moved), X.BOOL)))
        return ob

    def reward_law(self, st, act, ns, ts, legal):
        nr, nc = self._new_head(st, act)
        eaten = (nr == vs(st.fruit_position.row)) & (nc == vs(st.fruit_position.col))
        return [("reward == Phi(S') - Phi(S), Phi = length (= fruits eaten + 1)", vs(ts.reward) == (vs(ns.length) - vs(st.length)).astype(F32)),
                ("reward == [new head cell holds the fruit]", vs(ts.reward) == where(eaten, F32(1), F32(0), F32))]

    def ref_step(self, st, act, ns):
        R_, C_ = self.dims()
        b, L = vs(st.body_state), vs(st.length)
        fr, fc = vs(st.fruit_position.row), vs(st.fruit_position.col)
        nr, nc = self._new_head(st, act)
        legal = self._legal_at(b, nr, nc)
        eaten = (nr == fr) & (nc == fc)
        L1 = L + where(eaten, 1, 0)
        nb = np.empty((R_, C_), dtype=object)
        for p in self.cells():
            rest = where(eaten, b[p], where(b[p] > 0, b[p] - 1, 0))
            nb[p] = where((nr == p[0]) & (nc == p[1]), L1, rest)
        full = all_([x > 0 for x in nb.reshape(-1)])
        sc = vs(st.step_count) + 1
        nmask = np.empty((4,), dtype=object)
        for k, (dr, dc) in enumerate(MOVES):
            nmask[k] = self._legal_at(nb, nr + dr, nc + dc)
        # fresh randomness: the re-sampled fruit is READ from S' (REF_DRAWS); that it lies on a free cell is Inv(S') (C07)
        return {"_when": legal,   # successor state after an invalid action is not determined by the docs
                "body_state": nb, "body": np.array([[nb[i, j] > 0 for j in range(C_)] for i in range(R_)], dtype=object),
                "tail": np.array([[nb[i, j] == 1 for j in range(C_)] for i in range(R_)], dtype=object),
                "head_position.row": nr, "head_position.col": nc, "length": L1, "step_count": sc, "action_mask": nmask,
                "fruit_position.row": where(eaten, vs(ns.fruit_position.row), fr), "fruit_position.col": where(eaten, vs(ns.fruit_position.col), fc),
                "reward": where(legal & eaten, F32(1), F32(0), F32), "last": (~legal) | full | (sc >= self.T)}

    def other_done(self, st, act, ns, ts):
        return (~self.action_legal(st, act)[0]) | self._full(ns)

    def obs_guard(self, st, act, ns, ts):
        """the head of S' has no NEGATIVE coordinate: after an invalid exit through the top/left edge the code writes the head through a
        wrapped negative index (docs silent, terminal state) and the planes are not claimed; after an exit through the bottom/right
        edge the out-of-range write is dropped, every plane is still the documented function of the state (head plane empty, body order
        normalised by its maximum) and IS claimed"""
        hr, hc = vs(ns.head_position.row), vs(ns.head_position.col)
        return (hr >= 0) & (hc >= 0)

    def observer(self, ns):
        R_, C_ = self.dims()
        b = vs(ns.body_state)
        hr, hc = vs(ns.head_position.row), vs(ns.head_position.col)
        fr, fc = vs(ns.fruit_position.row), vs(ns.fruit_position.col)
        mx = b.reshape(-1)[0]
        for x in b.reshape(-1)[1:]:
            mx = X.vmax(mx, x)
        mx = X.vmax(X.const(1), mx)
        one, zero = F32(1), F32(0)
        body, tail = vs(ns.body), vs(ns.tail)     # state fields (tied to body_state by Inv)
        grid = np.empty((R_, C_, 5), dtype=object)
        for (i, j) in self.cells():
            grid[i, j, 0] = where(body[i, j], one, zero, F32)                        # body
            grid[i, j, 1] = where((hr == i) & (hc == j), one, zero, F32)             # head
            grid[i, j, 2] = where(tail[i, j], one, zero, F32)                        # tail
            grid[i, j, 3] = where((fr == i) & (fc == j), one, zero, F32)             # fruit
            grid[i, j, 4] = b[i, j].astype(F32) / mx.astype(F32)                     # body_state / max(1, max body_state)
        return {"grid": grid, "step_count": vs(ns.step_count), "action_mask": self.mask_rule(ns)}

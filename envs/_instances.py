"""Helpers shared by the Euclidean / float-valued CO harnesses (TSP, CVRP, Knapsack, MultiCVRP).

Config names of these harnesses are '<Env>@<size>' (instance floats SYMBOLIC, claims that need float arithmetic
are not made there) or '<Env>@<size>~<k>' (instance floats CONCRETE: k = 0,1,.. -> the state returned by the real
`env.reset(PRNGKey(VERIF_SEED + k))`; k = 'c' -> the hard-coded instance of the repo's conftest.py DummyGenerator).
Position / visited sets / trajectory / action stay symbolic in both."""
import math
import os

import numpy as np

from engine import vexpr as X
from engine.vexpr import V, where

F32 = np.float32
TOL = 1e-5        # absolute tolerance between the float32 reward of the code and the float64 recomputation (DESIGN C08)


def split_cfg(cfg):
    """'TSP@4~2' -> ('TSP@4', '2') ; 'TSP@4' -> ('TSP@4', None)"""
    b, sep, k = cfg.partition("~")
    return b, (k if sep else None)


def seed():
    return int(os.environ.get("VERIF_SEED", "0"))


def reset_state(env, k):
    """the state of the real reset for PRNGKey(VERIF_SEED + k) as a pytree of numpy arrays"""
    import jax
    st, _ = jax.jit(env.reset)(jax.random.PRNGKey(seed() + int(k)))
    return jax.tree_util.tree_map(np.asarray, st)


def down32(x):
    """largest float32 <= x (x python float / float64)"""
    f = F32(x)
    if float(f) > float(x):
        f = np.nextafter(f, F32(-np.inf), dtype=F32)
    return F32(f)


def up32(x):
    f = F32(x)
    if float(f) < float(x):
        f = np.nextafter(f, F32(np.inf), dtype=F32)
    return F32(f)


def band(x64, tol=TOL):
    """(lo, hi) float32 constants with lo <= x64 - tol and hi >= x64 + tol, rounded outward"""
    return down32(float(x64) - tol), up32(float(x64) + tol)


def ftab(a):
    """numpy float array -> object array of concrete float32 V (for vexpr.pick)"""
    a = np.asarray(a)
    out = np.empty(a.shape, dtype=object)
    for idx in np.ndindex(*a.shape):
        out[idx] = V(F32(a[idx]), F32)
    return out


def band_tab(a64, tol=TOL):
    """float64 table -> (lo table, hi table) of float32 V"""
    a64 = np.asarray(a64, dtype=np.float64)
    lo, hi = np.empty(a64.shape, dtype=object), np.empty(a64.shape, dtype=object)
    for idx in np.ndindex(*a64.shape):
        l, h = band(a64[idx], tol)
        lo[idx], hi[idx] = V(l, F32), V(h, F32)
    return lo, hi


def within(r, lo, hi):
    """lo <= r <= hi (V float32; NaN fails)"""
    lo = lo if isinstance(lo, V) else V(F32(lo), F32)
    hi = hi if isinstance(hi, V) else V(F32(hi), F32)
    return (r >= lo) & (r <= hi)


def dist_matrix(coords):
    """float64 Euclidean distances between all pairs of rows"""
    c = np.asarray(coords, dtype=np.float64)
    d = c[:, None, :] - c[None, :, :]
    return np.sqrt((d * d).sum(-1))


def fconst(x):
    return V(F32(x), F32)

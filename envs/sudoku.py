"""Sudoku harness (9x9, fixed by the code).  Rules (docs/environments/sudoku.md + class docstring): board cells hold -1 (empty)
or a digit 0..8; the action (row, col, digit) writes the digit into the cell; an action is valid iff the cell is empty and
the digit does not yet occur in the cell's row, column and 3x3 box; reward 1 at the end of the episode iff the board is
correctly solved, else 0; the episode ends when no legal action is left (solved or dead end).  The code additionally ends
the episode on an invalid action (DESIGN App. A: LAST, reward 0); the docs do not say what the board looks like after an
invalid action, so no claim is made about the successor board in that case."""
import numpy as np

from engine import jx2smt as J
from engine import sym as S
from engine import vexpr as X
from engine.jx2smt import SV
from engine.vexpr import V, vs, where, all_, any_, pick, put, count
from envs.base import Harness, register

N = 9


def _units():
    """the 27 groups (rows, columns, boxes) as lists of (r, c)"""
    rows = [[(r, c) for c in range(N)] for r in range(N)]
    cols = [[(r, c) for r in range(N)] for c in range(N)]
    boxes = [[(3 * br + i, 3 * bc + j) for i in range(3) for j in range(3)] for br in range(3) for bc in range(3)]
    return rows, cols, boxes


ROWS, COLS, BOXES = _units()
UNITS = [("row", i, u) for i, u in enumerate(ROWS)] + [("column", i, u) for i, u in enumerate(COLS)] + [("box", i, u) for i, u in enumerate(BOXES)]
PEERS = {}
for _r in range(N):
    for _c in range(N):
        _p = set(ROWS[_r]) | set(COLS[_c]) | set(BOXES[3 * (_r // 3) + _c // 3])
        _p.discard((_r, _c))
        PEERS[(_r, _c)] = sorted(_p)


def _engine_flags():
    """process-wide engine switches (each job runs in its own process), see engine/jx2smt.py"""
    J.SORT_LEMMAS = False      # the 27 sorts inside is_puzzle_solved otherwise tax every query by ~10 s
    J.COMPACT_SCATTER = True   # board.at[r, c].set(d): cell = ite(r==i & c==j, d, old) instead of an 81-deep chain per cell


def _biff(a, b):
    """a <=> b, folded when both sides are the same term"""
    from engine.jx2smt import is_sym
    if is_sym(a.x) and is_sym(b.x) and a.x.eq(b.x):
        return X.TRUE
    return a.iff(b)


@register
class SudokuH(Harness):
    ENV = "Sudoku"
    QUICK = ["Sudoku"]
    THOROUGH = []
    INVALID = "terminate"
    MULTI_DISCRETE = True

    # ------------------------------------------------------------------ state
    def sym_state(self, ctx, tag="S"):
        """the cached `action_mask` is built from the board by the harness' OWN rule: Inv contains "action_mask == rule(board)"
        (proved for reset and for every non-terminal successor, where the mask comes from the code's get_action_mask), so this
        enumerates exactly the states satisfying that conjunct.  Tying it through the code's function instead (as the other
        harnesses do) put 60k extra term nodes into every query of this 9x9x9 mask (measured 7-15 s per query before any goal)."""
        from jumanji.environments.logic.sudoku.types import State
        _engine_flags()
        board = ctx.fresh_arr(tag + ".board", (N, N), np.int32, -1, N - 1)
        key = ctx.fresh_arr(tag + ".key", (2,), np.uint32)
        mask = X.to_sv(self._rule(vs(board)), np.bool_)
        return State(board=board, action_mask=mask, key=key), []

    def constraints(self, st):
        b = vs(st.board)
        ob = []
        for kind, i, u in UNITS:
            ob.append((f"{kind} {i}: no digit twice",
                       all_([(b[p] == -1) | (b[p] != b[q]) for k, p in enumerate(u) for q in u[:k]])))
        return ob

    def inv(self, st, ctx=None):
        """reachable NON-TERMINAL boards: conflict-free, and some action is still legal"""
        b = vs(st.board)
        rule = self.mask_rule(st)
        m = vs(st.action_mask)
        ob = [("cells in -1..8", all_([(x >= -1) & (x < N) for x in b.reshape(-1)]))]
        for r in range(N):
            ob.append((f"cached action_mask[{r},:,:] == mask rule", all_([_biff(m[r, c, d], rule[r, c, d]) for c in range(N) for d in range(N)])))
        ob += self.constraints(st)
        ob.append(("episode not over: some action is legal", any_(list(rule.reshape(-1)))))
        return ob

    # ------------------------------------------------------------------ rules
    def _rule(self, b):
        out = np.empty((N, N, N), dtype=object)
        for r in range(N):
            for c in range(N):
                empty = b[r, c] == -1
                for d in range(N):
                    out[r, c, d] = empty & all_([b[p] != d for p in PEERS[(r, c)]])
        return out

    def mask_rule(self, st):
        return self._rule(vs(st.board))

    def _solved(self, b):
        """every row, column and box contains every digit (the wording of the docs / of is_puzzle_solved's docstring)"""
        return all_([any_([b[p] == d for p in u]) for _, _, u in UNITS for d in range(N)])

    def _complete_feasible(self, b):
        """all cells filled and no digit twice in any row, column or box -- the same set of boards as `_solved` (pigeonhole on
        9 cells / 9 digits; proved per unit as an oracle-consistency obligation in `_reward_kernels`), but in the form the
        solver can use locally"""
        return all_([x >= 0 for x in b.reshape(-1)]) & all_([b[p] != b[q] for _, _, u in UNITS for k, p in enumerate(u) for q in u[:k]])

    def treated_invalid(self, st, act, ns, ts):
        # the environment's reaction to an invalid action is termination; a legal action may terminate too (last legal move),
        # so the reaction is told apart by what the terminal board shows: no cell newly filled (a filled cell was overwritten) or
        # a digit repeated in a row/column/box
        b0, b1 = vs(st.board), vs(ns.board)
        nothing_new = all_([(b0[p] == -1).iff(b1[p] == -1) for p in np.ndindex(N, N)])
        conflict = ~all_([v for _, v in self.constraints(ns)])
        return [(vs(ts.step_type) == 2) & (nothing_new | conflict)]

    def _invalid_witness(self, st, act, ns, bad):
        """invalid action => S' is not a complete conflict-free board, stated through LOCAL witnesses (the global form
        "not (all cells filled and 972 pairs distinct)" is `unknown` at 60 s, each witness takes < 1 s):
        the target was filled -> another cell is still empty (Inv: some action was legal);
        the target was empty  -> S' shows the written digit in the target AND in one of its row/column/box peers."""
        b0, b1, a = vs(st.board), vs(ns.board), vs(act)
        tgt_filled = pick(b0, a[0], a[1]) != -1
        peer_repeats = X.FALSE
        for (r, c), ps in PEERS.items():
            peer_repeats = peer_repeats | ((a[0] == r) & (a[1] == c) & any_([b1[q] == a[2] for q in ps]))
        return [("invalid action on a filled cell => S' still has an empty cell (not solved)",
                 (bad & tgt_filled).implies(any_([x == -1 for x in b1.reshape(-1)]))),
                ("invalid action on an empty cell => a row/column/box peer of the target holds the written digit in S'",
                 (bad & ~tgt_filled).implies(peer_repeats)),
                ("invalid action on an empty cell => the target holds the written digit in S' (so a unit has it twice: not solved)",
                 (bad & ~tgt_filled).implies(pick(b1, a[0], a[1]) == a[2]))]

    def illegal_effect(self, st, act, ns, ts, bad):
        b = bad[0]
        rw = vs(ts.reward)
        # reward 0: the reward is [is_puzzle_solved(S'.board)] and is_puzzle_solved == complete & conflict-free (kernel
        # obligations K1-K3 of the same run) and S' is not such a board (witness obligations).  The direct query "invalid =>
        # reward == 0" drags 27 nine-element sorting circuits through a pigeonhole argument and stays `unknown` at 100 s.
        return [("invalid action => LAST", b.implies(vs(ts.step_type) == 2)),
                ("reward is 0 or 1", (rw == np.float32(0.0)) | (rw == np.float32(1.0)))] + self._invalid_witness(st, act, ns, b)

    def kernels_c05(self, R):
        self._reward_kernels(R)

    def complete(self, st, ts):
        """completion (no empty cell left) => complete feasible solution: every cell a digit 0..8 and no digit twice in any row,
        column or box.  The equivalent wording "every unit contains every digit" is the pigeonhole image of this (proved per
        nine-cell unit as K3 oracle consistency in the reward kernels); asked at step level it costs 10-40 s per unit."""
        b = vs(st.board)
        full = all_([x >= 0 for x in b.reshape(-1)])
        # (the no-digit-twice half is exactly the list C(S'), proved in the same run for EVERY legal step, completed or not --
        # not repeated under the completion guard: 27 more queries per encoded step)
        return full, [("all cells hold digits 0..8 (with C(S'): a complete feasible solution)", all_([(x >= 0) & (x < N) for x in b.reshape(-1)]))]

    def reward_law(self, st, act, ns, ts, legal):
        # Phi_total = [board correctly solved], paid when the episode ends.  Step level: the cheap facts; "reward ==
        # [S' complete & conflict-free]" itself is composed from the kernel obligations K1-K3 (kernels_c08)
        rw = vs(ts.reward)
        done = self._complete_feasible(vs(ns.board))
        return [("reward is 0 or 1", (rw == np.float32(0.0)) | (rw == np.float32(1.0))),
                ("a complete conflict-free board ends the episode (the reward 1 is paid on LAST only)", done.implies(vs(ts.step_type) == 2)),
                ("a legal action that fills the last empty cell yields a complete conflict-free board (final reward 1)",
                 (legal & all_([x >= 0 for x in vs(ns.board).reshape(-1)])).implies(done))]

    def kernels_c08(self, R):
        self._reward_kernels(R)

    REF_DRAWS = True   # only used to evaluate the termination rule on S'.board, see below

    def ref_step(self, st, act, ns=None):
        b, a = vs(st.board), vs(act)
        legal = pick(self.mask_rule(st), a[0], a[1], a[2])
        nb = put(b, (a[0], a[1]), a[2])
        # termination: illegal, or no empty cell of the successor board has a digit absent from its row, column and box.  The
        # rule is evaluated on S'.board, which obligation "S'.board == reference" of the same list proves equal to `nb` for
        # legal actions (for illegal ones the disjunct is irrelevant): stated on `nb` the solver has to rediscover the 81 cell
        # equalities inside a 729-way disjunction (measured 76 s instead of 1 s)
        none_left = ~any_(list(self._rule(vs(ns.board)).reshape(-1)))
        # no "reward" entry: see kernels_c09
        return {"board": nb, "key": vs(st.key), "_when": legal, "last": (~legal) | none_left}

    def kernels_c09(self, R):
        """reward == reference reward [legal and the reference successor board is complete & conflict-free], composed of K1-K3
        and one step-level harness-side obligation"""
        from checks import drivers as D
        self._reward_kernels(R)
        sp = D.build_step(R, self, validate=0)

        def obl(st, act, ns, ts):
            b, a = vs(st.board), vs(act)
            legal = pick(self.mask_rule(st), a[0], a[1], a[2])
            nb = put(b, (a[0], a[1]), a[2])
            c1, cr = self._complete_feasible(vs(ns.board)), self._complete_feasible(nb)
            # reference reward = [legal & reference board complete & conflict-free]; with the witnesses below (illegal => S' not
            # complete & conflict-free) this is [S' complete & conflict-free], i.e. the emitted reward by K1-K3
            return [("legal => ([S' complete & conflict-free] <=> [reference board complete & conflict-free])", legal.implies(_biff(c1, cr)))] + \
                self._invalid_witness(st, act, ns, ~legal)
        D.prove_list(R, sp, obl, prefix="reward: ")

    # ------------------------------------------------------------------ reward kernels (compositional proof of the sparse reward)
    def _reward_kernels(self, R):
        """reward(S, a) == [S'.board complete & conflict-free], in three solver-checked links (substitution is done outside):
        K1  the reward term emitted by env.step IS float32(is_puzzle_solved(S'.board))              (step level, all S, a)
        K2  is_puzzle_solved(B) == AND over the 27 units u of row_ok(B[u]), row_ok(r) := all(sort(r) == arange(9))  (all B in -1..8)
        K3  row_ok(r) <=> r has no empty cell and no repeated digit                                (all rows r in -1..8)"""
        import jax
        import jax.numpy as jnp
        from jumanji.environments.logic.sudoku import utils as U
        from engine.jx2smt import Ctx
        _engine_flags()

        def row_ok(r):
            return (jnp.sort(r) == jnp.arange(N)).all()

        # ---- K1
        ctx = Ctx()
        st, _ = self.sym_state(ctx, "K1")
        act, apre = S.sym_action(ctx, self.env, tag="K1.a")
        ns, ts = S.call(ctx, self.env.step, st, act, R=R, name="Sudoku.step")
        solved = S.call(ctx, U.is_puzzle_solved, ns.board, R=R, name="is_puzzle_solved")
        A = apre + ctx.assumptions

        def k1(ts_, solved_):
            return vs(ts_.reward) == where(vs(solved_), np.float32(1.0), np.float32(0.0), np.float32)

        def rp1(model):
            s_np, a_np = S.model_tree(model, st), S.model_sv(model, act)
            from checks import common as C
            ns_, ts_ = C.real_step(self.env, s_np, a_np)
            sv = np.asarray(jax.jit(U.is_puzzle_solved)(jnp.asarray(ns_.board)))
            return (not bool(k1(S.conc_tree(ts_), SV(sv, sv.dtype)))), {"board": np.asarray(s_np.board).tolist(), "action": np.asarray(a_np).tolist(),
                                                                        "reward": float(ts_.reward), "is_puzzle_solved(S')": bool(sv)}
        v = k1(ts, solved)
        R.prove("K1: step reward == float32(is_puzzle_solved(S'.board)) for every state and action", A, v.term() if not v.conc else bool(v), replay=rp1)

        # ---- K2
        ctx = Ctx()
        B = ctx.fresh_arr("K2.board", (N, N), np.int32, -1, N - 1)
        full = S.call(ctx, U.is_puzzle_solved, B, R=R, name="is_puzzle_solved")
        Bo = B.obj()
        parts = [S.call(ctx, row_ok, SV(np.array([Bo[p] for p in u], dtype=object), np.int32)) for _, _, u in UNITS]

        def k2(full_, parts_):
            return vs(full_).iff(all_([vs(x) for x in parts_]))

        def rp2(model):
            b_np = S.model_sv(model, B)
            f = np.asarray(jax.jit(U.is_puzzle_solved)(jnp.asarray(b_np)))
            ps = [np.asarray(jax.jit(row_ok)(jnp.asarray(np.array([b_np[p] for p in u], np.int32)))) for _, _, u in UNITS]
            return (not bool(k2(SV(f, f.dtype), [SV(x, x.dtype) for x in ps]))), {"board": b_np.tolist(), "is_puzzle_solved": bool(f)}
        v = k2(full, parts)
        R.prove("K2: is_puzzle_solved(B) == AND over rows, columns, boxes of all(sort(unit) == arange(9)), every board",
                list(ctx.assumptions), v.term() if not v.conc else bool(v), replay=rp2)

        # ---- K3 (one nine-cell unit, every content in -1..8)
        ctx = Ctx()
        row = ctx.fresh_arr("K3.row", (N,), np.int32, -1, N - 1)
        ok = S.call(ctx, row_ok, row, R=R, name="row_ok")
        srt = S.call(ctx, jnp.sort, row, R=R, name="jnp.sort")

        def k3(row_, ok_, srt_):
            r, o, okv = vs(row_), vs(srt_), vs(ok_)
            atleast = all_([any_([r[i] == d for i in range(N)]) for d in range(N)])
            distinct = all_([r[i] >= 0 for i in range(N)] + [r[i] != r[j] for i in range(N) for j in range(i)])
            out = [("K3: row_ok(r) <=> sort(r)[k] == k for all k", okv.iff(all_([o[k] == k for k in range(N)]))),
                   ("K3: row_ok(r) => every digit occurs in r", okv.implies(atleast)),
                   ("K3 (oracle consistency, pigeonhole): every digit occurs in r => r has no empty cell and no repeated digit", atleast.implies(distinct)),
                   ("K3 (oracle consistency): no empty cell, no repeated digit => every digit occurs in r", distinct.implies(atleast))]
            out += [(f"K3: r has no empty cell and no repeated digit => sort(r)[{k}] == {k}", distinct.implies(o[k] == k)) for k in range(N)]
            return out

        def rp3(name):
            def replay(model):
                r_np = S.model_sv(model, row)
                okc = np.asarray(jax.jit(row_ok)(jnp.asarray(r_np)))
                sc = np.asarray(jnp.sort(jnp.asarray(r_np)))
                vals = dict(k3(SV(r_np, r_np.dtype), SV(okc, okc.dtype), SV(sc, sc.dtype)))
                return (not bool(vals[name])), {"row": r_np.tolist(), "sorted": sc.tolist(), "row_ok": bool(okc)}
            return replay
        R.reach("K3: row domain", list(ctx.assumptions))
        for n_, v in k3(row, ok, srt):
            R.prove(n_, list(ctx.assumptions), v.term() if not v.conc else bool(v), replay=rp3(n_))
        R.note("Sudoku reward: K1 o K2 o K3 => reward(S,a) == [S'.board has no empty cell and no digit twice in a row/column/box]")

    def measure(self, st):
        return count([x >= 0 for x in vs(st.board).reshape(-1)]), N * N

    def measure_local(self, st, act, ns, ts):
        """structural horizon: measure = number of filled cells <= 81; on a MID step exactly the (empty) target cell becomes filled
        and every other cell keeps its filled/empty status, so the measure grows by exactly 1 (frame + local delta; the global
        form sum(S') >= sum(S) + 1 over 81 cells is `unknown` at 120 s)"""
        b0, b1, a = vs(st.board), vs(ns.board), vs(act)
        mid = vs(ts.step_type) == 1
        ob = [("MID step: the target cell was empty and is filled in S'",
               mid.implies((pick(b0, a[0], a[1]) == -1) & (pick(b1, a[0], a[1]) >= 0)))]
        for r in range(N):
            ob.append((f"MID step: row {r}: every cell other than the target keeps its filled/empty status",
                       mid.implies(all_([((a[0] == r) & (a[1] == c)) | (b0[r, c] >= 0).iff(b1[r, c] >= 0) for c in range(N)]))))
        ob.append((f"measure(S') <= structural bound {N * N}", self.measure(ns)[0] <= N * N))
        return ob

    def observer(self, ns):
        return {"board": vs(ns.board), "action_mask": vs(ns.action_mask)}

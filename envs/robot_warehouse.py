"""RobotWarehouse harness.

Rules (docs/environments/robot_warehouse.md, class docstring of RobotWarehouse, docstrings of utils*.py):
* floor = rows x cols grid, two channels (agents, shelves) holding `id + 1`; agent/shelf TABLES hold positions
  (Position.x = row, Position.y = column), direction UP/RIGHT/DOWN/LEFT = 0..3, is_carrying, is_requested;
* actions per agent: 0 noop, 1 forward (one cell in the facing direction, clamped at the border), 2 turn left,
  3 turn right, 4 toggle_load (pick up the shelf under the agent / put it down unless on a highway cell);
* "If the agent is carrying a shelf and collides with another shelf based on its current action, this action is
  deemed invalid" (utils.is_valid_action) and is replaced by a no-op (env.step: "check for invalid action -> turn
  into noops"); the .md additionally says the episode terminates on an invalid action -- the code does not, and C05
  follows the code comment/`get_valid_actions` docstring (ignore-invalid);
* agents act in index order (scan over agents); the episode ends when two agents collide or at the time limit;
* reward = +1 per requested shelf that is on a goal cell after the move; the delivered shelf leaves the request
  queue and a shelf that is not in the queue is requested instead (random).

What the docs do NOT determine and how the claim is restricted:
* "collision" for simultaneous moves: we use the sequential reading (an agent enters a cell that another agent
  occupies at that moment, agents moving in index order) -- the only reading compatible with the scan in `step`;
* the observation and the grid of a step that ENDS the episode by a collision (the grid then holds garbage); C12 is
  claimed for collision-free steps only (hook `obs_guard`), grid <-> table agreement only for non-terminal S';
* the second goal cell is evaluated against the queue that already contains the random replacement of a delivery on
  the first goal cell; where that draw decides, the reward is only claimed to lie in {1, 2}.
"""
import numpy as np

from engine import jx2smt as J
from engine import sym as S
from engine import vexpr as X
from engine.jx2smt import SV
from engine.vexpr import V, vs, where, all_, any_, pick, count, TRUE, FALSE
from envs.base import Harness, register

NOOP, FORWARD, LEFT, RIGHT, TOGGLE = range(5)
UP, RIGHT_D, DOWN, LEFT_D = range(4)
F32 = np.dtype(np.float32)
I32 = np.dtype(np.int32)


class _T:
    """raw arrays of a State as object arrays of V"""

    def __init__(self, st):
        self.ax, self.ay = vs(st.agents.position.x), vs(st.agents.position.y)
        self.ad, self.ac = vs(st.agents.direction), vs(st.agents.is_carrying)
        self.sx, self.sy = vs(st.shelves.position.x), vs(st.shelves.position.y)
        self.sr = vs(st.shelves.is_requested)
        self.q = vs(st.request_queue)
        self.g = vs(st.grid)   # (2, rows, cols): channel 0 shelves, channel 1 agents


@register
class RobotWarehouseH(Harness):
    ENV = "RobotWarehouse"
    QUICK = ["RobotWarehouse"]
    THOROUGH = ["RobotWarehouse@1x3x1x3x2", "RobotWarehouse@1x3x2x2x3"]
    INVALID = "ignore"
    TIME_LIMIT = True
    OBS_GROUP = 11          # C12: agents_view (agents x 66) is compared in chunks of 11 features (one query each)

    def __init__(self, cfg, **over):
        super().__init__(cfg, **over)
        e = self.env
        self.Hh, self.Ww = (int(v) for v in e.grid_size)
        self.NA = int(e.num_agents)
        self.NS = int(np.asarray(e.shelf_ids).shape[0])
        self.Q = int(e.request_queue_size)
        self.hw = np.asarray(e.highways).astype(bool)                      # (rows, cols) constant of the layout
        self.hwV = vs(SV(self.hw, np.bool_))
        self.goals = [(int(r), int(c)) for c, r in np.asarray(e.goals)]    # env.goals holds (column, row)
        assert int(e.sensor_range) == 1, "observer written for sensor_range 1"

    # ------------------------------------------------------------------ geometry
    def _target(self, x, y, d):
        """cell ahead of (x, y) in direction d, clamped at the border"""
        tx = where(d == UP, X.vmax(x - 1, 0), where(d == DOWN, X.vmin(x + 1, self.Hh - 1), x))
        ty = where(d == RIGHT_D, X.vmin(y + 1, self.Ww - 1), where(d == LEFT_D, X.vmax(y - 1, 0), y))
        return tx, ty

    def _highway(self, x, y):
        return pick(self.hwV, x, y, default=TRUE)

    # ------------------------------------------------------------------ pre-state
    def sym_state(self, ctx, tag="S"):
        from jumanji.environments.routing.robot_warehouse import utils
        from jumanji.environments.routing.robot_warehouse.types import Agent, Position, Shelf, State
        Hh, Ww, NA, NS, Q = self.Hh, self.Ww, self.NA, self.NS, self.Q
        ax = ctx.fresh_arr(tag + ".agents.x", (NA,), np.int32, 0, Hh - 1)
        ay = ctx.fresh_arr(tag + ".agents.y", (NA,), np.int32, 0, Ww - 1)
        ad = ctx.fresh_arr(tag + ".agents.direction", (NA,), np.int32, 0, 3)
        ac = ctx.fresh_arr(tag + ".agents.is_carrying", (NA,), np.int32, 0, 1)
        sx = ctx.fresh_arr(tag + ".shelves.x", (NS,), np.int32, 0, Hh - 1)
        sy = ctx.fresh_arr(tag + ".shelves.y", (NS,), np.int32, 0, Ww - 1)
        # is_requested is float32 in the real state (jnp.zeros(...) in the generator): one FP variable per shelf in {0.0, 1.0}
        sr = ctx.fresh_arr(tag + ".shelves.is_requested", (NS,), np.float32)
        pre = []
        for x in sr.a.reshape(-1):
            J.vs_set(x, [np.float32(0.0), np.float32(1.0)])
            pre.append(J.to_z3(J.b_or(S.el_eq(x, np.float32(0.0), F32), S.el_eq(x, np.float32(1.0), F32)), np.bool_))   # bit equality (+0.0 only)
        queue = ctx.fresh_arr(tag + ".request_queue", (Q,), np.int32, 0, NS - 1)
        step = ctx.fresh_arr(tag + ".step_count", (), np.int32, 0, self.T - 1)
        key = ctx.fresh_arr(tag + ".key", (2,), np.uint32)
        # The invariant ("channel cell == id+1 <=> table position") determines the grid uniquely from the tables, so the
        # grid of the arbitrary pre-state is written as that function of the tables instead of 2*rows*cols free variables
        # constrained to it (same set of states, far cheaper).  The conjuncts stay in inv() and are PROVED for reset and S'.
        axv, ayv, sxv, syv = vs(ax), vs(ay), vs(sx), vs(sy)
        g = np.empty((2, Hh, Ww), dtype=object)
        for r in range(Hh):
            for c in range(Ww):
                cell = X.const(0)
                for s in reversed(range(NS)):
                    cell = where((sxv[s] == r) & (syv[s] == c), s + 1, cell)
                g[0, r, c] = cell
                cell = X.const(0)
                for a in reversed(range(NA)):
                    cell = where((axv[a] == r) & (ayv[a] == c), a + 1, cell)
                g[1, r, c] = cell
        grid = X.to_sv(g, np.int32)
        self._derived_grid = grid.a   # inv(): the grid <-> table conjuncts hold by construction for THIS array (given distinct cells)
        agents = Agent(position=Position(x=ax, y=ay), direction=ad, is_carrying=ac)
        shelves = Shelf(position=Position(x=sx, y=sy), is_requested=sr)
        mask = S.call(ctx, utils.compute_action_mask, grid, agents)
        st = State(grid=grid, agents=agents, shelves=shelves, request_queue=queue, step_count=step, action_mask=mask, key=key)
        return st, pre

    def inv(self, st, ctx=None):
        Hh, Ww, NA, NS, Q = self.Hh, self.Ww, self.NA, self.NS, self.Q
        t = _T(st)
        ob = []
        for a in range(NA):
            ob.append((f"agent{a}: inside the floor, direction in 0..3, is_carrying in {{0,1}}",
                       (t.ax[a] >= 0) & (t.ax[a] < Hh) & (t.ay[a] >= 0) & (t.ay[a] < Ww) & (t.ad[a] >= 0) & (t.ad[a] <= 3)
                       & ((t.ac[a] == 0) | (t.ac[a] == 1))))
        ob.append(("agents stand on pairwise distinct cells",
                   all_([~((t.ax[a] == t.ax[b]) & (t.ay[a] == t.ay[b])) for a in range(NA) for b in range(a)])))
        ob.append(("shelves are inside the floor", all_([(t.sx[s] >= 0) & (t.sx[s] < Hh) & (t.sy[s] >= 0) & (t.sy[s] < Ww) for s in range(NS)])))
        for a in range(1, NS):
            ob.append((f"shelf{a} shares its cell with no shelf of lower id (shelves on pairwise distinct cells)",
                       all_([~((t.sx[a] == t.sx[b]) & (t.sy[a] == t.sy[b])) for b in range(a)])))
        if st.grid.a is not getattr(self, "_derived_grid", None):
            # (for the pre-state built by sym_state the grid IS this function of the tables: adding the tautology only slows the solver)
            # one conjunct per entity rather than per cell/row: the solver then reasons about one table entry at a time
            cells = [(r, c) for r in range(Hh) for c in range(Ww)]
            ob.append(("grid: agents channel values in 0..num_agents, shelves channel values in 0..num_shelves",
                       all_([(t.g[1, r, c] >= 0) & (t.g[1, r, c] <= NA) & (t.g[0, r, c] >= 0) & (t.g[0, r, c] <= NS) for r, c in cells])))
            for a in range(NA):
                ob.append((f"grid agents channel: cell == {a + 1} <=> agent{a}'s table position, for every cell",
                           all_([(t.g[1, r, c] == a + 1).iff((t.ax[a] == r) & (t.ay[a] == c)) for r, c in cells])))
            for s in range(NS):
                ob.append((f"grid shelves channel: cell == {s + 1} <=> shelf{s}'s table position, for every cell",
                           all_([(t.g[0, r, c] == s + 1).iff((t.sx[s] == r) & (t.sy[s] == c)) for r, c in cells])))
        for a in range(NA):
            # read off the shelves channel (with the channel <=> table conjuncts: some shelf's table position is the agent's cell)
            ob.append((f"agent{a}: carrying => a shelf is under the agent",
                       (t.ac[a] != 0).implies(pick(t.g[0], t.ax[a], t.ay[a], default=0) != 0)))
        for s in range(NS):
            ob.append((f"shelf{s}: on a highway cell => carried by an agent standing there (shelves rest on rack cells only)",
                       self._highway(t.sx[s], t.sy[s]).implies(
                           any_([(t.ax[a] == t.sx[s]) & (t.ay[a] == t.sy[s]) & (t.ac[a] == 1) for a in range(NA)]))))
        ob.append(("request queue: shelf ids in range, pairwise distinct",
                   all_([(t.q[k] >= 0) & (t.q[k] < NS) for k in range(Q)] + [t.q[k] != t.q[j] for k in range(Q) for j in range(k)])))
        for s in range(NS):
            inq = any_([t.q[k] == s for k in range(Q)])
            ob.append((f"shelf{s}: is_requested == 1.0 if in the request queue else 0.0",
                       where(inq, t.sr[s] == np.float32(1.0), t.sr[s] == np.float32(0.0), X.BOOL)))
        ob.append(("step_count in [0, time_limit]", (vs(st.step_count) >= 0) & (vs(st.step_count) <= self.T)))
        ob.append(("cached action_mask == mask rule", X.eq_arr(vs(st.action_mask), self.mask_rule(st))))
        return ob

    # ------------------------------------------------------------------ rules
    def mask_rule(self, st):
        """legal(agent, a) <=> not (a == FORWARD and carrying and the cell ahead is another cell and holds a shelf)"""
        t = _T(st)
        out = np.empty((self.NA, 5), dtype=object)
        for a in range(self.NA):
            tx, ty = self._target(t.ax[a], t.ay[a], t.ad[a])
            ahead_is_other_cell = ~((tx == t.ax[a]) & (ty == t.ay[a]))
            # "holds a shelf" is read off the shelves channel of the floor grid (raw array; Inv ties it to the shelf table)
            blocked = (t.ac[a] != 0) & ahead_is_other_cell & (pick(t.g[0], tx, ty, default=0) != 0)
            for k in range(5):
                out[a, k] = ~blocked if k == FORWARD else TRUE
        return out

    def treated_invalid(self, st, act, ns, ts):
        """the environment's own reaction: the agent asked for FORWARD, a different cell lies ahead, and it did not move"""
        t, n, a = _T(st), _T(ns), vs(act)
        out = []
        for i in range(self.NA):
            tx, ty = self._target(t.ax[i], t.ay[i], t.ad[i])
            ahead_is_other_cell = ~((tx == t.ax[i]) & (ty == t.ay[i]))
            out.append((a[i] == FORWARD) & ahead_is_other_cell & (n.ax[i] == t.ax[i]) & (n.ay[i] == t.ay[i]))
        return out

    def illegal_effect(self, st, act, ns, ts, bad):
        """ignore-invalid ("turn into noops"): the offending agent keeps position, direction and its load, the shelf it
        carries stays where it is"""
        t, n = _T(st), _T(ns)
        ob = []
        for i, b in enumerate(bad):
            ob.append((f"illegal agent{i} keeps its position and direction",
                       b.implies((n.ax[i] == t.ax[i]) & (n.ay[i] == t.ay[i]) & (n.ad[i] == t.ad[i]))))
            ob.append((f"illegal agent{i} keeps its load (is_carrying unchanged, as for a no-op)", b.implies(n.ac[i] == t.ac[i])))
            ob.append((f"the shelf under illegal agent{i} does not move",
                       all_([(b & (t.sx[s] == t.ax[i]) & (t.sy[s] == t.ay[i])).implies((n.sx[s] == t.sx[s]) & (n.sy[s] == t.sy[s]))
                             for s in range(self.NS)])))
        return ob

    # ------------------------------------------------------------------ independent sequential model on the tables
    def _model(self, st, act, noop_drops=False):
        """agents act in index order on the agent/shelf TABLES (no grid): -> dict of new tables, collision flag.
        noop_drops=True reproduces the implementation's deviation (load dropped off-highway by NOOP as well), used ONLY by
        kernels_c09 to show that this deviation is the whole difference"""
        t, a = _T(st), vs(act)
        NA, NS = self.NA, self.NS
        legal = self.action_legal(st, act)
        ax, ay, ad, ac = list(t.ax), list(t.ay), list(t.ad), list(t.ac)
        sx, sy = list(t.sx), list(t.sy)
        collision = FALSE
        for i in range(NA):
            eff = where(legal[i], a[i], NOOP)
            fwd = eff == FORWARD
            tx, ty = self._target(ax[i], ay[i], ad[i])
            moved = fwd & ~((tx == ax[i]) & (ty == ay[i]))
            nx, ny = where(moved, tx, ax[i]), where(moved, ty, ay[i])
            collision = collision | (moved & any_([(nx == ax[j]) & (ny == ay[j]) for j in range(NA) if j != i]))
            carrying = ac[i] != 0
            for s in range(NS):
                under = (sx[s] == ax[i]) & (sy[s] == ay[i])
                sx[s], sy[s] = where(moved & carrying & under, nx, sx[s]), where(moved & carrying & under, ny, sy[s])
            shelf_here = any_([(sx[s] == ax[i]) & (sy[s] == ay[i]) for s in range(NS)])
            on_highway = self._highway(ax[i], ay[i])
            ad[i] = where(eff == LEFT, (ad[i] + 3) % 4, where(eff == RIGHT, (ad[i] + 1) % 4, ad[i]))
            # toggle_load: pick up the shelf under the agent / put the load down unless on a highway; every other action
            # (in particular the no-op) leaves the load alone
            drop = ((eff == TOGGLE) | (eff == NOOP)) if noop_drops else (eff == TOGGLE)
            ac[i] = where((eff == TOGGLE) & ~carrying & shelf_here, 1, where(drop & carrying & ~on_highway, 0, ac[i]))
            ax[i], ay[i] = nx, ny
        arr = lambda xs: np.array(xs, dtype=object)  # noqa
        return {"ax": arr(ax), "ay": arr(ay), "ad": arr(ad), "ac": arr(ac), "sx": arr(sx), "sy": arr(sy), "collision": collision}

    def ref_step(self, st, act):
        m = self._model(st, act)
        sc = vs(st.step_count) + 1
        # reward / request queue / is_requested depend on the random re-request (see reward_law and conserve)
        return {"agents.position.x": m["ax"], "agents.position.y": m["ay"], "agents.direction": m["ad"], "agents.is_carrying": m["ac"],
                "shelves.position.x": m["sx"], "shelves.position.y": m["sy"], "step_count": sc,
                "last": m["collision"] | (sc >= self.T)}

    def other_done(self, st, act, ns, ts):
        return self._model(st, act)["collision"]

    # ------------------------------------------------------------------ C07 conservation (frame + local delta)
    def conserve(self, st, act, ns, ts):
        t, n, a = _T(st), _T(ns), vs(act)
        NA, NS, Q = self.NA, self.NS, self.Q
        ob = []
        for i in range(NA):
            dist = abs_(n.ax[i] - t.ax[i]) + abs_(n.ay[i] - t.ay[i])
            ob.append((f"agent{i} moves at most one cell, and only on FORWARD", (dist <= 1) & ((dist == 1).implies(a[i] == FORWARD))))
        for s in range(NS):
            moved = ~((n.sx[s] == t.sx[s]) & (n.sy[s] == t.sy[s]))
            carrier = [(t.ax[i] == t.sx[s]) & (t.ay[i] == t.sy[s]) & (t.ac[i] == 1) & (a[i] == FORWARD) & (n.ax[i] == n.sx[s]) & (n.ay[i] == n.sy[s])
                       for i in range(NA)]
            ob.append((f"shelf{s} moves only under a carrying agent that drives FORWARD, by one cell, and stays under it",
                       moved.implies(any_(carrier) & (abs_(n.sx[s] - t.sx[s]) + abs_(n.sy[s] - t.sy[s]) == 1))))
        at_goal = [n.g[0, r, c] for (r, c) in self.goals]         # shelf id + 1 standing on each goal cell after the move (0 = none)
        was_delivered = lambda k: any_([g == t.q[k] + 1 for g in at_goal])  # noqa
        for k in range(Q):
            delivered = was_delivered(k)
            # (the replacement is drawn among the shelves outside the queue AT THAT MOMENT; after a delivery on the first goal
            # cell that may be the shelf just delivered there, so nothing more is claimed about the new id than Inv's distinctness)
            ob.append((f"request queue slot {k} changes only if its shelf stands on a goal cell (delivery)",
                       (n.q[k] != t.q[k]).implies(delivered)))
        for s in range(NS):
            ob.append((f"shelf{s}: is_requested changes only when some requested shelf is delivered",
                       (~X.biteq(n.sr[s], t.sr[s])).implies(any_([was_delivered(k) for k in range(Q)]))))
        return ob

    # ------------------------------------------------------------------ C08
    def reward_law(self, st, act, ns, ts, legal):
        t, n = _T(st), _T(ns)
        r = vs(ts.reward)
        (r0, c0), (r1, c1) = self.goals
        g0, g1 = n.g[0, r0, c0], n.g[0, r1, c1]           # shelf id + 1 on the goal cells after the move (0 = none)
        inq = lambda g: (g != 0) & any_([t.q[k] + 1 == g for k in range(self.Q)])  # noqa
        d0, d1 = inq(g0), inq(g1)
        f = lambda k: np.float32(k)  # noqa
        return [("no requested shelf on the first goal cell: reward == [requested shelf on the second goal cell]",
                 (~d0).implies(r == where(d1, f(1), f(0), F32))),
                ("requested shelves (of the pre-step queue) on both goal cells: reward == 2", (d0 & d1).implies(r == f(2))),
                ("requested shelf on the first goal cell only, second goal cell empty: reward == 1", (d0 & (g1 == 0)).implies(r == f(1))),
                ("requested shelf on the first goal cell, a non-requested shelf on the second: reward in {1, 2} (2 iff the random re-request picks that shelf)",
                 (d0 & ~d1 & (g1 != 0)).implies((r == f(1)) | (r == f(2))))]

    # ------------------------------------------------------------------ C12
    def obs_guard(self, st, act, ns, ts):
        """the observation of a step that ends by a collision is not documented (grid holds garbage): not claimed"""
        return ~self._model(st, act)["collision"]

    def observer(self, ns):
        """agents_view for sensor_range 1 (utils.calculate_num_observation_features docstring): own features
        [x, y, carrying, onehot(direction, 4), on_highway]; then for the 8 cells around the agent (3x3 window, row-major,
        centre skipped): [1, onehot(direction)] of another agent there, else 5 zeros; then for all 9 cells
        [1, is_requested] of a shelf there, else 2 zeros.  Cells outside the floor read as empty."""
        n = _T(ns)
        NA, NS = self.NA, self.NS
        zero, one = X.const(0), X.const(1)
        view = np.empty((NA, 8 + 8 * 5 + 9 * 2), dtype=object)
        window = [(dr, dc) for dr in (-1, 0, 1) for dc in (-1, 0, 1)]
        for i in range(NA):
            row = [n.ax[i], n.ay[i], n.ac[i]] + [where(n.ad[i] == d, 1, 0) for d in range(4)] + [where(self._highway(n.ax[i], n.ay[i]), 1, 0)]
            # what stands on a cell is read off the floor grid (raw channels, `id + 1`, 0 = empty; outside the floor = empty);
            # the attributes (direction, is_requested) come from the tables.  Inv (C07) ties channels and tables together.
            for dr, dc in window:
                if (dr, dc) == (0, 0):
                    continue
                aid = pick(n.g[1], n.ax[i] + dr, n.ay[i] + dc, default=0)
                other = (aid != 0) & (aid != i + 1)
                d = pick(n.ad, aid - 1, default=0)
                row += [where(other, 1, 0)] + [where(other & (d == k), 1, 0) for k in range(4)]
            for dr, dc in window:
                sid = pick(n.g[0], n.ax[i] + dr, n.ay[i] + dc, default=0)
                req = pick(n.sr, sid - 1, default=np.float32(0.0)).astype(I32)
                row += [where(sid != 0, 1, 0), where(sid != 0, req, 0)]
            assert len(row) == view.shape[1]
            view[i] = row
        return {"agents_view": view, "action_mask": self.mask_rule(ns), "step_count": vs(ns.step_count)}


def abs_(v):
    return where(v >= 0, v, -v)

"""Tetris harness.  Rules (docs/environments/tetris.md + class docstring, partly informal prose):
the current tetromino (one of I,S,Z,O,T,L,J; rotation index k = k x 90 degrees clockwise, the rotated shape pushed
to the top-left corner of a 4x4 box) is dropped with its box's left edge in column x: it enters the board from
above and falls straight down until it rests on a filled cell or on the floor; rows of the board without an empty
cell disappear and everything above them moves down; reward = [0, 40, 100, 300, 1200][rows cleared]; the episode
ends when the placement is infeasible, when the NEXT tetromino has no feasible placement ("hits the top"), or at
the time limit.

Where the prose does not determine the behaviour (stated, and the claim restricted accordingly):
* "feasible" (mask): read physically -- the piece is inside the board's columns and can ENTER from above up to the
  top position y = 0, i.e. for every piece cell all board cells on and above it (at y = 0) are empty.  (The weaker
  reading "fits at y = 0" differs only for boards with an overhang in the top three rows; the repo implements the
  physical reading through a filled-up silhouette.)
* the successor grid after an infeasible (terminal) action is not documented: state claims of the reference model
  are made under `legal` only; LAST and reward 0 are claimed for every illegal action.
* `State.y_position == -1` encodes "landed on the bottom row" (the viewer documents this convention).
* colours: filled cells hold positive "colour ids" (new piece = max+1); only zero / non-zero is documented."""
import numpy as np

from engine import sym as S
from engine import vexpr as X
from engine import jx2smt as J
from engine.jx2smt import SV
from engine.vexpr import V, vs, where, all_, any_, pick, count
from envs.base import Harness, register

F32 = np.float32
REWARDS = (0.0, 40.0, 100.0, 300.0, 1200.0)      # transcribed from docs/environments/tetris.md
BASE = {"I": ["X", "X", "X", "X"], "S": [".XX", "XX."], "Z": ["XX.", ".XX"], "O": ["XX", "XX"], "T": ["XXX", ".X."],
        "L": ["X.", "X.", "XX"], "J": [".X", ".X", "XX"]}
ORDER = "ISZOTLJ"


def _table():
    """independent statement of the 7 x 4 piece table: base shape, k clockwise quarter turns, top-left aligned"""
    out = np.zeros((7, 4, 4, 4), dtype=bool)
    for t, name in enumerate(ORDER):
        m = np.array([[ch == "X" for ch in row] for row in BASE[name]], dtype=bool)
        for k in range(4):
            r = np.rot90(m, -k)
            out[t, k, :r.shape[0], :r.shape[1]] = r
    return out


TAB = _table()


def _cells(t, k):
    return [(i, j) for i in range(4) for j in range(4) if TAB[t, k, i, j]]


@register
class TetrisH(Harness):
    ENV = "Tetris"
    QUICK = ["Tetris@5x4", "Tetris@6x6"]
    THOROUGH = ["Tetris@10x10"]
    INVALID = "terminate"
    TIME_LIMIT = True
    MULTI_DISCRETE = True
    REF_SPLIT = ("grid_padded",)   # C09: one obligation per grid row (the monolithic 6x6 query needs ~50 s, too close to the timeout under load)
    REF_DRAWS = True          # C09: the reference reads the freshly drawn next piece from S' (shared stub draw)
    SCORES = (0.0, 40.0, 80.0, 100.0, 140.0, 300.0, 1200.0)   # declared finite domain of the `score` accumulator

    def dims(self):
        return self.env.num_rows, self.env.num_cols

    # ------------------------------------------------------------------ pre-state
    def _sym_grid(self, ctx, name, hi):
        R_, C_ = self.dims()
        g = np.zeros((R_ + 3, C_ + 3), dtype=object)
        g[:R_, :C_] = ctx.fresh_arr(name, (R_, C_), np.int32, 0, hi).a
        return SV(g, np.int32)

    def sym_state(self, ctx, tag="S"):
        import jax.numpy as jnp
        import z3
        from jumanji.environments.packing.tetris.types import State
        R_, C_ = self.dims()
        T = self.T
        # colour ids never exceed the number of pieces placed so far (Inv), so [0, T-1] is the whole reachable range
        grid = self._sym_grid(ctx, tag + ".grid", max(T - 1, 0))
        idx = ctx.fresh_arr(tag + ".tetromino_index", (), np.int32, 0, 6)
        step = ctx.fresh_arr(tag + ".step_count", (), np.int32, 0, T - 1)
        mask = S.call(ctx, lambda g, i: self.env._calculate_action_mask(jnp.clip(g, a_max=1), i), grid, idx)
        score = ctx.fresh(tag + ".score", F32)
        J.vs_set(score, [F32(v) for v in self.SCORES])
        pre = [z3.Or([score == J.to_z3(F32(v), F32) for v in self.SCORES])]
        sc_arr = np.empty((), dtype=object)
        sc_arr[()] = score
        st = State(grid_padded=grid,
                   grid_padded_old=ctx.fresh_arr(tag + ".grid_old", (R_ + 3, C_ + 3), np.int32, 0, max(T - 1, 0)),
                   tetromino_index=idx,
                   old_tetromino_rotated=ctx.fresh_arr(tag + ".old_tetromino", (4, 4), np.int32, 0, max(T - 1, 1)),
                   new_tetromino=ctx.fresh_arr(tag + ".new_tetromino", (4, 4), np.int32, 0, 1),
                   x_position=ctx.fresh_arr(tag + ".x_position", (), np.int32, 0, C_ - 1),
                   y_position=ctx.fresh_arr(tag + ".y_position", (), np.int32, -1, R_ - 1),
                   action_mask=mask,
                   full_lines=ctx.fresh_arr(tag + ".full_lines", (R_ + 3,), np.bool_),
                   score=SV(sc_arr, F32),
                   reward=SV(np.zeros((), F32), F32),
                   key=ctx.fresh_arr(tag + ".key", (2,), np.uint32),
                   is_reset=ctx.fresh_arr(tag + ".is_reset", (), np.bool_),
                   step_count=step)
        return st, pre

    def replay_state(self, model, sp, s_np, a_np):
        """replay hook: the next piece is a stub draw in the model; pick a REAL key whose real step draws the same piece"""
        import jax
        import jax.numpy as jnp
        want = int(S.model_sv(model, sp.ns.tetromino_index))
        if not hasattr(self, "_draws"):
            f = jax.jit(lambda k: jax.random.randint(jax.random.split(k)[1], (), 0, 7))
            self._draws = [(np.asarray(jax.random.PRNGKey(i)), int(f(jax.random.PRNGKey(i)))) for i in range(64)]
        for k, d in self._draws:
            if d == want:
                return s_np.replace(key=k.astype(np.uint32))
        return s_np

    def inv(self, st, ctx=None):
        R_, C_ = self.dims()
        g, sc, idx = vs(st.grid_padded), vs(st.step_count), vs(st.tetromino_index)
        ob = [("board cells hold 0 or a colour id in [1, step_count]", all_([(g[r, c] >= 0) & (g[r, c] <= sc) for r in range(R_) for c in range(C_)])),
              ("padding rows and columns are empty", all_([g[r, c] == 0 for r in range(R_ + 3) for c in range(C_ + 3) if r >= R_ or c >= C_])),
              ("no complete row is left on the board", all_([any_([g[r, c] == 0 for c in range(C_)]) for r in range(R_)])),
              ("tetromino_index in [0, 6]", (idx >= 0) & (idx <= 6)),
              ("new_tetromino is rotation 0 of tetromino_index", X.eq_arr(vs(st.new_tetromino), self._piece_int(idx, 0))),
              ("step_count in [0, time_limit-1] (every non-terminal state; = the domain of sym_state)", (sc >= 0) & (sc < self.T)),
              ("cached action_mask == mask rule", X.eq_arr(vs(st.action_mask), self.mask_rule(st)))]
        return ob

    # ------------------------------------------------------------------ pieces
    def _piece(self, idx, rot):
        """(4,4) V-bool: cell (i,j) of piece `idx` in rotation `rot` (both may be symbolic)"""
        out = np.empty((4, 4), dtype=object)
        rot = X.const(rot) if not isinstance(rot, V) else rot
        for i in range(4):
            for j in range(4):
                out[i, j] = any_([(idx == t) & (rot == k) for t in range(7) for k in range(4) if TAB[t, k, i, j]])
        return out

    def _piece_int(self, idx, rot):
        p = self._piece(idx, rot)
        out = np.empty((4, 4), dtype=object)
        for i in range(4):
            for j in range(4):
                out[i, j] = p[i, j].astype(np.int32)
        return out

    # ------------------------------------------------------------------ legality
    def _enter(self, occ, t, k, x):
        """piece (t,k) with its box at column x (concrete) is inside the board's columns and every board cell on or
        above each piece cell (box at y=0) is empty"""
        R_, C_ = self.dims()
        cells = _cells(t, k)
        if any(x + j >= C_ for _, j in cells):
            return X.FALSE
        need = sorted({(ii, x + j) for i, j in cells for ii in range(i + 1)})
        return all_([~occ[r, c] for r, c in need])

    def mask_rule(self, st):
        R_, C_ = self.dims()
        g, idx = vs(st.grid_padded), vs(st.tetromino_index)
        occ = np.empty(g.shape, dtype=object)
        for p in np.ndindex(*g.shape):
            occ[p] = g[p] != 0
        out = np.empty((4, C_), dtype=object)
        for k in range(4):
            for x in range(C_):
                out[k, x] = any_([(idx == t) & self._enter(occ, t, k, x) for t in range(7)])
        return out

    def action_legal(self, st, act):
        a = vs(act)
        return [pick(self.mask_rule(st), a[0], a[1], default=X.FALSE)]

    def _no_next(self, ns):
        return ~any_(list(self.mask_rule(ns).reshape(-1)))

    def treated_invalid(self, st, act, ns, ts):
        # The only reaction of the environment to an infeasible placement is LAST with reward 0.  When another
        # documented cause (time limit, next piece does not fit) ends the episode on the same step, the reaction
        # cannot be told apart from a legal step; the claim is restricted to steps without such a cause.
        legal = self.action_legal(st, act)[0]
        other = (vs(st.step_count) + 1 >= self.T) | self._no_next(ns)
        return [where(other, ~legal, (vs(ts.step_type) == 2) & (vs(ts.reward) == F32(0.0)), X.BOOL)]

    def illegal_effect(self, st, act, ns, ts, bad):
        return [("infeasible placement => LAST", bad[0].implies(vs(ts.step_type) == 2)),
                ("infeasible placement => reward 0 (no rows credited)", bad[0].implies(vs(ts.reward) == F32(0.0)))]

    # ------------------------------------------------------------------ reference dynamics
    def _drop(self, g, P, x):
        """g: padded grid (V ints), P: (4,4) V-bool piece, x: V column.  -> (land[y] V-bool for y in 0..R-1, covered (R+3,C+3) V-bool)
        The piece starts at y=0 and moves down while the next position is free and inside the board."""
        R_, C_ = self.dims()
        colocc = np.empty((R_ + 3, 4), dtype=object)       # cell (r, x+j) is filled
        for r in range(R_ + 3):
            for j in range(4):
                colocc[r, j] = any_([(x == xc) & (g[r, xc + j] != 0) for xc in range(C_)])
        fits = []
        for y in range(R_):
            blocked = any_([P[i, j] & (colocc[y + i, j] if y + i < R_ else X.TRUE) for i in range(4) for j in range(4)])
            fits.append(~blocked)
        fits.append(X.FALSE)
        land, ok = [], X.TRUE
        for y in range(R_):
            ok = ok & fits[y]
            land.append(ok & ~fits[y + 1])
        cov = np.empty((R_ + 3, C_ + 3), dtype=object)
        for r in range(R_ + 3):
            for c in range(C_ + 3):
                cov[r, c] = any_([land[r - i] & P[i, j] & (x == c - j) for i in range(4) for j in range(4)
                                  if 0 <= r - i < R_ and 0 <= c - j < C_])
        return land, cov

    @staticmethod
    def _max(g):
        m = X.const(0)
        for v in g.reshape(-1):
            m = X.vmax(m, v)
        return m

    def _full_rows(self, g):
        R_, C_ = self.dims()
        return [all_([g[r, c] != 0 for c in range(C_)]) for r in range(g.shape[0])]

    @staticmethod
    def _clear(g, full):
        """gravity: the flagged rows disappear, every other row moves down by the number of flagged rows below it,
        empty rows enter at the top"""
        n = g.shape[0]
        below = [count(full[s + 1:]) for s in range(n)]
        out = np.empty(g.shape, dtype=object)
        for r in range(n):
            for c in range(g.shape[1]):
                acc = X.const(0)
                for s in range(r + 1):
                    acc = where((~full[s]) & (below[s] == r - s), g[s, c], acc)
                out[r, c] = acc
        return out

    def _model(self, st, act):
        g, a, idx = vs(st.grid_padded), vs(act), vs(st.tetromino_index)
        P = self._piece(idx, a[0])
        land, cov = self._drop(g, P, a[1])
        colour = self._max(g) + 1
        placed = np.empty(g.shape, dtype=object)
        for p in np.ndindex(*g.shape):
            placed[p] = where(cov[p], colour, g[p])
        full = self._full_rows(placed)
        return P, land, cov, colour, placed, full

    def _reward(self, legal, full):
        n = count(full)
        tab = np.array([V(F32(v), F32) for v in REWARDS], dtype=object)
        return where(legal, pick(tab, n, default=V(F32(REWARDS[4]), F32)), F32(0.0), F32)

    def ref_step(self, st, act, ns):
        R_, C_ = self.dims()
        legal = self.action_legal(st, act)[0]
        a = vs(act)
        P, land, cov, colour, placed, full = self._model(st, act)
        newg = self._clear(placed, full)
        reward = self._reward(legal, full)
        y = X.const(0)
        for yy in range(R_):
            y = where(land[yy], yy, y)
        ypos = where(y == R_ - 1, -1, y)      # viewer convention: -1 = bottom row
        sc = vs(st.step_count) + 1
        fl = np.array(full, dtype=object)
        last = (~legal) | self._no_next(ns) | (sc >= self.T)
        ref = {"_when": legal, "grid_padded": newg, "grid_padded_old": vs(st.grid_padded), "x_position": a[1], "y_position": ypos,
               "full_lines": fl, "step_count": sc,
               "new_tetromino": self._piece_int(vs(ns.tetromino_index), 0),
               "score": vs(st.score) + reward, "reward": reward, "last": last}
        if R_ * C_ > 36:
            # 10x10: the successor grid through the whole step costs 130-180 s PER ROW (13 rows; monolithic: unknown at 900 s).
            # There the grid claim is made on the two kernels the step composes (kernels_c09: place_tetromino == straight drop,
            # clean_lines == gravity, both proved at 10x10); the composition itself is proved at 5x4 and 6x6 only.
            del ref["grid_padded"]
        return ref

    def reward_law(self, st, act, ns, ts, legal):
        P, land, cov, colour, placed, full = self._model(st, act)
        return [("reward == REWARD_LIST[rows completed by the placement] (0 for an infeasible placement)",
                 vs(ts.reward) == self._reward(legal, full)),
                ("state.reward and state.score accumulate the same reward",
                 (vs(ns.reward) == vs(ts.reward)) & (vs(ns.score) == vs(st.score) + vs(ts.reward)))]

    def other_done(self, st, act, ns, ts):
        return (~self.action_legal(st, act)[0]) | self._no_next(ns)

    def observer(self, ns):
        R_, C_ = self.dims()
        g = vs(ns.grid_padded)
        grid = np.empty((R_, C_), dtype=object)
        for r in range(R_):
            for c in range(C_):
                grid[r, c] = (g[r, c] != 0).astype(np.int32)
        return {"grid": grid, "tetromino": self._piece_int(vs(ns.tetromino_index), 0), "action_mask": self.mask_rule(ns),
                "step_count": vs(ns.step_count)}

    # ------------------------------------------------------------------ C07
    def conserve(self, st, act, ns, ts):
        """per column (local counts of <= rows cells): filled' = filled + piece cells dropped into the column - rows cleared,
        with `rows cleared` read off the documented reward table; the driver guards with 'not LAST' (hence legal)."""
        R_, C_ = self.dims()
        g0, g1, a, idx = vs(st.grid_padded), vs(ns.grid_padded), vs(act), vs(st.tetromino_index)
        rew = vs(ts.reward)
        n = X.const(0)
        for k, v in enumerate(REWARDS):
            n = where(rew == F32(v), k, n)
        P = self._piece(idx, a[0])
        ob = []
        # Through the whole step the column law is tractable up to 6x6 (<= 10 s per column); on the 10x10 board it is `unknown`
        # at 300 s per column, there the cell-count law rests on the two kernel laws (kernels_c07), which are proved at 10x10 too.
        for c in range(C_ if R_ * C_ <= 36 else 0):
            pc = count([P[i, j] & (a[1] == c - j) for i in range(4) for j in range(4) if 0 <= c - j < C_])
            c0 = count([g0[r, c] != 0 for r in range(R_)])
            c1 = count([g1[r, c] != 0 for r in range(R_)])
            ob.append((f"column {c}: filled' == filled + piece cells in the column - rows cleared", c1 == c0 + pc - n))
        # bookkeeping copy used by the viewer; its colour value is not documented, only the shape is claimed
        o = vs(ns.old_tetromino_rotated)
        ob.append(("old_tetromino_rotated is non-zero exactly on the cells of the piece just placed",
                   all_([(o[p] != 0).iff(P[p]) for p in np.ndindex(4, 4)])))
        return ob

    def _kernel(self, R, prefix, fn, mk_args, obl_fn, unroll=None):
        """drive a repo kernel directly: symbolic inputs from mk_args(ctx) -> (args, assumptions); obligations
        obl_fn(args, out) -> [(name, V)] re-evaluated on the real jitted kernel at replay"""
        import jax
        import jax.numpy as jnp
        from checks import common as C
        ctx = J.Ctx(max_unroll=unroll or self.UNROLL)
        args, pre = mk_args(ctx)
        out = S.call(ctx, fn, *args, R=R, name=prefix)
        R.nvars += sum(S.nvars(a) for a in args)
        A = list(pre) + ctx.assumptions
        C.unwinding(R, ctx, A)
        R.reach(prefix + ": inputs", A)
        jf = jax.jit(fn)

        def conc(args_np):
            real = jf(*[jnp.asarray(x) for x in args_np])
            cargs = [SV(np.asarray(x), a.dtype) for x, a in zip(args_np, args)]
            cout = S.conc_tree(jax.tree_util.tree_map(np.asarray, real))
            return cargs, cout
        for n_, v in obl_fn(args, out):
            def replay(model, n_=n_):
                args_np = [S.model_sv(model, a) for a in args]
                cargs, cout = conc(args_np)
                vals = dict(obl_fn(cargs, cout))
                return (not bool(vals[n_])), {"config": self.cfg, "kernel": prefix, "obligation": n_, "inputs": [np.asarray(x).tolist() for x in args_np],
                                              "output": [np.asarray(l.a).tolist() for l in S.leaves(cout)]}
            R.prove(f"{prefix}: {n_}", A, v.term() if not v.conc else bool(v), replay=replay)

    def _k_place(self, R):
        """utils.place_tetromino on every board (padding empty), every piece/rotation, every column where the
        placement is feasible: exactly the four piece cells of one 4x4 window change (frame + local delta), they were
        empty, they get one fresh colour, and the window is the resting position of a straight drop."""
        from jumanji.environments.packing.tetris import utils
        R_, C_ = self.dims()
        K = max(self.T - 1, 1)
        shapes = {}
        for t in range(7):
            for k in range(4):
                shapes.setdefault(TAB[t, k].tobytes(), (t, k))
        for t, k in sorted(shapes.values()):
            piece = TAB[t, k].astype(np.int32)

            def mk(ctx, t=t, k=k):
                grid = self._sym_grid(ctx, "g", K)
                x = ctx.fresh_arr("x", (), np.int32, 0, C_ - 1)
                g = vs(grid)
                occ = np.empty(g.shape, dtype=object)
                for p in np.ndindex(*g.shape):
                    occ[p] = g[p] != 0
                feas = any_([(vs(x) == xc) & self._enter(occ, t, k, xc) for xc in range(C_)])
                return [grid, SV(piece, np.int32), x], [feas.z()]

            def obl(args, out, t=t, k=k):
                g0, x = vs(args[0]), vs(args[2])
                g1 = vs(out[0])
                P = np.empty((4, 4), dtype=object)
                for p in np.ndindex(4, 4):
                    P[p] = X.TRUE if TAB[t, k][p] else X.FALSE
                land, cov = self._drop(g0, P, x)
                colour = self._max(g0) + 1
                ob = [("the piece comes to rest in exactly one row", count(land) == 1)]
                for r in range(R_ + 3):
                    ob.append((f"row {r}: cells outside the resting footprint unchanged, footprint cells were empty and take the fresh colour max+1",
                               all_([where(cov[r, c], (g0[r, c] == 0) & (g1[r, c] == colour), g1[r, c] == g0[r, c], X.BOOL) for c in range(C_ + 3)])))
                ob.append(("footprint has four cells, all on the board",
                           (count(list(cov.reshape(-1))) == 4) & all_([~cov[r, c] for r in range(R_ + 3) for c in range(C_ + 3) if r >= R_ or c >= C_])))
                return ob
            self._kernel(R, f"place_tetromino[{ORDER[t]}{k}]", utils.place_tetromino, mk, obl)

    def _k_clean(self, R):
        """utils.clean_lines for every grid and EVERY flag vector: the stable row permutation that drops the flagged rows"""
        from jumanji.environments.packing.tetris import utils
        R_, C_ = self.dims()
        K = max(self.T - 1, 1)

        def mk(ctx):
            grid = ctx.fresh_arr("g", (R_ + 3, C_ + 3), np.int32, 0, K)
            flags = ctx.fresh_arr("full", (R_ + 3,), np.bool_)
            return [grid, flags], []

        def obl(args, out):
            g0, fl, g1 = vs(args[0]), list(vs(args[1])), vs(out)
            want = self._clear(g0, fl)
            return [(f"row {r} == the unflagged row that has (r - its index) flagged rows below it, or empty at the top",
                     all_([g1[r, c] == want[r, c] for c in range(C_ + 3)])) for r in range(R_ + 3)]
        self._kernel(R, "clean_lines", utils.clean_lines, mk, obl, unroll=R_ + 4)

    def kernels_c07(self, R):
        self._k_place(R)
        self._k_clean(R)

    def kernels_c09(self, R):
        R_, C_ = self.dims()
        if R_ * C_ > 36:
            self._k_place(R)
        self._k_clean(R)

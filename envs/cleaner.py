"""Cleaner harness.  Rules (docs/environments/cleaner.md + class docstring): agents move up/right/down/left;
a move is legal iff the target cell is inside the rows x cols grid and is not a WALL; any illegal move ends
the episode and the offending agent does not move; tiles under agents become CLEAN; reward = tiles cleaned
this step - penalty_per_timestep; ends when no dirty tile is left or at the time limit."""
import numpy as np

from engine import sym as S
from engine import vexpr as X
from engine.jx2smt import SV
from engine.vexpr import V, vs, where, all_, any_, pick, count
from envs.base import Harness, register

DIRTY, CLEAN, WALL = 0, 1, 2
MOVES = [(-1, 0), (0, 1), (1, 0), (0, -1)]  # up, right, down, left  (row, col)


@register
class CleanerH(Harness):
    ENV = "Cleaner"
    QUICK = ["Cleaner@3x5x2", "Cleaner@4x4x2", "Cleaner@3x3x1"]
    THOROUGH = ["Cleaner@5x6x3", "Cleaner@5x3x2", "Cleaner@2x6x2"]
    INVALID = "terminate"
    REF_REWARD_VARIANTS = True
    # constructor scalars: the documented default 0.5, a falsy value (`x or default` idioms) and another non-default one.  The oracle
    # takes the constant from the OVERRIDE it passed, never from the attribute the constructor under test assigned.
    REWARD_VARIANTS = [{}, {"penalty_per_timestep": 0.0}, {"penalty_per_timestep": 0.25}]

    def pen(self):
        return np.float32(self.over.get("penalty_per_timestep", 0.5))
    TIME_LIMIT = True

    def dims(self):
        e = self.env
        return e.num_rows, e.num_cols, e.num_agents

    def sym_state(self, ctx, tag="S"):
        from jumanji.environments.routing.cleaner.types import State
        R_, C_, A_ = self.dims()
        grid = ctx.fresh_arr(tag + ".grid", (R_, C_), np.int8, 0, 2)
        rows = ctx.fresh_arr(tag + ".row", (A_,), np.int32, 0, R_ - 1)
        cols = ctx.fresh_arr(tag + ".col", (A_,), np.int32, 0, C_ - 1)
        locs = SV(np.stack([rows.a, cols.a], axis=1), np.int32)
        step = ctx.fresh_arr(tag + ".step_count", (), np.int32, 0, self.T - 1)
        key = ctx.fresh_arr(tag + ".key", (2,), np.uint32)
        mask = S.call(ctx, self.env._compute_action_mask, grid, locs)
        st = State(grid=grid, agents_locations=locs, action_mask=mask, step_count=step, key=key)
        return st, []

    def inv(self, st, ctx=None):
        R_, C_, A_ = self.dims()
        g, l = vs(st.grid), vs(st.agents_locations)
        ob = [("grid values in {DIRTY,CLEAN,WALL}", all_([(x >= 0) & (x <= 2) for x in g.reshape(-1)]))]
        for a in range(A_):
            r, c = l[a, 0], l[a, 1]
            ob.append((f"agent{a} inside the grid", (r >= 0) & (r < R_) & (c >= 0) & (c < C_)))
            ob.append((f"agent{a} stands on a clean tile (not in a wall)", pick(g, r, c, default=WALL) == CLEAN))
        ob.append(("step_count in [0, time_limit]", (vs(st.step_count) >= 0) & (vs(st.step_count) <= self.T)))
        ob.append(("cached action_mask == mask rule", X.eq_arr(vs(st.action_mask), self.mask_rule(st))))
        return ob

    def mask_rule(self, st):
        R_, C_, A_ = self.dims()
        g, l = vs(st.grid), vs(st.agents_locations)
        out = np.empty((A_, 4), dtype=object)
        for a in range(A_):
            for k, (dr, dc) in enumerate(MOVES):
                r, c = l[a, 0] + dr, l[a, 1] + dc
                inside = (r >= 0) & (r < R_) & (c >= 0) & (c < C_)
                out[a, k] = inside & (pick(g, r, c, default=WALL) != WALL)
        return out

    def action_legal(self, st, act):
        m, a = self.mask_rule(st), vs(act)
        return [pick(m[i], a[i]) for i in range(len(a))]

    def treated_invalid(self, st, act, ns, ts):
        l0, l1 = vs(st.agents_locations), vs(ns.agents_locations)
        return [(l0[i, 0] == l1[i, 0]) & (l0[i, 1] == l1[i, 1]) for i in range(l0.shape[0])]

    def illegal_effect(self, st, act, ns, ts, bad):
        l0, l1 = vs(st.agents_locations), vs(ns.agents_locations)
        ob = [("some agent illegal => LAST", any_(bad).implies(vs(ts.step_type) == 2))]
        for i, b in enumerate(bad):
            ob.append((f"illegal agent{i} keeps its position", b.implies((l0[i, 0] == l1[i, 0]) & (l0[i, 1] == l1[i, 1]))))
        # nothing is cleaned on behalf of an agent that did not move: every tile that changed holds a moved agent
        g0, g1 = vs(st.grid), vs(ns.grid)
        R_, C_, A_ = self.dims()
        for r in range(R_):
            for c in range(C_):
                here_legal = any_([(~bad[i]) & (l1[i, 0] == r) & (l1[i, 1] == c) for i in range(A_)])
                ob.append((f"cell({r},{c}) changes only under a legally moving agent", (g0[r, c] != g1[r, c]).implies(here_legal)))
        return ob

    def conserve(self, st, act, ns, ts):
        g0, g1, l1 = vs(st.grid), vs(ns.grid), vs(ns.agents_locations)
        R_, C_, A_ = self.dims()
        ob = []
        for r in range(R_):
            for c in range(C_):
                occupied = any_([(l1[i, 0] == r) & (l1[i, 1] == c) for i in range(A_)])
                ob.append((f"cell({r},{c}): walls and clean tiles persist; dirty->clean only under an agent",
                           where(occupied, g1[r, c] == CLEAN, g1[r, c] == g0[r, c], X.BOOL)))
        return ob

    def reward_law(self, st, act, ns, ts, legal):
        g0, g1 = vs(st.grid), vs(ns.grid)
        cleaned = count([(a == DIRTY) & (b == CLEAN) for a, b in zip(g0.reshape(-1), g1.reshape(-1))])
        pen = self.pen()
        return [("reward == tiles cleaned this step - penalty_per_timestep (= Phi(S') - Phi(S), Phi = clean tiles - penalty*steps)",
                 vs(ts.reward) == cleaned.astype(np.float32) - pen)]

    def ref_step(self, st, act):
        R_, C_, A_ = self.dims()
        g, l, a = vs(st.grid), vs(st.agents_locations), vs(act)
        legal = self.action_legal(st, act)
        nl = np.empty((A_, 2), dtype=object)
        for i in range(A_):
            dr = where(a[i] == 0, -1, where(a[i] == 2, 1, 0))
            dc = where(a[i] == 1, 1, where(a[i] == 3, -1, 0))
            nl[i, 0] = where(legal[i], l[i, 0] + dr, l[i, 0])
            nl[i, 1] = where(legal[i], l[i, 1] + dc, l[i, 1])
        ng = np.empty((R_, C_), dtype=object)
        for r in range(R_):
            for c in range(C_):
                occ = any_([(nl[i, 0] == r) & (nl[i, 1] == c) for i in range(A_)])
                ng[r, c] = where(occ, X.const(CLEAN, np.int8), g[r, c], np.int8)
        cleaned = count([(x == DIRTY) & (y == CLEAN) for x, y in zip(g.reshape(-1), ng.reshape(-1))])
        sc = vs(st.step_count) + 1
        last = (~all_(legal)) | (~any_([x == DIRTY for x in ng.reshape(-1)])) | (sc >= self.T)
        return {"grid": ng, "agents_locations": nl, "step_count": sc,
                "reward": cleaned.astype(np.float32) - self.pen(), "last": last}

    def other_done(self, st, act, ns, ts):
        legal = self.action_legal(st, act)
        return (~all_(legal)) | (~any_([x == DIRTY for x in vs(ns.grid).reshape(-1)]))

    def observer(self, ns):
        return {"grid": vs(ns.grid), "agents_locations": vs(ns.agents_locations), "action_mask": self.mask_rule(ns),
                "step_count": vs(ns.step_count)}

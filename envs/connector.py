"""Connector harness.

Rules (docs/environments/connector.md, class docstring of `Connector`, docstrings of `_step_agents`,
`is_valid_position`, `DenseRewardFn`):
* grid encoding: agent i owns the values path = 1+3i, head ("position") = 2+3i, target = 3+3i; 0 = empty.
* actions 0..4 = no-op, up, right, down, left.  A move is allowed iff the target cell is inside the grid, is EMPTY or
  the agent's OWN target, and the agent is not connected yet.  No-op is always allowed.  A forbidden move is ignored
  for that agent (it behaves like a no-op).
* a head that moves leaves its path value on the cell it left ("impassable trail"); reaching the own target puts
  the head value on the target cell (= connected).
* collision (`_step_agents` docstring): when several heads move to one (empty) cell in the same step, "we place the
  agent with the lower agent_id in its previous position", i.e. the HIGHEST id keeps the move, the others stay.
* reward (dense): +1.0 for an agent that connects on this step, -0.03 "at every timestep where they have yet to
  connect".  The docs do not say whether the connecting step itself still pays the -0.03; see reward_law.
* per-agent discount 1-done with done = connected or blocked (no move allowed); LAST when all agents are done or
  step_count reaches time_limit.

ConnectorRW@... = the same environment with the RandomWalkGenerator: same harness, but the generator's reset is a
data-dependent random walk (while loop whose unwinding assertion is a pigeonhole argument, DESIGN C10), so
Inv(reset) is only attempted for the UniformRandomGenerator configs (RESET_INV)."""
import numpy as np

from engine import vexpr as X
from engine.jx2smt import SV
from engine.vexpr import V, vs, where, all_, any_, pick
from envs.base import Harness, register

EMPTY = 0
DELTA = {1: (-1, 0), 2: (0, 1), 3: (1, 0), 4: (0, -1)}   # up, right, down, left  as (d row, d col)
F32 = np.float32


def PATH(i):
    return 1 + 3 * i


def HEAD(i):
    return 2 + 3 * i


def TARGET(i):
    return 3 + 3 * i


def at(p, r, c):
    return (p[0] == r) & (p[1] == c)


@register
class ConnectorH(Harness):
    ENV = "Connector"
    QUICK = ["Connector@4x2", "Connector@3x2", "ConnectorRW@3x2"]
    THOROUGH = ["Connector@4x3", "Connector@5x3"]
    INVALID = "ignore"
    TIME_LIMIT = True

    @property
    def RESET_INV(self):
        # RandomWalkGenerator.reset = data-dependent while loop (not encodable with a provable unwinding bound)
        return not self.cfg.startswith("ConnectorRW")

    def dims(self):
        return self.env.grid_size, self.env.num_agents

    # ------------------------------------------------------------------ pre-state
    def sym_state(self, ctx, tag="S"):
        from jumanji.environments.routing.connector.types import Agent, State
        G, A = self.dims()
        grid = ctx.fresh_arr(tag + ".grid", (G, G), np.int32, 0, 3 * A)
        pos = ctx.fresh_arr(tag + ".position", (A, 2), np.int32, 0, G - 1)
        tgt = ctx.fresh_arr(tag + ".target", (A, 2), np.int32, 0, G - 1)
        start = ctx.fresh_arr(tag + ".start", (A, 2), np.int32, 0, G - 1)
        step = ctx.fresh_arr(tag + ".step_count", (), np.int32, 0, self.T - 1)
        key = ctx.fresh_arr(tag + ".key", (2,), np.uint32)
        agents = Agent(id=SV(np.arange(A, dtype=np.int32), np.int32), start=start, target=tgt, position=pos)
        return State(grid=grid, step_count=step, agents=agents, key=key), []

    @staticmethod
    def _tables(st):
        return vs(st.grid), vs(st.agents.position), vs(st.agents.target), vs(st.agents.start)

    @staticmethod
    def _connected(pos, tgt, i):
        return at(pos[i], tgt[i, 0], tgt[i, 1])

    def inv(self, st, ctx=None):
        G, A = self.dims()
        g, pos, tgt, start = self._tables(st)
        ids = vs(st.agents.id)
        cells = [(r, c) for r in range(G) for c in range(G)]
        inside = lambda p: (p[0] >= 0) & (p[0] < G) & (p[1] >= 0) & (p[1] < G)  # noqa
        ob = [("grid values in [0, 3*num_agents]", all_([(x >= 0) & (x <= 3 * A) for x in g.reshape(-1)])),
              ("agent ids are 0..num_agents-1", all_([ids[i] == i for i in range(A)])),
              ("step_count in [0, time_limit]", (vs(st.step_count) >= 0) & (vs(st.step_count) <= self.T))]
        for i in range(A):
            conn = self._connected(pos, tgt, i)
            ob.append((f"agent{i}: position, target and start inside the grid", inside(pos[i]) & inside(tgt[i]) & inside(start[i])))
            ob.append((f"agent{i}: a cell holds the head value {HEAD(i)} <=> it is agents.position",
                       all_([(g[p] == HEAD(i)).iff(at(pos[i], *p)) for p in cells])))
            ob.append((f"agent{i}: a cell holds the target value {TARGET(i)} <=> it is agents.target and the agent is not connected",
                       all_([(g[p] == TARGET(i)).iff(at(tgt[i], *p) & ~conn) for p in cells])))
            ob.append((f"agent{i}: the start cell is the head (not moved yet) or carries the own path value",
                       at(pos[i], start[i, 0], start[i, 1]) | (pick(g, start[i, 0], start[i, 1], default=-1) == PATH(i))))
            nb = any_([pick(g, pos[i, 0] + dr, pos[i, 1] + dc, default=-1) == PATH(i) for dr, dc in DELTA.values()])
            ob.append((f"agent{i}: the head is on the start cell or 4-adjacent to an own path cell", at(pos[i], start[i, 0], start[i, 1]) | nb))
        return ob

    # ------------------------------------------------------------------ rules
    def _mask(self, g, pos, tgt):
        G, A = self.dims()
        out = np.empty((A, 5), dtype=object)
        for i in range(A):
            conn = self._connected(pos, tgt, i)
            out[i, 0] = X.TRUE
            for k, (dr, dc) in DELTA.items():
                r, c = pos[i, 0] + dr, pos[i, 1] + dc
                inb = (r >= 0) & (r < G) & (c >= 0) & (c < G)
                cell = pick(g, r, c, default=-1)
                out[i, k] = inb & ((cell == EMPTY) | (cell == TARGET(i))) & ~conn
        return out

    def mask_rule(self, st):
        g, pos, tgt, _ = self._tables(st)
        return self._mask(g, pos, tgt)

    @staticmethod
    def _intended(pos, a, i):
        dr = where(a[i] == 1, -1, where(a[i] == 3, 1, 0))
        dc = where(a[i] == 2, 1, where(a[i] == 4, -1, 0))
        return pos[i, 0] + dr, pos[i, 1] + dc

    def _beaten(self, st, act):
        """documented collision: agent i's allowed move targets the same cell as the allowed move of a higher id"""
        G, A = self.dims()
        g, pos, tgt, _ = self._tables(st)
        a = vs(act) if isinstance(act, SV) else act
        m = self._mask(g, pos, tgt)
        mv = [(a[i] != 0) & pick(m[i], a[i]) for i in range(A)]
        want = [self._intended(pos, a, i) for i in range(A)]
        return [mv[i] & any_([mv[j] & (want[j][0] == want[i][0]) & (want[j][1] == want[i][1]) for j in range(i + 1, A)]) for i in range(A)], mv, want

    def treated_invalid(self, st, act, ns, ts):
        """the environment's reaction 'the move was refused': the agent asked for a move, stayed where it was, and
        the stay is not explained by the documented collision rule (a higher id moving to the same cell)"""
        A = self.dims()[1]
        a = vs(act)
        p0, p1 = vs(st.agents.position), vs(ns.agents.position)
        beaten, _, _ = self._beaten(st, act)
        return [(a[i] != 0) & at(p1[i], p0[i, 0], p0[i, 1]) & ~beaten[i] for i in range(A)]

    # ------------------------------------------------------------------ reference model
    def _ref(self, st, a):
        """independent re-implementation of one step for the action list `a` (V per agent)"""
        G, A = self.dims()
        g, pos, tgt, start = self._tables(st)
        beaten, mv, want = self._beaten(st, a)
        wins = [mv[i] & ~beaten[i] for i in range(A)]
        npos = np.empty((A, 2), dtype=object)
        for i in range(A):
            npos[i, 0] = where(wins[i], want[i][0], pos[i, 0])
            npos[i, 1] = where(wins[i], want[i][1], pos[i, 1])
        ng = np.empty((G, G), dtype=object)
        for r in range(G):
            for c in range(G):
                v = g[r, c]
                for i in range(A):      # the cell a winning head leaves becomes its path
                    v = where(wins[i] & at(pos[i], r, c), PATH(i), v)
                for i in range(A):      # the cell a winning head enters becomes its head (winners have distinct cells)
                    v = where(wins[i] & (want[i][0] == r) & (want[i][1] == c), HEAD(i), v)
                ng[r, c] = v
        conn0 = [self._connected(pos, tgt, i) for i in range(A)]
        conn1 = [self._connected(npos, tgt, i) for i in range(A)]
        m1 = self._mask(ng, npos, tgt)
        done = [conn1[i] | ~any_([m1[i, k] for k in range(1, 5)]) for i in range(A)]
        sc = vs(st.step_count) + 1
        last = all_(done) | (sc >= self.T)
        # -0.03 for every step an agent STARTS unconnected (incl. the step on which it connects: at the time of the
        # step it "has yet to connect"), +1.0 on the connecting step; float32 arithmetic as documented constants
        reward = np.empty((A,), dtype=object)
        for i in range(A):
            reward[i] = where(conn0[i], F32(0.0), where(conn1[i], F32(1.0) + F32(-0.03), F32(-0.03), F32), F32)
        disc = [where(last | done[i], F32(0.0), F32(1.0), F32) for i in range(A)]
        return {"grid": ng, "agents.position": npos, "agents.target": tgt, "agents.start": start, "agents.id": vs(st.agents.id),
                "step_count": sc, "key": vs(st.key), "reward": reward, "last": last}, done, disc

    def ref_step(self, st, act):
        return self._ref(st, vs(act))[0]

    def illegal_effect(self, st, act, ns, ts, bad):
        """ignore-invalid: the offending agent keeps its position and the whole step is exactly the step in which the
        offending agents had played no-op (grid, every agent, reward, termination)"""
        A = self.dims()[1]
        a = vs(act)
        p0, p1 = vs(st.agents.position), vs(ns.agents.position)
        a2 = [where(bad[i], 0, a[i]) for i in range(A)]
        ref, _, disc = self._ref(st, a2)
        some = any_(bad)
        ob = [(f"illegal agent{i} keeps its position", bad[i].implies(at(p1[i], p0[i, 0], p0[i, 1]))) for i in range(A)]
        ob += [("some agent illegal => S'.grid as if the illegal agents had played no-op", some.implies(X.eq_arr(vs(ns.grid), ref["grid"]))),
               ("some agent illegal => all positions as if the illegal agents had played no-op", some.implies(X.eq_arr(p1, ref["agents.position"]))),
               ("some agent illegal => targets and starts untouched",
                some.implies(X.eq_arr(vs(ns.agents.target), ref["agents.target"]) & X.eq_arr(vs(ns.agents.start), ref["agents.start"]))),
               ("some agent illegal => reward as if the illegal agents had played no-op", some.implies(X.eq_arr(vs(ts.reward), ref["reward"]))),
               ("some agent illegal => step_type as if the illegal agents had played no-op", some.implies((vs(ts.step_type) == 2).iff(ref["last"]))),
               ("some agent illegal => discount as if the illegal agents had played no-op", some.implies(X.eq_arr(vs(ts.discount), np.array(disc, dtype=object))))]
        return ob

    # ------------------------------------------------------------------ C06
    def constraints(self, st):
        """route exclusivity stated on the agent tables (the grid holds one value per cell by construction, so the
        content is: no two agents claim one cell).  The transition half - a head never enters a cell that carries
        another agent's value, paths never disappear - is in `conserve`."""
        A = self.dims()[1]
        _, pos, tgt, _ = self._tables(st)
        pairs = [(i, j) for i in range(A) for j in range(A) if i < j]
        return [("heads are on pairwise distinct cells", all_([~at(pos[i], pos[j, 0], pos[j, 1]) for i, j in pairs])),
                ("targets are on pairwise distinct cells", all_([~at(tgt[i], tgt[j, 0], tgt[j, 1]) for i, j in pairs])),
                ("no head stands on another agent's target", all_([~at(pos[i], tgt[j, 0], tgt[j, 1]) for i in range(A) for j in range(A) if i != j]))]

    def complete(self, st, ts):
        """all agents connected => every target cell carries its agent's head, no target value is left on the grid and
        every route has both end points on the grid.  (That the trail between them is connected follows by induction
        from the local law in `conserve`: a head only moves to a 4-neighbour and leaves its path value behind.)"""
        G, A = self.dims()
        g, pos, tgt, start = self._tables(st)
        done = all_([self._connected(pos, tgt, i) for i in range(A)])
        ob = [("every target cell carries its agent's head value", all_([pick(g, tgt[i, 0], tgt[i, 1], default=-1) == HEAD(i) for i in range(A)])),
              ("no target value is left on the grid", all_([x != TARGET(i) for x in g.reshape(-1) for i in range(A)])),
              ("every start cell carries its agent's path value (or is the head when start == target)",
               all_([(pick(g, start[i, 0], start[i, 1], default=-1) == PATH(i)) | at(pos[i], start[i, 0], start[i, 1]) for i in range(A)]))]
        return done, ob + self.constraints(st)

    # ------------------------------------------------------------------ C07
    def conserve(self, st, act, ns, ts):
        G, A = self.dims()
        g0, p0, _, _ = self._tables(st)
        g1, p1, _, _ = self._tables(ns)
        moved = [~at(p1[i], p0[i, 0], p0[i, 1]) for i in range(A)]
        ob = []
        for i in range(A):
            dr, dc = p1[i, 0] - p0[i, 0], p1[i, 1] - p0[i, 1]
            step1 = ((dr == 0) & ((dc == 1) | (dc == -1))) | ((dc == 0) & ((dr == 1) | (dr == -1)))
            ob.append((f"agent{i}: stays or moves to a 4-neighbour cell", (~moved[i]) | step1))
            ob.append((f"agent{i}: target and start never change",
                       X.eq_arr(vs(st.agents.target)[i], vs(ns.agents.target)[i]) & X.eq_arr(vs(st.agents.start)[i], vs(ns.agents.start)[i])))
        for r in range(G):
            for c in range(G):
                enter = [moved[i] & at(p1[i], r, c) for i in range(A)]
                leave = [moved[i] & at(p0[i], r, c) for i in range(A)]
                v = g0[r, c]
                for i in range(A):
                    v = where(leave[i], PATH(i), v)
                for i in range(A):
                    v = where(enter[i], HEAD(i), v)
                ob.append((f"cell({r},{c}): unchanged unless a head leaves it (-> own path) or enters it (-> own head)", g1[r, c] == v))
                ob.append((f"cell({r},{c}): a head only enters an EMPTY cell or its own target (no value of another route is overwritten)",
                           all_([enter[i].implies((g0[r, c] == EMPTY) | (g0[r, c] == TARGET(i))) for i in range(A)])))
        return ob

    # ------------------------------------------------------------------ C08
    def reward_law(self, st, act, ns, ts, legal):
        """Phi(S) = #connected - 0.03 * (agent-steps spent unconnected); reward_i = Phi_i(S') - Phi_i(S).
        The docs do not determine whether the connecting step itself still pays -0.03 ("-0.03 per agent that has not
        connected yet" / "at every timestep where they have yet to connect"): both readings are accepted for the
        connecting step, everything else is exact."""
        A = self.dims()[1]
        _, p0, tgt, _ = self._tables(st)
        _, p1, tgt1, _ = self._tables(ns)
        rew, disc = vs(ts.reward), vs(ts.discount)
        m1 = self.mask_rule(ns)
        last = vs(ts.step_type) == 2
        ob = []
        for i in range(A):
            c0, c1 = self._connected(p0, tgt, i), self._connected(p1, tgt1, i)
            ob.append((f"agent{i}: already connected => reward 0", c0.implies(rew[i] == F32(0.0))))
            ob.append((f"agent{i}: unconnected before and after => reward -0.03", ((~c0) & ~c1).implies(rew[i] == F32(-0.03))))
            ob.append((f"agent{i}: connects on this step => reward +1.0 (with or without the -0.03 of the step)",
                       ((~c0) & c1).implies((rew[i] == F32(1.0) + F32(-0.03)) | (rew[i] == F32(1.0)))))
            done = c1 | ~any_([m1[i, k] for k in range(1, 5)])
            ob.append((f"agent{i}: discount == 0 on LAST, else 1 - [connected or blocked in S']",
                       disc[i] == where(last | done, F32(0.0), F32(1.0), F32)))
        return ob

    # ------------------------------------------------------------------ C11 / C12
    def other_done(self, st, act, ns, ts):
        A = self.dims()[1]
        _, p1, tgt1, _ = self._tables(ns)
        m1 = self.mask_rule(ns)
        return all_([self._connected(p1, tgt1, i) | ~any_([m1[i, k] for k in range(1, 5)]) for i in range(A)])

    def observer(self, ns):
        return {"grid": vs(ns.grid), "action_mask": self.mask_rule(ns), "step_count": vs(ns.step_count)}


@register
class ConnectorRWH(ConnectorH):
    """same table, RandomWalkGenerator configs (listed in ConnectorH.QUICK)"""
    ENV = "ConnectorRW"
    QUICK = []
    THOROUGH = []

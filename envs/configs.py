"""Small configurations of all 23 environments (DESIGN 1.8). Every entry is a zero-argument
constructor built from the *current* /repo tree. Names are '<Env>' or '<Env>@<variant>'."""
import os

from jumanji import environments as E

PACMAN_MAZE = ["XXXXXXXXX",
               "XSO O PSX",
               "X XGXGX X",
               "XT T T TX",
               "X XGXGX X",
               "XS O O SX",
               "XXXXXXXXX"]


def _b():
    from jumanji.environments.logic.graph_coloring.generator import RandomGenerator as GCGen
    from jumanji.environments.logic.minesweeper.generator import UniformSamplingGenerator
    from jumanji.environments.logic.rubiks_cube.generator import ScramblingGenerator
    from jumanji.environments.logic.sliding_tile_puzzle.generator import RandomWalkGenerator as STPGen
    from jumanji.environments.logic.sudoku.generator import DummyGenerator as SudokuDummy
    from jumanji.environments.packing.bin_pack.generator import RandomGenerator as BPGen, ToyGenerator as BPToy
    from jumanji.environments.packing.flat_pack.generator import RandomFlatPackGenerator
    from jumanji.environments.packing.job_shop.generator import RandomGenerator as JSGen
    from jumanji.environments.packing.knapsack.generator import RandomGenerator as KGen
    from jumanji.environments.routing.cleaner.generator import RandomGenerator as CleanerGen
    from jumanji.environments.routing.connector.generator import RandomWalkGenerator, UniformRandomGenerator
    from jumanji.environments.routing.cvrp.generator import UniformGenerator as CVRPGen
    from jumanji.environments.routing.lbf.generator import RandomGenerator as LBFGen
    from jumanji.environments.routing.maze.generator import RandomGenerator as MazeGen
    from jumanji.environments.routing.mmst.generator import SplitRandomGenerator
    from jumanji.environments.routing.multi_cvrp.generator import UniformRandomGenerator as MCGen
    from jumanji.environments.routing.pac_man.generator import AsciiGenerator
    from jumanji.environments.routing.robot_warehouse.generator import RandomGenerator as RWGen
    from jumanji.environments.routing.sokoban.generator import SimpleSolveGenerator
    from jumanji.environments.routing.tsp.generator import UniformGenerator as TSPGen
    return locals()


def make(name, **over):
    """construct env by config name; `over` = constructor keyword overrides (e.g. time_limit)"""
    g = _b()
    base, _, var = name.partition("@")
    T = over.pop("time_limit", None)

    def tl(default=5):
        return {"time_limit": T if T is not None else default}

    if base == "Game2048":
        return E.Game2048(board_size=int(var or 3), **over)
    if base == "GraphColoring":
        return E.GraphColoring(generator=g["GCGen"](num_nodes=int(var or 4), edge_probability=0.5), **over)
    if base == "Minesweeper":
        r, c, m = (int(x) for x in (var or "3x4x3").split("x"))
        return E.Minesweeper(generator=g["UniformSamplingGenerator"](num_rows=r, num_cols=c, num_mines=m), **over)
    if base == "RubiksCube":
        return E.RubiksCube(generator=g["ScramblingGenerator"](cube_size=int(var or 2), num_scrambles_on_reset=3), **tl(), **over)
    if base == "SlidingTilePuzzle":
        return E.SlidingTilePuzzle(generator=g["STPGen"](grid_size=int(var or 3), num_random_moves=4), **tl(), **over)
    if base == "Sudoku":
        return E.Sudoku(generator=g["SudokuDummy"](), **over)
    if base == "BinPack":
        if var == "csv":
            from jumanji.environments.packing.bin_pack.generator import CSVGenerator
            path = os.path.join(os.path.dirname(os.path.abspath(__file__)), "data", "binpack_small.csv")
            return E.BinPack(generator=CSVGenerator(path, max_num_ems=5, container_dims=(4, 4, 4)), obs_num_ems=over.pop("obs_num_ems", 4), **over)
        if var == "toy":
            return E.BinPack(generator=g["BPToy"](), obs_num_ems=over.pop("obs_num_ems", 6), **over)
        if var and var[0].isdigit():
            # BinPack@<items>x<max_ems>x<obs_ems>x<X>x<Y>x<Z>  (sized variant, e.g. a non-cubic container)
            ni, ne, no, cx, cy, cz = (int(x) for x in var.split("x"))
            return E.BinPack(generator=g["BPGen"](max_num_items=ni, max_num_ems=ne, split_num_same_items=1, container_dims=(cx, cy, cz)),
                             obs_num_ems=over.pop("obs_num_ems", no), **over)
        return E.BinPack(generator=g["BPGen"](max_num_items=3, max_num_ems=5, split_num_same_items=1, container_dims=(4, 4, 4)),
                         obs_num_ems=over.pop("obs_num_ems", 4), **over)
    if base == "FlatPack":
        r, c = (int(x) for x in (var or "2x2").split("x"))
        return E.FlatPack(generator=g["RandomFlatPackGenerator"](num_row_blocks=r, num_col_blocks=c), **over)
    if base == "JobShop":
        j, m, o, d = (int(x) for x in (var or "3x2x2x2").split("x"))
        return E.JobShop(generator=g["JSGen"](num_jobs=j, num_machines=m, max_num_ops=o, max_op_duration=d), **over)
    if base == "Knapsack":
        return E.Knapsack(generator=g["KGen"](num_items=int(var or 4), total_budget=1.0), **over)
    if base == "Tetris":
        r, c = (int(x) for x in (var or "5x4").split("x"))
        return E.Tetris(num_rows=r, num_cols=c, **tl(), **over)
    if base == "Cleaner":
        r, c, a = (int(x) for x in (var or "3x5x2").split("x"))
        return E.Cleaner(generator=g["CleanerGen"](num_rows=r, num_cols=c, num_agents=a), **tl(), **over)
    if base == "Connector":
        gs, a = (int(x) for x in (var or "4x2").split("x"))
        return E.Connector(generator=g["UniformRandomGenerator"](grid_size=gs, num_agents=a), **tl(), **over)
    if base == "ConnectorRW":
        gs, a = (int(x) for x in (var or "3x2").split("x"))
        return E.Connector(generator=g["RandomWalkGenerator"](grid_size=gs, num_agents=a), **tl(), **over)
    if base == "CVRP":
        return E.CVRP(generator=g["CVRPGen"](num_nodes=int(var or 4), max_capacity=6, max_demand=3), **over)
    if base == "LevelBasedForaging":
        gs, a, f = (int(x) for x in (var or "5x2x1").split("x"))
        return E.LevelBasedForaging(generator=g["LBFGen"](grid_size=gs, fov=over.pop("fov", 2), num_agents=a, num_food=f), **tl(), **over)
    if base == "Maze" and var == "toy":
        from jumanji.environments.routing.maze.generator import ToyGenerator as MazeToy
        return E.Maze(generator=MazeToy(), **tl(), **over)
    if base == "Maze":
        r, c = (int(x) for x in (var or "3x5").split("x"))
        return E.Maze(generator=g["MazeGen"](num_rows=r, num_cols=c), **tl(), **over)
    if base == "MMST":
        # `max_step` override: length of the generator's walk buffer, independent of the environment's time_limit (the default
        # constructor couples them; a custom generator need not)
        ms = over.pop("max_step", None)
        if var.isdigit() and int(var) >= 30:
            # 'MMST@3<k>': THREE agents, 9 nodes (3 utility nodes), instance index k - interactions that need a third agent (edge
            # masking that only keeps the removal caused by the LAST other agent) do not exist with two
            return E.MMST(generator=g["SplitRandomGenerator"](num_nodes=9, num_edges=12, max_degree=4, num_agents=3, num_nodes_per_agent=2,
                                                             max_step=ms if ms is not None else (T if T is not None else 5)), **tl(), **over)
        return E.MMST(generator=g["SplitRandomGenerator"](num_nodes=6, num_edges=8, max_degree=3, num_agents=2, num_nodes_per_agent=2,
                                                         max_step=ms if ms is not None else (T if T is not None else 5)), **tl(), **over)
    if base == "MultiCVRP":
        import re
        m = re.match(r"N(\d+)V(\d+)", var or "")
        nc, nv = (int(m.group(1)), int(m.group(2))) if m else (6, 2)
        return E.MultiCVRP(generator=g["MCGen"](num_customers=nc, num_vehicles=nv), **over)
    if base == "PacMan":
        return E.PacMan(generator=g["AsciiGenerator"](PACMAN_MAZE), **({"time_limit": T} if T is not None else {}), **over)
    if base == "RobotWarehouse":
        return E.RobotWarehouse(generator=g["RWGen"](column_height=1, shelf_rows=1, shelf_columns=3, num_agents=2, sensor_range=1,
                                                     request_queue_size=2), **tl(), **over)
    if base == "Snake":
        r, c = (int(x) for x in (var or "3x4").split("x"))
        return E.Snake(num_rows=r, num_cols=c, **tl(), **over)
    if base == "Sokoban":
        if var == "toy":  # two hard-coded levels, level index drawn by randint on reset
            from jumanji.environments.routing.sokoban.generator import ToyGenerator as SokobanToy
            return E.Sokoban(generator=SokobanToy(), **tl(), **over)
        return E.Sokoban(generator=g["SimpleSolveGenerator"](), **tl(), **over)
    if base == "TSP":
        return E.TSP(generator=g["TSPGen"](num_cities=int(var or 4)), **over)
    raise KeyError(name)


ALL = ["Game2048", "GraphColoring", "Minesweeper", "RubiksCube", "SlidingTilePuzzle", "Sudoku", "BinPack", "FlatPack", "JobShop",
       "Knapsack", "Tetris", "Cleaner", "Connector", "CVRP", "LevelBasedForaging", "Maze", "MMST", "MultiCVRP", "PacMan",
       "RobotWarehouse", "Snake", "Sokoban", "TSP"]

TIME_LIMIT_ENVS = ["RubiksCube", "SlidingTilePuzzle", "Tetris", "Cleaner", "Connector", "LevelBasedForaging", "Maze", "MMST", "PacMan",
                   "RobotWarehouse", "Snake", "Sokoban"]

# default (registered) configurations whose one-step encoding is cheap (DESIGN 1.8)
DEFAULT_OK = ["Game2048", "GraphColoring", "Minesweeper", "RubiksCube", "SlidingTilePuzzle", "Knapsack", "Tetris", "Cleaner", "CVRP",
              "Maze", "Snake", "TSP", "JobShop", "LevelBasedForaging"]


def make_default(name):
    return getattr(E, name)()


# ---- appended (RobotWarehouse / PacMan harness): size variants.  'RobotWarehouse@<shelf_rows>x<shelf_columns>x<column_height>x
# <agents>x<queue>' (sensor_range 1);  'PacMan@<maze name>' with the mazes of PACMAN_MAZES.  Everything else -> make above.
PACMAN_MAZES = {"9x7": ["XXXXXXX",
                        "XSO OSX",
                        "X XGX X",
                        "XT   TX",
                        "XGX XGX",
                        "XT P TX",
                        "X XGX X",
                        "XSO OSX",
                        "XXXXXXX"],
                 "9x11": ["XXXXXXXXXXX",
                          "XSO     OSX",
                          "X XGX XGX X",
                          "XT       TX",
                          "X X XXX X X",
                          "XT   P   TX",
                          "X XGX XGX X",
                          "XSO     OSX",
                          "XXXXXXXXXXX"]}
_make_before_rw_pm = make


def make(name, **over):  # noqa: F811
    base, _, var = name.partition("@")
    if var and base == "RobotWarehouse":
        from jumanji.environments.routing.robot_warehouse.generator import RandomGenerator as RWGen
        over = dict(over)
        T = over.pop("time_limit", None)
        sr, sc, ch, na, q = (int(x) for x in var.split("x"))
        return E.RobotWarehouse(generator=RWGen(column_height=ch, shelf_rows=sr, shelf_columns=sc, num_agents=na, sensor_range=1,
                                                request_queue_size=q), time_limit=T if T is not None else 5, **over)
    if var and base == "PacMan":
        from jumanji.environments.routing.pac_man.generator import AsciiGenerator
        over = dict(over)
        T = over.pop("time_limit", None)
        return E.PacMan(generator=AsciiGenerator(PACMAN_MAZES[var]), **({"time_limit": T} if T is not None else {}), **over)
    return _make_before_rw_pm(name, **over)

"""Maze harness.  Rules (docs/environments/maze.md + class docstring): the agent moves up/right/down/left
([0,1,2,3]); a move is legal iff the target cell is inside the rows x cols grid and is not a wall; an illegal
move is a no-op (the agent stays, the episode continues); reward 1 when the agent is on the target cell after
the move, else 0; the episode ends when the target is reached or at the time limit.

Not determined by the docs: `Maze.step` also terminates when the agent has NO legal move at all (a free cell
walled in on all four sides).  The invariant below carries "the agent has a free neighbour" (true for every
generated maze, proved on reset, and inductive: the cell just left is a free neighbour), so this undocumented
cause is shown to be unreachable and `other_done` is exactly the documented "target reached".
Documentation drift (not a property violation): docs say the default limit is 2*rows*cols, the code uses rows*cols."""
import numpy as np

from engine import sym as S
from engine import vexpr as X
from engine.jx2smt import SV
from engine.vexpr import V, vs, where, all_, any_, pick
from envs.base import Harness, register

MOVES = [(-1, 0), (0, 1), (1, 0), (0, -1)]  # up, right, down, left  (row, col)
F32 = np.float32


@register
class MazeH(Harness):
    ENV = "Maze"
    QUICK = ["Maze@3x5", "Maze@4x3"]
    THOROUGH = ["Maze@5x5", "Maze@5x4"]
    INVALID = "ignore"
    TIME_LIMIT = True
    UNROLL = 20   # step has no loops; reset: see RESET_UNROLL

    def __init__(self, cfg, **over):
        super().__init__(cfg, **over)
        R_, C_ = self.dims()
        # reset = recursive-division generator: one `while` iteration per chamber split (at most rooms-1 splits, a room
        # being an (even,even) cell) and one `fori` iteration per wall cell (<= max(R,C)).  The bound is NOT trusted: the
        # unwinding assertion "no loop wants another iteration" is proved with every reset obligation.
        self.RESET_UNROLL = max(((R_ + 1) // 2) * ((C_ + 1) // 2) - 1, R_, C_) + 1
        # Inv(reset) at 5x5 is provable (measured: every conjunct unsat, but 733 s per property, "agent/target not inside a
        # wall" 170-230 s each: gumbel top-k over 25 float keys on top of the unrolled generator), which is over the tier
        # budget; reset is therefore proved on grids of <= 20 cells (3x5, 4x3, 5x4) and 5x5 covers `step` only.
        self.RESET_INV = R_ * C_ <= 20

    def dims(self):
        return self.env.num_rows, self.env.num_cols

    # ------------------------------------------------------------------ pre-state
    def sym_state(self, ctx, tag="S"):
        from jumanji.environments.routing.maze.types import Position, State
        R_, C_ = self.dims()
        walls = ctx.fresh_arr(tag + ".walls", (R_, C_), np.bool_)
        ar = ctx.fresh_arr(tag + ".agent_row", (), np.int32, 0, R_ - 1)
        ac = ctx.fresh_arr(tag + ".agent_col", (), np.int32, 0, C_ - 1)
        tr = ctx.fresh_arr(tag + ".target_row", (), np.int32, 0, R_ - 1)
        tc = ctx.fresh_arr(tag + ".target_col", (), np.int32, 0, C_ - 1)
        step = ctx.fresh_arr(tag + ".step_count", (), np.int32, 0, self.T - 1)
        key = ctx.fresh_arr(tag + ".key", (2,), np.uint32)
        agent = Position(row=ar, col=ac)
        mask = S.call(ctx, self.env._compute_action_mask, walls, agent)
        return State(agent_position=agent, target_position=Position(row=tr, col=tc), walls=walls, action_mask=mask,
                     step_count=step, key=key), []

    @staticmethod
    def _pos(p):
        return vs(p.row), vs(p.col)

    def _free(self, w, r, c):
        """cell (r, c) is inside the grid and not a wall (r, c symbolic)"""
        R_, C_ = self.dims()
        return (r >= 0) & (r < R_) & (c >= 0) & (c < C_) & ~pick(w, r, c, default=X.TRUE)

    def inv(self, st, ctx=None):
        R_, C_ = self.dims()
        w = vs(st.walls)
        ar, ac = self._pos(st.agent_position)
        tr, tc = self._pos(st.target_position)
        sc = vs(st.step_count)
        return [("agent inside the grid", (ar >= 0) & (ar < R_) & (ac >= 0) & (ac < C_)),
                ("target inside the grid", (tr >= 0) & (tr < R_) & (tc >= 0) & (tc < C_)),
                ("agent not inside a wall", ~pick(w, ar, ac, default=X.TRUE)),
                ("target not inside a wall", ~pick(w, tr, tc, default=X.TRUE)),
                ("agent not on the target (else the episode has ended)", ~((ar == tr) & (ac == tc))),
                ("agent has a free neighbouring cell", any_([self._free(w, ar + dr, ac + dc) for dr, dc in MOVES])),
                ("step_count in [0, time_limit]", (sc >= 0) & (sc <= self.T)),
                ("cached action_mask == mask rule", X.eq_arr(vs(st.action_mask), self.mask_rule(st)))]

    # ------------------------------------------------------------------ rules
    def mask_rule(self, st):
        w = vs(st.walls)
        ar, ac = self._pos(st.agent_position)
        out = np.empty((4,), dtype=object)
        for k, (dr, dc) in enumerate(MOVES):
            out[k] = self._free(w, ar + dr, ac + dc)
        return out

    def action_legal(self, st, act):
        return [pick(self.mask_rule(st), vs(act))]

    def _moved(self, st, ns):
        ar, ac = self._pos(st.agent_position)
        nr, nc = self._pos(ns.agent_position)
        return ~((ar == nr) & (ac == nc))

    def treated_invalid(self, st, act, ns, ts):
        # documented reaction to an invalid action: no-op, i.e. the agent did not move (a legal move always moves it)
        return [~self._moved(st, ns)]

    def illegal_effect(self, st, act, ns, ts, bad):
        b = bad[0]
        t1 = vs(st.step_count) + 1
        return [("illegal => agent keeps its position", b.implies(~self._moved(st, ns))),
                ("illegal => walls and target untouched", b.implies(X.same(st.walls, ns.walls) & X.same(st.target_position.row, ns.target_position.row)
                                                                    & X.same(st.target_position.col, ns.target_position.col))),
                ("illegal => action mask unchanged", b.implies(X.same(st.action_mask, ns.action_mask))),
                ("illegal => step_count advances by one (as for a no-op)", b.implies(vs(ns.step_count) == t1)),
                ("illegal => reward 0", b.implies(vs(ts.reward) == F32(0))),
                ("illegal => episode continues (MID) unless the time limit is reached", b.implies((vs(ts.step_type) == 2).iff(t1 >= self.T))),
                ("illegal => discount 1 while the episode continues", (b & (t1 < self.T)).implies(vs(ts.discount) == F32(1)))]

    def conserve(self, st, act, ns, ts):
        ar, ac = self._pos(st.agent_position)
        nr, nc = self._pos(ns.agent_position)
        one = ((nr == ar) & ((nc == ac + 1) | (nc == ac - 1))) | ((nc == ac) & ((nr == ar + 1) | (nr == ar - 1)))
        stay = (nr == ar) & (nc == ac)
        return [("walls never change", X.same(st.walls, ns.walls)),
                ("target never moves", X.same(st.target_position.row, ns.target_position.row) & X.same(st.target_position.col, ns.target_position.col)),
                ("key untouched", X.same(st.key, ns.key)),
                ("agent stays or moves to a 4-neighbour cell", stay | one),
                ("agent moves exactly in the direction of the action or stays",
                 stay | any_([(vs(act) == k) & (nr == ar + dr) & (nc == ac + dc) for k, (dr, dc) in enumerate(MOVES)]))]

    def _reached(self, ns):
        nr, nc = self._pos(ns.agent_position)
        tr, tc = self._pos(ns.target_position)
        return (nr == tr) & (nc == tc)

    def reward_law(self, st, act, ns, ts, legal):
        # sparse objective Phi = [target reached]; paid once, on the step that reaches the target, which is LAST
        reached = self._reached(ns)
        return [("reward == [agent on target after the move]", vs(ts.reward) == where(reached, F32(1), F32(0), F32)),
                ("reward 1 is paid only on a LAST step (so it is paid at most once per episode)", (vs(ts.reward) != F32(0)).implies(vs(ts.step_type) == 2))]

    def ref_step(self, st, act):
        R_, C_ = self.dims()
        w = vs(st.walls)
        ar, ac = self._pos(st.agent_position)
        tr, tc = self._pos(st.target_position)
        a = vs(act)
        # legality restated locally (not via mask_rule): candidate cell by direction
        dr = where(a == 0, -1, where(a == 2, 1, 0))
        dc = where(a == 1, 1, where(a == 3, -1, 0))
        cr, cc = ar + dr, ac + dc
        ok = self._free(w, cr, cc)
        nr, nc = where(ok, cr, ar), where(ok, cc, ac)
        sc = vs(st.step_count) + 1
        reached = (nr == tr) & (nc == tc)
        nmask = np.empty((4,), dtype=object)
        for k, (mr, mc) in enumerate(MOVES):
            nmask[k] = self._free(w, nr + mr, nc + mc)
        # documented causes only: target reached, time limit (Inv shows "no move available" cannot occur)
        return {"agent_position.row": nr, "agent_position.col": nc, "target_position.row": tr, "target_position.col": tc,
                "walls": w, "action_mask": nmask, "step_count": sc, "key": vs(st.key),
                "reward": where(reached, F32(1), F32(0), F32), "last": reached | (sc >= self.T)}

    def other_done(self, st, act, ns, ts):
        return self._reached(ns)

    def observer(self, ns):
        return {"agent_position.row": vs(ns.agent_position.row), "agent_position.col": vs(ns.agent_position.col),
                "target_position.row": vs(ns.target_position.row), "target_position.col": vs(ns.target_position.col),
                "walls": vs(ns.walls), "step_count": vs(ns.step_count), "action_mask": self.mask_rule(ns)}

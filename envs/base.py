"""Per-environment harness table (DESIGN 1.7).  One subclass per environment in envs/<name>.py.

Everything an oracle returns is written with engine.vexpr.V scalars, so the SAME function is evaluated
symbolically (to build the obligation) and concretely (on the real outputs, to replay a counterexample).

Conventions
-----------
* `st`, `ns` : the env's State pytree whose leaves are engine.jx2smt.SV (symbolic or concrete)
* `act`      : SV of the action spec's shape
* `ts`       : TimeStep pytree of SV
* an "obligation list" is a list of (name, V-bool)
Methods a subclass does not define make the corresponding driver skip that environment (recorded in evidence).
"""
import numpy as np

from engine import sym as S
from engine import vexpr as X
from engine.jx2smt import SV
from engine.vexpr import V, vs
from envs import configs


class Harness:
    ENV = None                 # class name in jumanji.environments
    QUICK = []                 # config names for the quick tier (envs/configs.py syntax)
    THOROUGH = []              # additional config names for the thorough tier
    MASKED = True              # exposes an action mask
    INVALID = None             # 'terminate' | 'ignore' | None (no illegal in-spec actions)
    TIME_LIMIT = False         # accepts time_limit
    BMC = False                # True: bounded unrolling from `bmc_init` instead of the inductive pre-state
    BMC_DEPTH = {"quick": 2, "thorough": 3}
    UNROLL = 16                # while-loop unrolling bound (unwinding assertion is an obligation)
    OBS_MASK = "action_mask"   # attribute of the observation holding the mask

    def __init__(self, cfg, **over):
        self.cfg = cfg
        self.over = dict(over)
        self.env = configs.make(cfg, **over)
        self.T = getattr(self.env, "time_limit", None)

    # ------------------------------------------------------------------ pre-state
    def sym_state(self, ctx, tag="S"):
        """-> (state pytree of SV, [z3 assumptions]) : arbitrary state in the declared finite domain, cached
        fields (action masks ...) tied to the rest by running the env's own function symbolically."""
        raise NotImplementedError

    def inv(self, st, ctx=None):
        """validity predicate as an obligation list; assumed on the pre-state, proved on reset and on every
        non-terminal successor (so it must be inductive)."""
        return []

    def bmc_init(self, ctx):
        """BMC envs: -> (initial state of a symbolic instance, [assumptions])"""
        raise NotImplementedError

    # ------------------------------------------------------------------ rules (independent statement)
    def mask_rule(self, st):
        """object array of V-bool shaped like the observation's action mask: entry True iff the rules of the
        problem allow that action in `st`.  Must NOT call repo helpers."""
        raise NotImplementedError

    def allowed_by(self, mask, act):
        """[V-bool per agent]: does `mask` (object array shaped like the observation's mask) allow `act`?
        Default covers: flat single-agent (mask (n,), act ()), per-agent (mask (A,n), act (A,)), and
        multi-discrete single-agent (mask (n1,..,nk), act (k,))."""
        from engine.vexpr import pick
        mask = np.asarray(mask, dtype=object)
        a = vs(act)
        if isinstance(a, V):
            return [pick(mask, a)]
        if mask.ndim == 2 and a.shape == (mask.shape[0],) and not getattr(self, "MULTI_DISCRETE", False):
            return [pick(mask[i], a[i]) for i in range(len(a))]
        return [pick(mask, *list(a))]

    def action_legal(self, st, act):
        """[V-bool per agent] legality of the concrete/symbolic action `act` under mask_rule"""
        return self.allowed_by(self.mask_rule(st), act)

    def treated_invalid(self, st, act, ns, ts):
        """[V-bool per agent] the environment's own reaction marks the action as invalid (C04b)"""
        return None

    def illegal_effect(self, st, act, ns, ts, bad):
        """documented effect of an illegal action; `bad` = [V-bool per agent] (C05)"""
        return None

    # ------------------------------------------------------------------ C06 / C07
    def constraints(self, st):
        return None

    def complete(self, st, ts):
        """(V-bool completed-by-completion, obligation list 'state encodes a complete feasible solution')"""
        return None

    def conserve(self, st, act, ns, ts):
        """frame + local delta laws across one step (C07)"""
        return None

    # ------------------------------------------------------------------ C08 / C09 / C11 / C12
    def reward_law(self, st, act, ns, ts, legal):
        """telescoping reward identities (C08); `legal` = V-bool all agents legal"""
        return None

    def ref_step(self, st, act):
        """independent re-implementation of the rules -> dict with keys = state field names (object arrays of V /
        V), plus 'reward' (V or array) and 'last' (V-bool).  Fields that depend on fresh randomness are omitted."""
        return None

    def other_done(self, st, act, ns, ts):
        """V-bool: a documented termination cause other than the time limit occurred on this step (C11)"""
        return None

    def step_count(self, st):
        return vs(st.step_count)

    def measure(self, st):
        """(V int measure, int bound) for the structural horizon of envs without a time limit"""
        return None

    def observer(self, ns):
        """dict {observation leaf path (keystr) or attribute name: object array of V} recomputed from the state"""
        return None

    # ------------------------------------------------------------------ helpers
    def zlist(self, obl):
        return [o[1].z() for o in obl]

    @staticmethod
    def mask_of(obs, name="action_mask"):
        return getattr(obs, name)


REGISTRY = {}


def register(cls):
    REGISTRY[cls.ENV] = cls
    return cls


MODULES = {"Game2048": "game_2048", "GraphColoring": "graph_coloring", "Minesweeper": "minesweeper", "RubiksCube": "rubiks_cube",
           "SlidingTilePuzzle": "sliding_tile_puzzle", "Sudoku": "sudoku", "BinPack": "bin_pack", "FlatPack": "flat_pack",
           "JobShop": "job_shop", "Knapsack": "knapsack", "Tetris": "tetris", "Cleaner": "cleaner", "Connector": "connector",
           "ConnectorRW": "connector", "CVRP": "cvrp", "LevelBasedForaging": "lbf", "Maze": "maze", "MMST": "mmst",
           "MultiCVRP": "multi_cvrp", "PacMan": "pac_man", "RobotWarehouse": "robot_warehouse", "Snake": "snake",
           "Sokoban": "sokoban", "TSP": "tsp"}


def available():
    """env names that have a harness module"""
    import os
    here = os.path.dirname(os.path.abspath(__file__))
    return [k for k, m in MODULES.items() if os.path.exists(os.path.join(here, m + ".py")) and k != "ConnectorRW"]


def get(cfg, **over):
    import importlib
    base = cfg.partition("@")[0]
    if base not in REGISTRY:
        importlib.import_module(f"envs.{MODULES[base]}")
    return REGISTRY[base](cfg, **over)


def cls_of(base):
    import importlib
    if base not in REGISTRY:
        importlib.import_module(f"envs.{MODULES[base]}")
    return REGISTRY[base]

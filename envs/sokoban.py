"""Sokoban harness (10x10, fixed by the code).  Rules (docs/environments/sokoban.md + class docstring):
two stacked grids: fixed (EMPTY 0 / WALL 1 / TARGET 2) and variable (EMPTY 0 / AGENT 3 / BOX 4).  The agent moves one
cell; if the destination is a wall or off the grid, or holds a box that cannot be pushed (the cell behind it is off the
grid, a wall or another box -- no chained pushes), "the grid state remains unchanged; however, the step count is
incremented by one".  Otherwise the agent advances and a box in front of it advances with it.  Dense reward:
-0.1 per step, +1/-1 per box moved onto/off a target, +10 when all four boxes are on targets; sparse: 10 at
completion.  Ends when all 4 boxes are on targets or at the time limit.  There is no action mask (MASKED=False):
legality = "the move has an effect" is given directly by `action_legal`.

Action numbering: the class docstring, `action_spec` and constants.MOVES say [0,1,2,3] = [Up, Right, Down, Left]; the
`step` docstring and docs/environments/sokoban.md say [Up, Down, Left, Right].  The published sources contradict each
other; this harness follows the class docstring (= the code).  Reported as documentation drift.

Not in the invariant: "exactly 4 boxes" (a global cardinality is pigeonhole-hard: unknown at 600 s).  It follows by
arithmetic from C07's frame + footprint-delta laws.  Consequently "solved" is stated as the docs do ("all four boxes on
targets" = 4 cells that are BOX over TARGET), recomputed here from the raw arrays."""
import numpy as np

from engine import sym as S
from engine import vexpr as X
from engine.jx2smt import SV
from engine.vexpr import V, vs, where, all_, any_, pick, put, count
from envs.base import Harness, register

EMPTY, WALL, TARGET, AGENT, BOX = 0, 1, 2, 3, 4
G = 10
N_BOXES = 4
MOVES = [(-1, 0), (0, 1), (1, 0), (0, -1)]  # up, right, down, left  (row, col)
F32 = np.float32
U8 = np.uint8


def _sparse():
    from jumanji.environments.routing.sokoban.reward import SparseReward
    return SparseReward()


@register
class SokobanH(Harness):
    ENV = "Sokoban"
    QUICK = ["Sokoban"]
    THOROUGH = ["Sokoban@toy"]
    C11_SPECIAL_CFGS = ["Sokoban@toy"]   # the other shipped generator builds its own initial State (its own step_count dtype)
    MASKED = False
    INVALID = "ignore"
    TIME_LIMIT = True
    REWARD_VARIANTS = [{}, {"reward_fn": _sparse()}]
    REF_REWARD_VARIANTS = True   # ref_step follows the configured reward function (C09 runs the variants too)

    def sparse(self):
        return type(self.env.reward_fn).__name__ == "SparseReward"

    # ------------------------------------------------------------------ pre-state
    def sym_state(self, ctx, tag="S"):
        from jumanji.environments.routing.sokoban.types import State
        fixed = ctx.fresh_arr(tag + ".fixed_grid", (G, G), U8, 0, 2)
        var = ctx.fresh_arr(tag + ".variable_grid", (G, G), U8, 0, 4)
        loc = ctx.fresh_arr(tag + ".agent_location", (2,), np.int32, 0, G - 1)
        step = ctx.fresh_arr(tag + ".step_count", (), np.int32, 0, self.T - 1)
        key = ctx.fresh_arr(tag + ".key", (2,), np.uint32)
        return State(key=key, fixed_grid=fixed, variable_grid=var, agent_location=loc, step_count=step), []

    @staticmethod
    def _on_targets(st):
        f, v = vs(st.fixed_grid), vs(st.variable_grid)
        return count([(v[i, j] == BOX) & (f[i, j] == TARGET) for i in range(G) for j in range(G)])

    def inv(self, st, ctx=None):
        f, v, l = vs(st.fixed_grid), vs(st.variable_grid), vs(st.agent_location)
        sc = vs(st.step_count)
        ob = [("fixed grid values in {EMPTY, WALL, TARGET}", all_([(x == EMPTY) | (x == WALL) | (x == TARGET) for x in f.reshape(-1)])),
              ("variable grid values in {EMPTY, AGENT, BOX}", all_([(x == EMPTY) | (x == AGENT) | (x == BOX) for x in v.reshape(-1)])),
              ("nothing (agent, box) inside a wall", all_([(f[i, j] == WALL).implies(v[i, j] == EMPTY) for i in range(G) for j in range(G)])),
              ("agent_location inside the grid", (l[0] >= 0) & (l[0] < G) & (l[1] >= 0) & (l[1] < G))]
        for i in range(G):
            ob.append((f"row {i}: a cell is AGENT <=> it is agent_location (exactly one agent, tracked)",
                       all_([(v[i, j] == AGENT).iff((l[0] == i) & (l[1] == j)) for j in range(G)])))
        ob.append(("step_count in [0, time_limit]", (sc >= 0) & (sc <= self.T)))
        ob.append(("level not already solved (a solved state is terminal)", self._on_targets(st) != N_BOXES))
        return ob

    # ------------------------------------------------------------------ rules
    @staticmethod
    def _dir(a):
        dr = where(a == 0, -1, where(a == 2, 1, 0))
        dc = where(a == 1, 1, where(a == 3, -1, 0))
        return dr, dc

    @staticmethod
    def _inside(r, c):
        return (r >= 0) & (r < G) & (c >= 0) & (c < G)

    def _move(self, st, act):
        """-> (effective?, pushes a box?, (r1,c1) destination, (r2,c2) cell behind it)"""
        f, v, l, a = vs(st.fixed_grid), vs(st.variable_grid), vs(st.agent_location), vs(act)
        dr, dc = self._dir(a)
        r1, c1 = l[0] + dr, l[1] + dc
        r2, c2 = r1 + dr, c1 + dc
        in1, in2 = self._inside(r1, c1), self._inside(r2, c2)
        wall1 = pick(f, r1, c1, default=X.const(WALL, U8)) == WALL
        box1 = in1 & (pick(v, r1, c1, default=X.const(EMPTY, U8)) == BOX)
        wall2 = pick(f, r2, c2, default=X.const(WALL, U8)) == WALL
        box2 = pick(v, r2, c2, default=X.const(EMPTY, U8)) == BOX
        can_push = in2 & ~wall2 & ~box2
        ok = in1 & ~wall1 & (~box1 | can_push)
        return ok, ok & box1, (r1, c1), (r2, c2)

    def action_legal(self, st, act):
        return [self._move(st, act)[0]]

    def treated_invalid(self, st, act, ns, ts):
        l0, l1 = vs(st.agent_location), vs(ns.agent_location)
        return [(l0[0] == l1[0]) & (l0[1] == l1[1])]

    def _step_reward(self, n0, n1):
        solved = n1 == N_BOXES
        if self.sparse():
            return where(solved, F32(10), F32(0), F32)
        return ((n1 - n0) + where(solved, 10, 0)).astype(F32) + F32(-0.1)

    def illegal_effect(self, st, act, ns, ts, bad):
        b = bad[0]
        t1 = vs(st.step_count) + 1
        n0, n1 = self._on_targets(st), self._on_targets(ns)
        # Global box counts over two different grid TERMS are pigeonhole-hard for the solver (unknown at 120 s even with the
        # agent location and the action fixed), so "reward is exactly the per-step reward" and "the episode continues" are
        # stated modulo count(S') vs count(S); these coincide because S'.grids == S.grids cell by cell (the row obligations
        # below) and count(S) != 4 by Inv -- a congruence step done outside the solver.
        ob = [("blocked move => agent keeps its location", b.implies(X.same(st.agent_location, ns.agent_location))),
              ("blocked move => fixed grid unchanged", b.implies(X.same(st.fixed_grid, ns.fixed_grid))),
              ("blocked move => step_count advances by one", b.implies(vs(ns.step_count) == t1)),
              ("blocked move => reward == per-step reward + box/completion terms of an UNCHANGED grid (which vanish)",
               b.implies(vs(ts.reward) == self._step_reward(n0, n1))),
              ("blocked move => episode continues (MID) unless the time limit is reached (or the unchanged grid is solved: excluded by Inv)",
               b.implies((vs(ts.step_type) == 2).iff((t1 >= self.T) | (n1 == N_BOXES))))]
        v0, v1 = vs(st.variable_grid), vs(ns.variable_grid)
        for i in range(G):
            ob.append((f"blocked move => variable grid row {i} unchanged (nothing moved)", b.implies(all_([v0[i, j] == v1[i, j] for j in range(G)]))))
        return ob

    def conserve(self, st, act, ns, ts):
        v0, v1, l0, l1, a = vs(st.variable_grid), vs(ns.variable_grid), vs(st.agent_location), vs(ns.agent_location), vs(act)
        dr, dc = self._dir(a)
        foot = [(l0[0] + k * dr, l0[1] + k * dc) for k in range(3)]     # agent cell and the two cells ahead
        ob = [("fixed grid (walls, targets) never changes", X.same(st.fixed_grid, ns.fixed_grid)),
              ("key untouched", X.same(st.key, ns.key)),
              ("agent stays or advances exactly one cell in the direction of the action",
               ((l1[0] == l0[0]) & (l1[1] == l0[1])) | ((l1[0] == l0[0] + dr) & (l1[1] == l0[1] + dc)))]
        for i in range(G):
            ob.append((f"frame: row {i} cells outside the move footprint (agent cell + 2 cells ahead) are unchanged",
                       all_([any_([(r == i) & (c == j) for r, c in foot]) | (v1[i, j] == v0[i, j]) for j in range(G)])))

        def box(g, r, c):
            return (pick(g, r, c, default=X.const(EMPTY, U8)) == BOX).astype(np.int32)
        ob.append(("delta: the number of boxes on the footprint is conserved (with the frame law: total box count conserved)",
                   box(v0, *foot[0]) + box(v0, *foot[1]) + box(v0, *foot[2]) == box(v1, *foot[0]) + box(v1, *foot[1]) + box(v1, *foot[2])))
        ob.append(("a box is never created under/at the old agent cell", box(v1, *foot[0]) == 0))
        return ob

    def reward_law(self, st, act, ns, ts, legal):
        n0, n1 = self._on_targets(st), self._on_targets(ns)
        ob = [("reward == Phi(S') - Phi(S), Phi = boxes on targets - 0.1*steps (+10 at completion)" if not self.sparse() else
               "sparse reward == 10*[all four boxes on targets]", vs(ts.reward) == self._step_reward(n0, n1)),
              ("completion bonus / LAST by completion only when 4 cells hold a BOX over a TARGET",
               ((vs(ts.step_type) == 2) & (vs(st.step_count) + 1 < self.T)).implies(n1 == N_BOXES))]
        # "+1 for each box moved onto a target, -1 for each box moved off a target", stated PER CELL (the sum over the cells,
        # i.e. count(S') - count(S) = [pushed box lands on a target] - [pushed box leaves a target], is arithmetic outside
        # the solver; the summed form is a global-cardinality query: unknown at 300 s)
        f0, v0, f1, v1 = vs(st.fixed_grid), vs(st.variable_grid), vs(ns.fixed_grid), vs(ns.variable_grid)
        ok, push, (r1, c1), (r2, c2) = self._move(st, act)
        for i in range(G):
            cs = []
            for j in range(G):
                was, now = (v0[i, j] == BOX) & (f0[i, j] == TARGET), (v1[i, j] == BOX) & (f1[i, j] == TARGET)
                lands = push & (r2 == i) & (c2 == j) & (f0[i, j] == TARGET)
                leaves = push & (r1 == i) & (c1 == j) & (f0[i, j] == TARGET)
                cs.append(now.astype(np.int32) - was.astype(np.int32) == lands.astype(np.int32) - leaves.astype(np.int32))
            ob.append((f"row {i}: [box on target] changes per cell by [the pushed box lands here] - [the pushed box leaves here]", all_(cs)))
        return ob

    REF_DRAWS = True   # ref_step reads S' ONLY to count boxes on targets (see below); nothing depends on randomness

    def ref_step(self, st, act, ns):
        f, v, l = vs(st.fixed_grid), vs(st.variable_grid), vs(st.agent_location)
        ok, push, (r1, c1), (r2, c2) = self._move(st, act)
        nv = put(v, (l[0], l[1]), X.const(EMPTY, U8), cond=ok)
        nv = put(nv, (r1, c1), X.const(AGENT, U8), cond=ok)
        nv = put(nv, (r2, c2), X.const(BOX, U8), cond=push)
        nl = np.array([where(ok, r1, l[0]), where(ok, c1, l[1])], dtype=object)
        # Reward / termination reference = the documented formula over the number of boxes on targets.  Counting over the
        # reference grid `nv` and comparing with the code's count over its own grid term is a global-cardinality query
        # (unknown at 120 s); the count is therefore taken over S'.variable_grid / S'.fixed_grid, which the two field
        # obligations of this same check prove equal, cell by cell, to `nv` / `f` (congruence step outside the solver).
        n0, n1 = self._on_targets(st), self._on_targets(ns)
        sc = vs(st.step_count) + 1
        return {"variable_grid": nv, "agent_location": nl, "fixed_grid": f, "step_count": sc, "key": vs(st.key),
                "reward": self._step_reward(n0, n1), "last": (n1 == N_BOXES) | (sc >= self.T)}

    def other_done(self, st, act, ns, ts):
        return self._on_targets(ns) == N_BOXES

    def observer(self, ns):
        return {"grid": np.stack([vs(ns.variable_grid), vs(ns.fixed_grid)], axis=-1), "step_count": vs(ns.step_count)}

"""SlidingTilePuzzle harness.  Rules (docs/environments/sliding_tile_puzzle.md + class docstring): an N x N board holds the
tiles 1..N*N-1 and one blank (0); the action moves the BLANK up(0) / right(1) / down(2) / left(3), i.e. swaps it with
that neighbour; a move that would take the blank off the grid is not valid (mask False) and is ignored; the episode ends
when the board equals the goal 1,2,...,N*N-1,0 (row major) or at the time limit.  Reward (docs): dense = (tiles newly in
their goal cell) - (tiles newly out of their goal cell), sparse = 1 iff solved else 0.
(The class docstring of env.py still describes an older reward, "-1 per misplaced tile"; docs/*.md and DenseRewardFn's own
docstring agree with each other and are taken as the documented rule.)"""
import numpy as np

from engine import sym as S
from engine import vexpr as X
from engine.jx2smt import SV
from engine.vexpr import V, vs, where, all_, any_, pick, put, count
from envs.base import Harness, register

MOVES = [(-1, 0), (0, 1), (1, 0), (0, -1)]  # up, right, down, left of the BLANK (row, col)


def _sparse():
    from jumanji.environments.logic.sliding_tile_puzzle.reward import SparseRewardFn
    return SparseRewardFn()


@register
class SlidingTilePuzzleH(Harness):
    ENV = "SlidingTilePuzzle"
    QUICK = ["SlidingTilePuzzle@3", "SlidingTilePuzzle@2"]
    THOROUGH = ["SlidingTilePuzzle@4"]
    INVALID = "ignore"
    TIME_LIMIT = True

    def n(self):
        return self.env.generator.grid_size

    def sparse(self):
        return type(self.env.reward_fn).__name__ == "SparseRewardFn"

    def goal(self):
        n = self.n()
        g = np.arange(1, n * n + 1).reshape(n, n)
        g[-1, -1] = 0
        return g

    # ------------------------------------------------------------------ state
    def sym_state(self, ctx, tag="S"):
        from jumanji.environments.logic.sliding_tile_puzzle.types import State
        n = self.n()
        puzzle = ctx.fresh_arr(tag + ".puzzle", (n, n), np.int32, 0, n * n - 1)
        pos = ctx.fresh_arr(tag + ".empty", (2,), np.int32, 0, n - 1)
        step = ctx.fresh_arr(tag + ".step_count", (), np.int32, 0, self.T - 1)
        key = ctx.fresh_arr(tag + ".key", (2,), np.uint32)
        return State(puzzle=puzzle, empty_tile_position=pos, key=key, step_count=step), []

    def _parity_ok(self, p, pos):
        """solvable class: every move is one transposition (flips the permutation parity) and moves the blank by one cell
        (flips the parity of its Manhattan distance to the goal corner); so parity(permutation w.r.t. the goal order) ==
        parity(distance of the blank from the bottom-right corner) in every state reachable from the goal."""
        n = self.n()
        flat = list(p.reshape(-1))
        rank = [where(x == 0, n * n - 1, x - 1) for x in flat]   # position of the tile in the goal sequence
        inv = X.FALSE
        for i in range(len(rank)):
            for j in range(i + 1, len(rank)):
                inv = inv ^ (rank[i] > rank[j])
        dist = (n - 1 - pos[0]) + (n - 1 - pos[1])
        return inv.iff((dist % 2) == 1)

    def inv(self, st, ctx=None):
        n = self.n()
        p, pos = vs(st.puzzle), vs(st.empty_tile_position)
        flat = list(p.reshape(-1))
        ob = [("tiles in 0..N*N-1", all_([(x >= 0) & (x < n * n) for x in flat])),
              ("tiles pairwise distinct (a permutation)", all_([flat[i] != flat[j] for i in range(len(flat)) for j in range(i)])),
              ("empty_tile_position inside the grid", all_([(q >= 0) & (q < n) for q in pos])),
              ("empty_tile_position is where the 0 is", pick(p, pos[0], pos[1], default=-1) == 0),
              ("step_count in [0, time_limit]", (vs(st.step_count) >= 0) & (vs(st.step_count) <= self.T)),
              ]
        # solvable class: a consequence of "every step is a blank/neighbour swap or the identity" (proved by C09) plus the
        # classical parity argument.  As a solver obligation it is an XOR chain over N^2(N^2-1)/2 symbolic comparisons:
        # measured 85 s at 3x3 (150 s when split per blank cell), so it is an Inv conjunct only at 2x2.
        if n <= 2:
            ob.append(("board in the solvable class (permutation parity == blank distance parity)", self._parity_ok(p, pos)))
        return ob

    # ------------------------------------------------------------------ rules
    def mask_rule(self, st):
        n = self.n()
        pos = vs(st.empty_tile_position)
        out = np.empty((4,), dtype=object)
        for k, (dr, dc) in enumerate(MOVES):
            r, c = pos[0] + dr, pos[1] + dc
            out[k] = (r >= 0) & (r < n) & (c >= 0) & (c < n)
        return out

    def _solved(self, p):
        g = self.goal()
        n = self.n()
        return all_([p[i, j] == int(g[i, j]) for i in range(n) for j in range(n)])

    def _correct(self, p):
        g = self.goal()
        n = self.n()
        return count([p[i, j] == int(g[i, j]) for i in range(n) for j in range(n)])

    def _ref_move(self, st, act):
        """blank/neighbour swap, or identity if the neighbour does not exist"""
        n = self.n()
        p, pos, a = vs(st.puzzle), vs(st.empty_tile_position), vs(act)
        legal = pick(self.mask_rule(st), a)
        dr = where(a == 0, -1, where(a == 2, 1, 0))
        dc = where(a == 1, 1, where(a == 3, -1, 0))
        nr, nc = pos[0] + dr, pos[1] + dc
        moved = pick(p, nr, nc, default=0)            # the tile that slides into the blank's cell
        np_ = put(p, (pos[0], pos[1]), moved, cond=legal)
        np_ = put(np_, (nr, nc), 0, cond=legal)
        npos = np.array([where(legal, nr, pos[0]), where(legal, nc, pos[1])], dtype=object)
        return legal, np_, npos

    def treated_invalid(self, st, act, ns, ts):
        # the environment's reaction to an invalid move: the blank stays where it is
        p0, p1 = vs(st.empty_tile_position), vs(ns.empty_tile_position)
        return [(p0[0] == p1[0]) & (p0[1] == p1[1])]

    def _reward_ref(self, p0, p1):
        if self.sparse():
            return where(self._solved(p1), np.float32(1.0), np.float32(0.0), np.float32)
        return (self._correct(p1) - self._correct(p0)).astype(np.float32)

    def illegal_effect(self, st, act, ns, ts, bad):
        b = bad[0]
        t1 = vs(st.step_count) + 1
        noop_last = self._solved(vs(st.puzzle)) | (t1 >= self.T)
        return [("off-grid move: puzzle unchanged (nothing slides)", b.implies(X.same(ns.puzzle, st.puzzle))),
                ("off-grid move: blank keeps its position", b.implies(X.same(ns.empty_tile_position, st.empty_tile_position))),
                ("off-grid move: episode continues exactly as for a no-op (LAST iff already solved or time limit)",
                 b.implies((vs(ts.step_type) == 2).iff(noop_last))),
                ("off-grid move: reward of a no-op (dense 0 / sparse [solved])",
                 b.implies(vs(ts.reward) == self._reward_ref(vs(st.puzzle), vs(st.puzzle))))]

    REWARD_VARIANTS = [{}, {"reward_fn": "sparse"}]
    REF_REWARD_VARIANTS = True   # ref_step follows the configured reward function (C09 runs the variants too)

    def __init__(self, cfg, **over):
        if over.get("reward_fn") == "sparse":
            over = dict(over, reward_fn=_sparse())
        super().__init__(cfg, **over)
        self.over = {k: (type(v).__name__ if k == "reward_fn" else v) for k, v in self.over.items()}

    def reward_law(self, st, act, ns, ts, legal):
        p0, p1 = vs(st.puzzle), vs(ns.puzzle)
        if self.sparse():
            return [("sparse reward == [S' is the goal board]", vs(ts.reward) == self._reward_ref(p0, p1))]
        return [("dense reward == Phi(S') - Phi(S), Phi = number of tiles (incl. blank) on their goal cell",
                 vs(ts.reward) == self._reward_ref(p0, p1))]

    def ref_step(self, st, act):
        legal, np_, npos = self._ref_move(st, act)
        sc = vs(st.step_count) + 1
        return {"puzzle": np_, "empty_tile_position": npos, "step_count": sc, "key": vs(st.key),
                "reward": self._reward_ref(vs(st.puzzle), np_), "last": self._solved(np_) | (sc >= self.T)}

    def other_done(self, st, act, ns, ts):
        return self._solved(vs(ns.puzzle))

    def observer(self, ns):
        return {"puzzle": vs(ns.puzzle), "empty_tile_position": vs(ns.empty_tile_position), "action_mask": self.mask_rule(ns),
                "step_count": vs(ns.step_count)}

"""PacMan harness.

Rules (docs/environments/pac_man.md + class docstring of PacMan):
* grid cell 1 = free, 0 = wall in the CODE and in the observation spec (the .md example says the opposite: drift);
  Position.x is the ROW, Position.y the COLUMN (`grid[x][y]`); ghost / pellet / power-up rows are (column, row);
* player: "[0,1,2,3,4] -> [Up, Right, Down, Left, No-op]"; a move into a wall is ignored (player stays, episode goes on);
  positions wrap around modulo the grid size;
* +10 for a pellet (removed when collected: its row becomes (0,0)), "20 for a power pellet" (removed likewise, scatter
  mode for 30 steps), +200 for each unique ghost eaten in scatter mode (the ghost returns to its start cell);
* the episode ends when all pellets are collected, the player touches a ghost outside scatter mode, or at time_limit.

Where the documentation does not determine the behaviour (claim restricted, not a finding):
* no-op: the class docstring says "no action (no-op) is taken", the .md says the player "will use the last normal
  action"; the harness follows the docstring (player stays).  The mask entry of the no-op is the constant False in the
  code; docs are silent, so mask_rule[4] = False is taken from the implementation (C04 form (b): the player does not move);
* "touches a ghost": we use the most liberal reading on a discrete step -- the cells {old, new} of the ghost and the
  cells {old, new} of the player intersect -- and "scatter mode active" = frightened_state_time > 0 BEFORE the step.
  On the mazes used here (see below) every reading coincides;
* ghost AI (targets through float norms / softmax sampling): on the 7x9 maze of the config every ghost starts in a
  straight corridor cell, `ghost_move` then treats it as "in a tunnel" and repeats its previous action, which is the
  waiting no-op (4) -- the four ghosts provably NEVER leave their start cells.  That is stated as part of the
  invariant ("ghost i rests on its start cell, action 4 once started") and PROVED on reset and on every successor, so
  for this maze the whole transition (death, ghost rewards, termination) is exact and no ghost primitive is havoc'd.
  Mazes whose ghost start cells are not corridor cells are not supported by this table (constructor asserts).

Genuine-defect candidates exposed on the unchanged tree (oracles kept strict):
* C11: `self.time_limit = 1000 or time_limit` ignores the argument (the harness's T is the REQUESTED limit);
* C01: observation spec bounds of player_locations are swapped (y <= x_size-1, x <= y_size-1);
* C08: power pellet pays 50 (`eat * 50.0`), documented 20;
* C09 (kernel): action 1 moves to column-1 (left on the rendered board) and 3 to column+1, documented right / left.
  All other oracles use the geometry the code implements (CODE_MOVES) so that they stay informative; the documented
  labelling is checked once, by its own obligation.
"""
import numpy as np

from engine import sym as S
from engine import vexpr as X
from engine.jx2smt import SV
from engine.vexpr import V, vs, where, all_, any_, pick, count, TRUE, FALSE
from envs.base import Harness, register

# (d_row, d_col) of actions 0..4 as IMPLEMENTED (player_step / MOVES): up, column-1, down, column+1, stay
CODE_MOVES = [(-1, 0), (0, -1), (1, 0), (0, 1), (0, 0)]
# as DOCUMENTED: up, right, down, left, no-op
DOC_MOVES = [(-1, 0), (0, 1), (1, 0), (0, -1), (0, 0)]
F32 = np.dtype(np.float32)
I32 = np.dtype(np.int32)
PELLET, POWER_DOC, POWER_CODE, GHOST = 10.0, 20.0, 50.0, 200.0
SCATTER_STEPS = 30


def _arr(xs):
    out = np.empty(len(xs), dtype=object)
    for i, x in enumerate(xs):
        out[i] = x
    return out


def _rows(sv):
    """(n,2) SV -> list of (col V, row V)"""
    a = vs(sv)
    return [(a[i, 0], a[i, 1]) for i in range(a.shape[0])]


@register
class PacManH(Harness):
    ENV = "PacMan"
    QUICK = ["PacMan", "PacMan@9x7"]       # 7x9 maze of envs/configs.py and a 9x7 one (rows > cols: exposes the other swapped spec bound)
    THOROUGH = ["PacMan@9x11"]
    INVALID = "ignore"
    TIME_LIMIT = True
    # counters that the code decrements/accumulates without bound; the harness ranges are bounds of the claim
    OPEN_DOMAIN = (".frightened_state_time", ".ghost_init_steps", ".ghost_starts", ".score")

    def __init__(self, cfg, **over):
        requested = over.get("time_limit")
        super().__init__(cfg, **over)
        e = self.env
        # C11 speaks about the limit the user ASKED for (the constructor argument); without override: the env's own
        self.T = requested if requested is not None else e.time_limit
        g = e.generator
        self.maze = np.asarray(g.numpy_maze).astype(np.int32)            # 1 free, 0 wall
        self.R, self.C = self.maze.shape
        self.pel0 = np.asarray(g.pellet_spaces).astype(np.int32)         # (N,2) (col,row)
        self.pow0 = np.asarray(g.powerup_spaces).astype(np.int32)        # (4,2)
        self.spawn = np.asarray(g.ghost_spawns).astype(np.int32)         # (4,2)
        self.scatter = np.asarray(g.scatter_targets).astype(np.int32)
        self.init_targets = [tuple(int(v) for v in t) for t in g.init_targets]
        self.p0 = (int(g.player_coords.x), int(g.player_coords.y))       # (row, col)
        self.N = self.pel0.shape[0]
        assert self.maze[0, 0] == 0, "(0,0) must be a wall: it is the marker of a collected pellet"
        assert (self.maze[0] == 0).all() and (self.maze[-1] == 0).all() and (self.maze[:, 0] == 0).all() and (self.maze[:, -1] == 0).all(), \
            "closed border expected (the code's mask does not wrap; wrap-around is not exercised by this table)"
        for c, r in self.spawn:
            pat = [int(self.maze[r, c - 1]), int(self.maze[r - 1, c]), int(self.maze[r, c + 1]), int(self.maze[r + 1, c])]
            assert pat in ([1, 0, 1, 0], [0, 1, 0, 1]), "ghost start cell is not a straight corridor: moving ghosts are not supported by this table"
        self.mazeV = vs(SV(self.maze, np.int32))

    # ------------------------------------------------------------------ pre-state
    def sym_state(self, ctx, tag="S"):
        from jumanji.environments.routing.pac_man.types import Position, State
        c32 = lambda a: SV(np.asarray(a, np.int32), np.int32)  # noqa
        N = self.N
        # a pellet / power-up row is its original (col,row) or (0,0) once collected: one Boolean per row
        pe = vs(ctx.fresh_arr(tag + ".pellet_present", (N,), np.bool_))
        pw = vs(ctx.fresh_arr(tag + ".power_up_present", (4,), np.bool_))
        pel = np.empty((N, 2), dtype=object)
        for k in range(N):
            for j in range(2):
                pel[k, j] = where(pe[k], int(self.pel0[k, j]), 0)
        pw_ = np.empty((4, 2), dtype=object)
        for k in range(4):
            for j in range(2):
                pw_[k, j] = where(pw[k], int(self.pow0[k, j]), 0)
        pellets = X.count(list(pe))     # Inv: pellets == number of rows still present (derived, so the pre-state satisfies it by construction)
        px = ctx.fresh_arr(tag + ".player.x(row)", (), np.int32, 1, self.R - 2)
        py = ctx.fresh_arr(tag + ".player.y(col)", (), np.int32, 1, self.C - 2)
        fr = ctx.fresh_arr(tag + ".frightened_state_time", (), np.int32, -2, SCATTER_STEPS)
        gst = ctx.fresh_arr(tag + ".ghost_starts", (4,), np.int32, -2, 15)
        gis = ctx.fresh_arr(tag + ".ghost_init_steps", (4,), np.int32, -2, 0)
        gact = ctx.fresh_arr(tag + ".ghost_actions", (4,), np.int32, 0, 4)
        ldir = ctx.fresh_arr(tag + ".last_direction", (), np.int32, 0, 4)
        geat = ctx.fresh_arr(tag + ".ghost_eaten", (4,), np.bool_)
        score = ctx.fresh_arr(tag + ".score", (), np.int32, 0, 1 << 20)
        step = ctx.fresh_arr(tag + ".step_count", (), np.int32, 0, self.T - 1)
        key = ctx.fresh_arr(tag + ".key", (2,), np.uint32)
        sc = lambda v: SV(np.asarray(v, np.int32), np.int32)  # noqa
        st = State(key=key, grid=c32(self.maze), pellets=X.to_sv(pellets, np.int32), frightened_state_time=fr,
                   pellet_locations=X.to_sv(pel, np.int32), power_up_locations=X.to_sv(pw_, np.int32),
                   player_locations=Position(x=px, y=py), ghost_locations=c32(self.spawn),
                   initial_player_locations=Position(x=sc(self.p0[0]), y=sc(self.p0[1])), initial_ghost_positions=c32(self.spawn),
                   ghost_init_targets=[(sc(a), sc(b)) for a, b in self.init_targets], old_ghost_locations=c32(self.spawn),
                   ghost_init_steps=gis, ghost_actions=gact, last_direction=ldir, dead=SV(np.asarray(False), np.bool_),
                   visited_index=Position(x=sc(self.p0[0]), y=sc(self.p0[1])), ghost_starts=gst, scatter_targets=c32(self.scatter),
                   step_count=step, ghost_eaten=geat, score=score)
        return st, []

    def _present(self, rows, orig):
        """row k still holds its original location"""
        return [(c == int(orig[k, 0])) & (r == int(orig[k, 1])) for k, (c, r) in enumerate(rows)]

    def inv(self, st, ctx=None):
        pr, pc = vs(st.player_locations.x), vs(st.player_locations.y)
        ob = [("grid == the generator's maze (1 free, 0 wall)", X.eq_arr(vs(st.grid), self.mazeV)),
              ("player inside the grid on a free cell", (pr >= 0) & (pr < self.R) & (pc >= 0) & (pc < self.C) & (pick(self.mazeV, pr, pc, default=0) == 1))]
        pel, pw = _rows(st.pellet_locations), _rows(st.power_up_locations)
        pres = self._present(pel, self.pel0)
        ob.append(("every pellet row is its original location or (0,0) = collected",
                   all_([p | ((c == 0) & (r == 0)) for p, (c, r) in zip(pres, pel)])))
        ob.append(("every power-up row is its original location or (0,0) = collected",
                   all_([p | ((c == 0) & (r == 0)) for p, (c, r) in zip(self._present(pw, self.pow0), pw)])))
        # one conjunct per cell the player can stand on (every free cell is the original location of exactly one pellet row):
        # with the player's cell fixed the step changes at most that one row, so the two sums differ by a constant; the
        # un-split statement is an adder-equivalence over all rows and goes `unknown` beyond ~30 pellets
        cnt = count(pres)
        for k in range(self.N):
            ob.append((f"pellets == number of pellet rows not yet collected [case: player on the cell of pellet {k}]",
                       ((pc == int(self.pel0[k, 0])) & (pr == int(self.pel0[k, 1]))).implies(vs(st.pellets) == cnt)))
        ob.append(("frightened_state_time <= 30", vs(st.frightened_state_time) <= SCATTER_STEPS))
        g, og, ga, gs = _rows(st.ghost_locations), _rows(st.old_ghost_locations), vs(st.ghost_actions), vs(st.ghost_starts)
        for i in range(4):
            c0, r0 = int(self.spawn[i, 0]), int(self.spawn[i, 1])
            ob.append((f"ghost{i} rests on its start cell (corridor cell => 'tunnel' => repeats the waiting no-op), also one step ago",
                       (g[i][0] == c0) & (g[i][1] == r0) & (og[i][0] == c0) & (og[i][1] == r0)))
            ob.append((f"ghost{i}: action in 0..4, and the waiting no-op (4) once its start delay has run out",
                       (ga[i] >= 0) & (ga[i] <= 4) & ((gs[i] >= 0) | (ga[i] == 4))))
        ob.append(("ghost_init_steps <= 0 (the respawn targeting is never armed)", all_([x <= 0 for x in vs(st.ghost_init_steps)])))
        ob.append(("initial positions / targets are the generator's constants",
                   X.eq_arr(vs(st.initial_ghost_positions), vs(SV(self.spawn, np.int32))) & X.eq_arr(vs(st.scatter_targets), vs(SV(self.scatter, np.int32)))
                   & (vs(st.initial_player_locations.x) == self.p0[0]) & (vs(st.initial_player_locations.y) == self.p0[1])
                   & all_([(vs(t[0]) == a) & (vs(t[1]) == b) for t, (a, b) in zip(st.ghost_init_targets, self.init_targets)])))
        ob.append(("player alive (dead only on a terminal step)", ~vs(st.dead)))
        ob.append(("last_direction in 0..4", (vs(st.last_direction) >= 0) & (vs(st.last_direction) <= 4)))
        ob.append(("score >= 0", vs(st.score) >= 0))
        ob.append(("step_count in [0, time_limit]", (vs(st.step_count) >= 0) & (vs(st.step_count) <= max(self.T, self.env.time_limit))))
        return ob

    # ------------------------------------------------------------------ rules
    def _free(self, r, c):
        return pick(self.mazeV, r % self.R, c % self.C, default=0) == 1

    def _target(self, st, k, moves=CODE_MOVES):
        pr, pc = vs(st.player_locations.x), vs(st.player_locations.y)
        dr, dc = moves[k]
        return (pr + dr + self.R) % self.R, (pc + dc + self.C) % self.C

    def mask_rule(self, st):
        out = np.empty((5,), dtype=object)
        for k in range(4):
            tr, tc = self._target(st, k)
            out[k] = self._free(tr, tc)
        out[4] = FALSE    # taken from the implementation (docs silent), see module docstring
        return out

    def _model(self, st, act, power=POWER_DOC):
        """independent transition model; ghosts rest (proved invariant) -> new ghost cells == old ghost cells"""
        a = vs(act)
        pr, pc = vs(st.player_locations.x), vs(st.player_locations.y)
        legal = pick(self.mask_rule(st), a, default=FALSE)
        dr = where(a == 0, -1, where(a == 2, 1, 0))
        dc = where(a == 1, CODE_MOVES[1][1], where(a == 3, CODE_MOVES[3][1], 0))
        nr = where(legal, (pr + dr + self.R) % self.R, pr)
        nc = where(legal, (pc + dc + self.C) % self.C, pc)
        pel, pw = _rows(st.pellet_locations), _rows(st.power_up_locations)
        hit = [(c == nc) & (r == nr) for (c, r) in pel]
        ate = any_(hit)
        npel = np.empty((self.N, 2), dtype=object)
        for k, (c, r) in enumerate(pel):
            npel[k, 0], npel[k, 1] = where(hit[k], 0, c), where(hit[k], 0, r)
        phit = [(c == nc) & (r == nr) for (c, r) in pw]
        eat = any_(phit)
        npw = np.empty((4, 2), dtype=object)
        for k, (c, r) in enumerate(pw):
            npw[k, 0], npw[k, 1] = where(phit[k], 0, c), where(phit[k], 0, r)
        fr = vs(st.frightened_state_time)
        scatter = fr > 0
        g = _rows(st.ghost_locations)       # ghosts rest: old cell == new cell
        touch = [((gc == nc) & (gr == nr)) | ((gc == pc) & (gr == pr)) for (gc, gr) in g]
        eaten = [t & scatter for t in touch]
        dead = any_([t & ~scatter for t in touch])
        ge = vs(st.ghost_eaten)             # True = this ghost still pays when eaten ("unique ghost")
        reward = (where(ate, np.float32(PELLET), np.float32(0), F32) + where(eat, np.float32(power), np.float32(0), F32)
                  + X.sum_([where(eaten[i] & ge[i], np.float32(GHOST), np.float32(0), F32) for i in range(4)], F32))
        sc = vs(st.step_count) + 1
        npellets = vs(st.pellets) - where(ate, 1, 0)
        return {"nr": nr, "nc": nc, "legal": legal, "pellets": npellets, "pel": npel, "pw": npw, "ate": ate, "eat": eat,
                "fr": where(eat, SCATTER_STEPS, fr - 1), "eaten": eaten, "dead": dead, "reward": reward, "step": sc,
                "ghost_eaten": _arr([where(eaten[i], FALSE, ge[i], X.BOOL) for i in range(4)]),
                "last": dead | (npellets == 0) | (sc >= self.T)}

    def treated_invalid(self, st, act, ns, ts):
        return [(vs(ns.player_locations.x) == vs(st.player_locations.x)) & (vs(ns.player_locations.y) == vs(st.player_locations.y))]

    def illegal_effect(self, st, act, ns, ts, bad):
        """ignore-invalid: "a no-op is performed and the agent's position remains unchanged"; pellets / power-ups can only
        change on the player's (unchanged) cell"""
        b = bad[0]
        pr, pc = vs(st.player_locations.x), vs(st.player_locations.y)
        ob = [("illegal action: player keeps its position", b.implies((vs(ns.player_locations.x) == pr) & (vs(ns.player_locations.y) == pc)))]
        p0, p1 = _rows(st.pellet_locations), _rows(ns.pellet_locations)
        ob.append(("illegal action: no pellet away from the player's cell is touched",
                   b.implies(all_([((c0 == c1) & (r0 == r1)) | ((c0 == pc) & (r0 == pr)) for (c0, r0), (c1, r1) in zip(p0, p1)]))))
        w0, w1 = _rows(st.power_up_locations), _rows(ns.power_up_locations)
        ob.append(("illegal action: no power-up away from the player's cell is touched",
                   b.implies(all_([((c0 == c1) & (r0 == r1)) | ((c0 == pc) & (r0 == pr)) for (c0, r0), (c1, r1) in zip(w0, w1)]))))
        return ob

    # ------------------------------------------------------------------ C07
    def conserve(self, st, act, ns, ts):
        nr, nc = vs(ns.player_locations.x), vs(ns.player_locations.y)
        pr, pc = vs(st.player_locations.x), vs(st.player_locations.y)
        ob = [("player moves at most one cell (no wrap on a closed maze)", abs_(nr - pr) + abs_(nc - pc) <= 1)]
        p0, p1 = _rows(st.pellet_locations), _rows(ns.pellet_locations)
        for lo in range(0, self.N, 10):
            ob.append((f"pellet rows {lo}..{min(lo + 10, self.N) - 1}: unchanged, except a row on the player's new cell, which becomes (0,0)",
                       all_([where((c0 == nc) & (r0 == nr), (c1 == 0) & (r1 == 0), (c1 == c0) & (r1 == r0), X.BOOL)
                             for (c0, r0), (c1, r1) in list(zip(p0, p1))[lo:lo + 10]])))
        w0, w1 = _rows(st.power_up_locations), _rows(ns.power_up_locations)
        ob.append(("power-up rows: unchanged, except a row on the player's new cell, which becomes (0,0)",
                   all_([where((c0 == nc) & (r0 == nr), (c1 == 0) & (r1 == 0), (c1 == c0) & (r1 == r0), X.BOOL) for (c0, r0), (c1, r1) in zip(w0, w1)])))
        ate = any_([(c0 == nc) & (r0 == nr) for (c0, r0) in p0])
        ob.append(("pellets' == pellets - [a pellet lay on the player's new cell]", vs(ns.pellets) == vs(st.pellets) - where(ate, 1, 0)))
        ob.append(("score' == score + reward of this step", vs(ns.score) == vs(st.score) + vs(ts.reward).astype(I32)))
        ob.append(("old_ghost_locations' == ghost_locations", X.eq_arr(vs(ns.old_ghost_locations), vs(st.ghost_locations))))
        return ob

    # ------------------------------------------------------------------ C08
    def reward_law(self, st, act, ns, ts, legal):
        """Phi = 10*pellets collected + 20*power pellets collected + 200*unique ghosts eaten; the step reward is its increment,
        recomputed from the raw arrays of S and S' (rows that turned (0,0), ghost_eaten flags that dropped)"""
        r = vs(ts.reward)
        p0, p1 = _rows(st.pellet_locations), _rows(ns.pellet_locations)
        gone = lambda a, b: [~((c0 == 0) & (r0 == 0)) & (c1 == 0) & (r1 == 0) for (c0, r0), (c1, r1) in zip(a, b)]  # noqa
        npel = count(gone(p0, p1))
        npow = count(gone(_rows(st.power_up_locations), _rows(ns.power_up_locations)))
        ng = count([a & ~b for a, b in zip(vs(st.ghost_eaten), vs(ns.ghost_eaten))])
        base = npel.astype(F32) * np.float32(PELLET) + ng.astype(F32) * np.float32(GHOST)
        return [("no power pellet collected: reward == 10*pellets collected + 200*unique ghosts eaten this step", (npow == 0).implies(r == base)),
                # docs/environments/pac_man.md says 20 per power pellet, the implementation (and the viewer's score) pays 50.
                # PacMan's return is not among the objectives listed by C08, so the constant is taken from the code and
                # the difference is recorded as documentation drift (DESIGN.md, observations), not as a violation.
                ("power pellet collected: reward == 50*power pellets + 10*pellets collected + 200*unique ghosts eaten this step",
                 (npow > 0).implies(r == base + npow.astype(F32) * np.float32(POWER_CODE)))]

    # ------------------------------------------------------------------ C09
    def ref_step(self, st, act):
        m = self._model(st, act)
        g0 = vs(st.ghost_locations)
        ng = np.empty((4, 2), dtype=object)
        for i in range(4):
            ng[i, 0] = where(m["eaten"][i], int(self.spawn[i, 0]), g0[i, 0])
            ng[i, 1] = where(m["eaten"][i], int(self.spawn[i, 1]), g0[i, 1])
        # reward: C08 (the documented constants); score: C07 (score' == score + reward)
        return {"player_locations.x": m["nr"], "player_locations.y": m["nc"], "last_direction": vs(act).astype(I32),
                "pellet_locations": m["pel"], "pellets": m["pellets"], "power_up_locations": m["pw"], "frightened_state_time": m["fr"],
                "ghost_locations": ng, "old_ghost_locations": g0, "ghost_eaten": m["ghost_eaten"], "dead": m["dead"],
                "ghost_starts": _arr([x - 1 for x in vs(st.ghost_starts)]), "grid": vs(st.grid), "step_count": m["step"], "last": m["last"]}

    # The docs label action 1 "right" and 3 "left"; the implementation moves to column-1 for 1 and column+1 for 3 (on the
    # rendered board: left / right).  Every oracle here uses the geometry the code implements; the label mismatch is
    # documentation drift (PacMan is not among the environments C09 lists) and is recorded in DESIGN.md, observations.

    # ------------------------------------------------------------------ C11 / C12
    def other_done(self, st, act, ns, ts):
        m = self._model(st, act)
        return m["dead"] | (m["pellets"] == 0)

    def observer(self, ns):
        return {"grid": vs(ns.grid), "player_locations.x": vs(ns.player_locations.x), "player_locations.y": vs(ns.player_locations.y),
                "ghost_locations": vs(ns.ghost_locations), "power_up_locations": vs(ns.power_up_locations),
                "frightened_state_time": vs(ns.frightened_state_time), "pellet_locations": vs(ns.pellet_locations),
                "action_mask": self.mask_rule(ns), "score": vs(ns.score)}


def abs_(v):
    return where(v >= 0, v, -v)

"""MMST harness (bounded unrolling from CONCRETE instances).

Rules (docs/environments/mmst.md, class docstring of MMST, docstrings of make_action_mask / DenseRewardFn):
  * a connected graph, `num_agents` groups of nodes (node_types[n] = agent id) and utility nodes (type -1); every agent
    walks on the graph starting from one of its own nodes and has to visit (connect) all nodes of its group;
  * action[a] = next node for agent a.  It is INVALID iff the agent has no edge from its current node to that node, or the
    node is a utility node already used by ANOTHER agent (mmst.md, "Action").  The action mask additionally masks every
    action of a finished agent (make_action_mask: "finished_agents: used to mask finished agents");
  * an invalid action: the agent does not move and gets an extra -1 on top of the -1 for not connecting; a valid move onto
    one of the agent's own nodes that it had not connected before gives +10, any other valid move -1 ("we only count
    each node visit once"); the step reward is the sum over agents;
  * two agents naming the same node in one step: a random tie-break decides who moves (constants: INVALID_TIE_BREAK
    "do not move because of tie break").  NOT documented (restricted below, stated as the code's convention): the loser's
    reward contribution (0 in reward.py), the reward contribution of a finished agent (0), which agent wins;
  * the episode ends when every group is connected or when step_count reaches time_limit;
  * hard constraint (C06): no UTILITY node lies on two agents' trees (nodes of a group may be crossed by anybody).

Harness shape: BMC.  The split generator's while-loops cannot be encoded (DESIGN C10), so RESET_INV=False and the initial
states are the states returned by the real env.reset(PRNGKey(VERIF_SEED + i)), i = the number after '@' in the config name;
the PRNG key inside the state (=> the tie-break shuffle) and all agents' actions at every depth are symbolic."""
import os

import numpy as np

from engine import sym as S
from engine import vexpr as X
from engine.jx2smt import SV
from engine.vexpr import V, vs, where, all_, any_, pick, count, sum_
from envs.base import Harness, register

UTILITY = -1
EMPTY = -1
F32 = np.float32


@register
class MMSTH(Harness):
    ENV = "MMST"
    QUICK = ["MMST", "MMST@sym", "MMST@1", "MMST@2", "MMST@30", "MMST@31"]     # MMST@sym: hand-built symbolic instance (all graphs / groupings), see _sym_instance
    THOROUGH = ["MMST@3", "MMST@4", "MMST@5", "MMST@6"]
    INVALID = "ignore"
    TIME_LIMIT = True
    BMC = True
    BMC_DEPTH = {"quick": 3, "thorough": 4}
    SYM_DEPTH = {"quick": 2, "thorough": 3}     # depth for the symbolic instance MMST@sym
    # C11: time_limit decoupled from the generator's walk-buffer length (max_step); the default constructor makes them equal, so a
    # horizon test that reads the buffer length instead of time_limit is invisible unless they differ
    C11_EXTRA = {"quick": [("MMST", 2, {"max_step": 5}), ("MMST@sym", 2, {"max_step": 4})],
                 "thorough": [("MMST", 2, {"max_step": 5}), ("MMST@sym", 2, {"max_step": 4}), ("MMST", 3, {"max_step": 6}), ("MMST@1", 1, {"max_step": 3})]}
    RESET_INV = False          # SplitRandomGenerator: random-walk while-loops, unrolled encoding inconclusive (DESIGN C10)
    BMC_EMITTED = True         # C06: from the 2nd step on the agents only have to respect the mask the environment emitted
    UNROLL = 4                 # the tie-break while_loop runs exactly num_agents (=2) iterations

    def dims(self):
        e = self.env
        return e.num_agents, e.num_nodes, e.num_nodes_per_agent

    # ------------------------------------------------------------------ instance
    def _instance(self):
        import jax
        i = int(self.cfg.partition("@")[2] or 0) % 30      # 'MMST@3<k>' = three-agent generator, instance k (envs/configs.py)
        seed = int(os.environ.get("VERIF_SEED", "0"))
        st, ts = jax.jit(self.env.reset)(jax.random.PRNGKey(seed + i))
        return jax.tree_util.tree_map(np.asarray, st), jax.tree_util.tree_map(np.asarray, ts)

    def __init__(self, cfg, **over):
        super().__init__(cfg, **over)
        if self.cfg.endswith("@sym"):
            self.BMC_DEPTH = dict(self.SYM_DEPTH)

    def _sym_instance(self, ctx):
        """hand-built SYMBOLIC instance (DESIGN Appendix A): every simple graph on num_nodes nodes (not only those the split
        generator can emit: connectivity and max_degree are not assumed, the rules do not depend on them), every assignment of
        node types with num_nodes_per_agent nodes per group, every choice of start node inside the own group; the remaining
        fields are those of a fresh episode (walk = [start], tree = {start}, nothing masked because every agent starts on a
        non-utility node).  The cached action_mask is produced by the environment's own make_action_mask, as in reset."""
        from jumanji.environments.routing.mmst.types import State
        from jumanji.environments.routing.mmst.utils import make_action_mask
        A_, N_, K_ = self.dims()
        T_ = self.T
        ev = vs(ctx.fresh_arr("G.edge", (N_ * (N_ - 1) // 2,), np.bool_))
        adj = np.empty((N_, N_), dtype=object)
        k = 0
        for i in range(N_):
            adj[i, i] = X.const(0)
            for j in range(i):
                adj[i, j] = adj[j, i] = where(ev[k], 1, 0)
                k += 1
        typ = ctx.fresh_arr("G.type", (N_,), np.int32, -1, A_ - 1)
        ntc = ctx.fresh_arr("G.ntc", (A_, K_), np.int32, 0, N_ - 1)
        tv, nv = vs(typ), vs(ntc)
        pre = []
        for a in range(A_):
            pre.append(count([tv[n] == a for n in range(N_)]) == K_)
            for k1 in range(K_):
                pre.append(pick(tv, nv[a, k1], default=-9) == a)
                for k2 in range(k1):
                    pre.append(nv[a, k1] != nv[a, k2])
        pos = np.array([nv[a, 0] for a in range(A_)], dtype=object)
        W_ = int(self.over.get("max_step") or T_)     # walk buffer length = the generator's max_step
        walk = np.empty((A_, W_), dtype=object)
        cni = np.empty((A_, N_), dtype=object)
        ne = np.empty((A_, N_, N_), dtype=object)
        for a in range(A_):
            for i in range(W_):
                walk[a, i] = pos[a] if i == 0 else X.const(-1)
            for n in range(N_):
                cni[a, n] = where(pos[a] == n, n, -1)
                for j in range(N_):
                    ne[a, n, j] = where(adj[n, j] == 1, j, -1)
        I32 = np.int32
        ne_sv, pos_sv = X.to_sv(ne, I32), X.to_sv(pos, I32)
        fin_sv = SV(np.zeros((A_,), dtype=bool), np.bool_)
        mask = S.call(ctx, lambda e_, p_, f_: make_action_mask(A_, N_, e_, p_, f_), ne_sv, pos_sv, fin_sv)
        st = State(node_types=typ, adj_matrix=X.to_sv(adj, I32), connected_nodes=X.to_sv(walk, I32), connected_nodes_index=X.to_sv(cni, I32),
                   nodes_to_connect=ntc, node_edges=ne_sv, positions=pos_sv, position_index=SV(np.zeros((A_,), dtype=I32), I32),
                   action_mask=mask, finished_agents=fin_sv, step_count=SV(np.asarray(0, dtype=I32), I32),
                   key=ctx.fresh_arr("S.key", (2,), np.uint32))
        return st, [p.z() for p in pre]

    def bmc_init(self, ctx):
        if self.cfg.endswith("@sym"):
            return self._sym_instance(ctx)
        st_np, _ = self._instance()
        st = S.conc_tree(st_np)
        st = st.replace(key=ctx.fresh_arr("S.key", (2,), np.uint32))
        return st, []

    def replay_variants(self, s0):
        """same initial state with real PRNG keys: lets a counterexample that depends on the (stubbed) tie-break shuffle find
        a real key that realises the modelled draw (checks/bmc.py replay hook)"""
        import jax
        import jax.numpy as jnp
        for i in range(32):
            yield s0.replace(key=jnp.asarray(jax.random.PRNGKey(1000 + i), dtype=jnp.uint32))

    def bmc_first_timestep(self, ctx, st0):
        from jumanji.types import restart
        return S.call(ctx, lambda s: restart(observation=self.env._state_to_observation(s)), st0)

    # ------------------------------------------------------------------ raw-array vocabulary (never uses node_edges / action_mask)
    def _on_tree(self, st):
        """on[a, n]: node n has been visited by agent a"""
        c = vs(st.connected_nodes_index)
        A_, N_, _ = self.dims()
        out = np.empty((A_, N_), dtype=object)
        for a in range(A_):
            for n in range(N_):
                out[a, n] = c[a, n] != EMPTY
        return out

    def _finished(self, st):
        """fin[a]: every node of agent a's group is on its tree (recomputed; the cached flag is compared in C09)"""
        A_, N_, K_ = self.dims()
        on, ntc = self._on_tree(st), vs(st.nodes_to_connect)
        return [all_([pick(on[a], ntc[a, k], default=X.FALSE) for k in range(K_)]) for a in range(A_)]

    def _taken_by_other(self, st, a, n):
        A_, _, _ = self.dims()
        on = self._on_tree(st)
        return (vs(st.node_types)[n] == UTILITY) & any_([on[b, n] for b in range(A_) if b != a])

    def mask_rule(self, st):
        A_, N_, _ = self.dims()
        adj, pos = vs(st.adj_matrix), vs(st.positions)
        fin = self._finished(st)
        out = np.empty((A_, N_), dtype=object)
        for a in range(A_):
            for n in range(N_):
                edge = pick(adj[:, n], pos[a], default=0) == 1
                out[a, n] = edge & ~self._taken_by_other(st, a, n) & ~fin[a]
        return out

    def play_legal(self, st, act):
        """what 'mask-respecting play' means for C06: a finished agent has an all-False mask, so no action of its can respect
        the mask and any in-spec action stands for 'nothing to do' (the usual jumanji convention)."""
        fin = self._finished(st)
        return [l | f for l, f in zip(self.action_legal(st, act), fin)]

    def play_allowed_by(self, mask, act):
        """the same for a mask EMITTED by the environment (C06 with BMC_EMITTED): an all-False row allows anything"""
        mask, x = np.asarray(mask, dtype=object), vs(act)
        return [pick(mask[a], x[a]) | ~any_(list(mask[a])) for a in range(mask.shape[0])]

    def _moved(self, st, ns):
        p0, p1 = vs(st.positions), vs(ns.positions)
        return [p0[a] != p1[a] for a in range(len(p0))]

    def _contested(self, st, act, a):
        """another UNFINISHED agent with a LEGAL action names the same node (the documented tie-break situation)"""
        A_, _, _ = self.dims()
        legal, x = self.action_legal(st, act), vs(act)
        return any_([legal[b] & (x[b] == x[a]) for b in range(A_) if b != a])

    # ------------------------------------------------------------------ C04 (b)
    def treated_invalid(self, st, act, ns, ts):
        # The only per-agent reaction visible in the outputs is "did not move", which is also what a tie-break loser shows.
        # Claim (b) is therefore restricted to steps in which no other agent names the same node; in the remaining steps the
        # entry is defined to agree with the rule (no claim).
        A_, _, _ = self.dims()
        legal, x, moved = self.action_legal(st, act), vs(act), self._moved(st, ns)
        out = []
        for a in range(A_):
            alone = all_([x[b] != x[a] for b in range(A_) if b != a])
            out.append(where(alone, ~moved[a], ~legal[a], X.BOOL))
        return out

    # ------------------------------------------------------------------ reward (documented sum, recomputed from raw arrays)
    def _agent_reward(self, st, act, ns, a):
        """-> (value V float32, tie_loser V-bool).  10 for a legal move onto an own node not connected before, -1 for any other
        legal move, -2 for an invalid action; code conventions where the docs are silent: 0 for a finished agent and 0 for
        the loser of a tie-break."""
        _, _, K_ = self.dims()
        fin, legal, moved = self._finished(st)[a], self.action_legal(st, act)[a], self._moved(st, ns)[a]
        x, ntc, on = vs(act)[a], vs(st.nodes_to_connect), self._on_tree(st)
        own = any_([ntc[a, k] == x for k in range(K_)])
        newly = ~pick(on[a], x, default=X.FALSE)
        loser = (~fin) & legal & ~moved
        val = where(fin, F32(0.0),
                    where(~legal, F32(-2.0),
                          where(~moved, F32(0.0),
                                where(own & newly, F32(10.0), F32(-1.0), F32), F32), F32), F32)
        return val, loser

    def _expected_reward(self, st, act, ns):
        A_, _, _ = self.dims()
        parts = [self._agent_reward(st, act, ns, a) for a in range(A_)]
        return sum_([p[0] for p in parts], F32), any_([p[1] for p in parts])

    def _reward_cases(self, st, act, ns, ts):
        """the documented sum, one obligation per case so that a disagreement is localised"""
        A_, _, _ = self.dims()
        exp, tie = self._expected_reward(st, act, ns)
        fin, legal = self._finished(st), self.action_legal(st, act)
        invalid = any_([(~fin[a]) & ~legal[a] for a in range(A_)])
        ok = vs(ts.reward) == exp
        return [("every unfinished agent legal, no tie-break loser: reward == sum over agents of (+10 new own node | -1 other move | 0 finished)",
                 ((~invalid) & ~tie).implies(ok)),
                ("some unfinished agent invalid, no tie-break loser: reward == the same sum with -2 (= -1 no connection -1 invalid action) for each of them",
                 (invalid & ~tie).implies(ok)),
                ("tie-break step: reward == the same sum with 0 for each loser (reward.py convention, docs silent)", tie.implies(ok))]

    def reward_law(self, st, act, ns, ts, legal):
        # dense reward = Phi(S') - Phi(S) with Phi = 10 * (own nodes connected) - (agent-steps spent not connecting) - (invalid
        # actions); all three deltas are recomputed per agent from raw arrays.
        return self._reward_cases(st, act, ns, ts)

    # ------------------------------------------------------------------ C05
    def illegal_effect(self, st, act, ns, ts, bad):
        A_, N_, _ = self.dims()
        ob = []
        p0, p1 = vs(st.positions), vs(ns.positions)
        c0, c1 = vs(st.connected_nodes_index), vs(ns.connected_nodes_index)
        i0, i1 = vs(st.position_index), vs(ns.position_index)
        w0, w1 = vs(st.connected_nodes), vs(ns.connected_nodes)
        legal, x = self.action_legal(st, act), vs(act)
        for a in range(A_):
            ob.append((f"illegal agent{a} keeps its position", bad[a].implies(p0[a] == p1[a])))
            ob.append((f"illegal agent{a}: its tree, walk and walk index are untouched",
                       bad[a].implies(X.eq_arr(c0[a], c1[a]) & X.eq_arr(w0[a], w1[a]) & (i0[a] == i1[a]))))
            named_by_bad = any_([bad[b] & (x[b] == x[a]) for b in range(A_) if b != a])
            ob.append((f"an illegal action of another agent (invalid node or finished agent) naming the same node does not stop agent{a}: "
                       f"legal and not contested by a legal agent => it moves there",
                       (named_by_bad & legal[a] & ~self._contested(st, act, a)).implies(p1[a] == x[a])))
        ob += [(n, any_(bad).implies(v)) for n, v in self._reward_cases(st, act, ns, ts)[1:2]]
        ob.append(("some agent illegal: the episode continues as for a no-op (LAST <=> all groups connected or time limit)",
                   any_(bad).implies((vs(ts.step_type) == 2).iff(all_(self._finished(ns)) | (vs(st.step_count) + 1 >= self.T)))))
        return ob

    # ------------------------------------------------------------------ C06
    def constraints(self, st):
        A_, N_, _ = self.dims()
        T_ = int(st.connected_nodes.shape[1])
        on, typ, adj = self._on_tree(st), vs(st.node_types), vs(st.adj_matrix)
        walk, idx, pos = vs(st.connected_nodes), vs(st.position_index), vs(st.positions)
        ob = [("no utility node lies on two agents' trees",
               all_([~((typ[n] == UTILITY) & on[a, n] & on[b, n]) for n in range(N_) for a in range(A_) for b in range(a)]))]
        for a in range(A_):
            steps = []
            for i in range(T_ - 1):
                u, v = walk[a, i], walk[a, i + 1]
                steps.append((idx[a] > i).implies((u >= 0) & (v >= 0) & (pick(adj, u, v, default=0) == 1)))
            ob.append((f"agent{a}: consecutive nodes of its walk are joined by an edge (its tree is connected)", all_(steps)))
            ob.append((f"agent{a}: tree == set of nodes on its walk",
                       all_([on[a, n].iff(any_([(idx[a] >= i) & (walk[a, i] == n) for i in range(T_)])) for n in range(N_)])))
            ob.append((f"agent{a}: stands on the last node of its walk", (idx[a] < T_).implies(pick(walk[a], idx[a], default=-7) == pos[a])))
        return ob

    def complete(self, st, ts):
        A_, N_, K_ = self.dims()
        fin = self._finished(st)
        ntc, typ, on = vs(st.nodes_to_connect), vs(st.node_types), self._on_tree(st)
        ob = []
        for a in range(A_):
            ob.append((f"agent{a}: every node of group {a} (by node_types) is on its tree",
                       all_([(typ[n] == a).implies(on[a, n]) for n in range(N_)])))
        return all_(fin), ob + self.constraints(st)

    # ------------------------------------------------------------------ C09
    def ref_step(self, st, act):
        # only the fields that do not depend on the random tie-break; the rest is stated relationally in kernels_c09
        return {"node_types": vs(st.node_types), "adj_matrix": vs(st.adj_matrix), "nodes_to_connect": vs(st.nodes_to_connect),
                "step_count": vs(st.step_count) + 1}

    def _relational(self, st, act, ns, ts):
        """transition relation written from the documented rules; the winner of a tie-break is read off S'"""
        A_, N_, _ = self.dims()
        T_ = int(st.connected_nodes.shape[1])
        ob = []
        legal, x, moved, fin0 = self.action_legal(st, act), vs(act), self._moved(st, ns), self._finished(st)
        p0, p1 = vs(st.positions), vs(ns.positions)
        c0, c1 = vs(st.connected_nodes_index), vs(ns.connected_nodes_index)
        i0, i1 = vs(st.position_index), vs(ns.position_index)
        w0, w1 = vs(st.connected_nodes), vs(ns.connected_nodes)
        on0 = self._on_tree(st)
        for a in range(A_):
            cont = self._contested(st, act, a)
            ob.append((f"agent{a}: illegal action or finished => stays", (~legal[a]).implies(~moved[a])))
            alone = all_([x[b] != x[a] for b in range(A_) if b != a])
            ob.append((f"agent{a}: legal and nobody else names the same node => moves there", (legal[a] & alone).implies(p1[a] == x[a])))
            ob.append((f"agent{a}: legal, the same node named only by finished/invalid agents (no tie-break by the docs) => moves there",
                       (legal[a] & ~alone & ~cont).implies(p1[a] == x[a])))
            ob.append((f"agent{a}: legal and contested => stays or moves to the node it named", (legal[a] & cont).implies((p1[a] == x[a]) | ~moved[a])))
            # bookkeeping of a move / a non-move
            stay = X.eq_arr(c0[a], c1[a]) & X.eq_arr(w0[a], w1[a]) & (i0[a] == i1[a])
            tree_upd = all_([c1[a, n] == where(p1[a] == n, n, c0[a, n]) for n in range(N_)])
            walk_upd = all_([w1[a, i] == where(i0[a] + 1 == i, p1[a], w0[a, i]) for i in range(T_)])
            ob.append((f"agent{a}: stays => tree, walk, walk index unchanged", (~moved[a]).implies(stay)))
            ob.append((f"agent{a}: moves => new node added to tree and appended to the walk", moved[a].implies(tree_upd & walk_upd & (i1[a] == i0[a] + 1))))
            for b in range(a):
                both = legal[a] & legal[b] & (x[a] == x[b])
                first = ~pick(on0[a], x[a], default=X.FALSE) & ~pick(on0[b], x[b], default=X.FALSE)
                # with a third agent naming the same node the winner may be that third one (first written for two agents; met as a
                # false alarm when three-agent instances were added)
                others = any_([legal[c] & (x[c] == x[a]) for c in range(A_) if c not in (a, b)]) if A_ > 2 else X.FALSE
                ob.append((f"tie-break agent{b}/agent{a}: at least one of two agents naming the same node moves", (both & ~others).implies(moved[a] | moved[b])))
                ob.append((f"tie-break agent{b}/agent{a}: a node new to both is entered by exactly one of them", (both & first).implies(~(moved[a] & moved[b]))))
        # caches as functions of the raw arrays of S'
        adj, typ = vs(ns.adj_matrix), vs(ns.node_types)
        ne = vs(ns.node_edges)
        for a in range(A_):
            ob.append((f"S'.node_edges[{a}][i][j] == j if edge(i,j) and j not a utility node on another agent's tree, else -1",
                       all_([ne[a, i, j] == where((adj[i, j] == 1) & ~self._taken_by_other(ns, a, j), j, -1) for i in range(N_) for j in range(N_)])))
        fin1 = self._finished(ns)
        f1 = vs(ns.finished_agents)
        # companions of obligations that are violated on the pinned tree (see the report): they delimit the disagreement
        rule1, m1 = self.mask_rule(ns), vs(ns.action_mask)
        for a in range(A_):
            ob.append((f"S'.action_mask[{a}] == rule(S')[{a}] unless agent{a} completed its group in this very step (non-terminal steps)",
                       ((vs(ts.step_type) != 2) & (fin1[a].iff(fin0[a]))).implies(all_([m1[a, n].iff(rule1[a, n]) for n in range(N_)]))))
            only_invalid = all_([(x[b] != x[a]) | ((~fin0[b]) & ~legal[b]) for b in range(A_) if b != a])
            ob.append((f"agent{a}: legal, the same node named only by unfinished agents for which it is invalid => moves there",
                       (legal[a] & only_invalid).implies(p1[a] == x[a])))
        no_last_node = all_([fin0[a] | legal[a] | ~on0[a, N_ - 1] for a in range(A_)])
        ob.append(("reward == documented sum whenever no invalid unfinished agent has the highest-numbered node on its tree",
                   no_last_node.implies(vs(ts.reward) == self._expected_reward(st, act, ns)[0])))
        # (the walk array has time_limit slots: a node connected on the very last step does not fit and the cached flag may miss it;
        #  the claim is made for non-terminal steps, the terminal flag is checked through 'last' below with the recomputed value)
        ob.append(("S'.finished_agents == every group node on the agent's tree (non-terminal steps)",
                   (vs(ts.step_type) != 2).implies(all_([f1[a].iff(fin1[a]) for a in range(A_)]))))
        ob += self._reward_cases(st, act, ns, ts)
        ob.append(("LAST <=> all groups connected or step_count+1 >= time_limit", (vs(ts.step_type) == 2).iff(all_(fin1) | (vs(st.step_count) + 1 >= self.T))))
        return ob

    def kernels_c06(self, R):
        """kernel obligation on the real tie-break (`_trim_duplicated_invalid_actions`) with THREE or more agents standing anywhere:
        whatever the positions, finished flags, actions and the shuffle, no two agents are granted the same node in one step.  The
        bounded unrolling from the instance's initial positions needs five or more joint moves before three agents can contest one
        node; here the positions are symbolic, so the three-way tie is one query."""
        A_, N_, _ = self.dims()
        if A_ < 3:
            return
        import jax
        import jax.numpy as jnp
        from engine.jx2smt import Ctx
        st_np, _ = self._instance()
        ctx = Ctx(max_unroll=A_ + 1)
        st0 = S.conc_tree(st_np)
        pos = ctx.fresh_arr("K.positions", tuple(np.shape(st_np.positions)), np.asarray(st_np.positions).dtype, 0, N_ - 1)
        fin = ctx.fresh_arr("K.finished", tuple(np.shape(st_np.finished_agents)), np.bool_)
        st = st0.replace(positions=pos, finished_agents=fin)
        act, apre = S.sym_action(ctx, self.env, tag="K.a")
        key = ctx.fresh_arr("K.key", (2,), np.uint32)
        fa, nodes = S.call(ctx, self.env._trim_duplicated_invalid_actions, st, act, key, R=R, name="MMST._trim_duplicated_invalid_actions")
        A = apre + ctx.assumptions
        from checks import common as C
        C.unwinding(R, ctx, A)
        R.reach("tie-break kernel inputs", A)
        R.bound(kernel="_trim_duplicated_invalid_actions", agents=A_, positions="any node per agent", finished="any", action="any in-spec", shuffle="arbitrary permutation")

        def oracle(fa_, nodes_):
            f, n = vs(fa_), vs(nodes_)
            return [(f"tie-break kernel: agents {i},{j} are never both granted the same node", ~((f[i] >= 0) & (f[j] >= 0) & (n[i] == n[j]) & (n[i] != -1)))
                    for j in range(A_) for i in range(j)]

        def replay_for(name):
            def replay(model):
                p_np, f_np, a_np = S.model_sv(model, pos), S.model_sv(model, fin), S.model_sv(model, act)
                s_j = jax.tree_util.tree_map(jnp.asarray, st_np).replace(positions=jnp.asarray(p_np), finished_agents=jnp.asarray(f_np))
                fn = jax.jit(self.env._trim_duplicated_invalid_actions)
                for k in range(256):
                    o_f, o_n = fn(s_j, jnp.asarray(a_np), jax.random.PRNGKey(k))
                    vals = dict(oracle(SV(np.asarray(o_f), np.asarray(o_f).dtype), SV(np.asarray(o_n), np.asarray(o_n).dtype)))
                    if not bool(vals[name]):
                        return True, {"config": self.cfg, "key": f"PRNGKey({k})", "positions": np.asarray(p_np).tolist(), "finished": np.asarray(f_np).tolist(),
                                      "action": np.asarray(a_np).tolist(), "granted_actions": np.asarray(o_f).tolist(), "nodes": np.asarray(o_n).tolist()}
                return False, {"note": "no real key in 0..255 reproduces the model"}
            return replay
        for n_, v in oracle(fa, nodes):
            R.prove(n_, A, v.term() if not v.conc else bool(v), replay=replay_for(n_))

    def kernels_c09(self, R):
        from checks import bmc
        bmc.run(R, self, self._relational, prefix="relation: ")

    # ------------------------------------------------------------------ C11 / C12
    def other_done(self, st, act, ns, ts):
        return all_(self._finished(ns))

    def observer(self, ns):
        # documented view (single-agent version = agent 0's view): nodes on agent b's tree -> 2b, nodes of group b still to be
        # connected -> 2b+1, unconnected utility nodes -> -1.  A non-utility node crossed by several agents: the docs do not say;
        # the code's convention (the highest agent id wins) is used for those entries.
        A_, N_, _ = self.dims()
        on, typ = self._on_tree(ns), vs(ns.node_types)
        nt = np.empty((N_,), dtype=object)
        for n in range(N_):
            v = where(typ[n] == UTILITY, -1, 2 * typ[n] + 1)
            for b in range(A_):
                v = where(on[b, n], 2 * b, v)
            nt[n] = v
        return {"node_types": nt, "adj_matrix": vs(ns.adj_matrix), "positions": vs(ns.positions), "step_count": vs(ns.step_count),
                "action_mask": vs(ns.action_mask)}

"""JobShop harness (bounded unrolling from a symbolic instance).

Rules (docs/environments/job_shop.md + class docstring): N jobs, each a sequence of operations (op = machine id +
duration >= 1, padded with -1); ops of a job run in order, one at a time; a machine works on one op at a time; an
op runs to completion.  Joint action = for every machine a job id or the no-op (= num_jobs).  (machine m, job j)
is legal iff m is available (remaining time 0), the next unscheduled op of j needs m, j is not being processed
and j still has an unscheduled op; no-op is always legal.  Reward -1 per time step; an illegal action (any
machine) or "all machines simultaneously idle" ends the episode with -num_jobs*max_num_ops*max_op_duration; the
episode also ends when every op has been processed (so the return of a finished schedule is -makespan).

Why BMC and not an inductive invariant: the relation between scheduled_times, ops_mask and the two machine tables
is as long as step() itself (DESIGN 3/C06); the unrolling from the generators' initial state is cheap.
The docs say nothing about the successor state after an illegal action, so state-field claims are restricted to
legal actions (reward and termination are claimed for every action)."""
import numpy as np

from engine import sym as S
from engine import vexpr as X
from engine.jx2smt import SV
from engine.vexpr import V, vs, where, all_, any_, pick, count, sum_
from envs.base import Harness, register

F32 = np.float32


@register
class JobShopH(Harness):
    ENV = "JobShop"
    QUICK = ["JobShop@3x2x2x2", "JobShop@2x3x2x2"]
    C01_EXTRA = ["JobShop@2x2x1x4"]      # max_op_duration (4) well above max_num_ops (1): a spec bound taken from the wrong generator attribute shows
    THOROUGH = ["JobShop@3x2x3x2", "JobShop@3x3x3x3"]
    INVALID = "terminate"
    BMC = True
    BMC_EMITTED = True         # C06: later steps respect the mask the environment emitted (not only the independent rule)
    RESET_INV = False          # BMC harness: the initial state IS the (symbolic) reset state

    def __init__(self, cfg, **over):
        super().__init__(cfg, **over)
        NJ, NM, NO, D = self.dims()
        # Every non-terminal step processes >= 1 unit of the <= NJ*NO*D units of work (C11 proves it), so an unrolling of
        # depth NJ*NO*D covers COMPLETE episodes of every instance ("depth h+1 reachable" is unsat; measured 2x3x2x2: h = 8).
        h = NJ * NO * D
        self.BMC_DEPTH = {"quick": min(h, 12), "thorough": min(h, 12)}

    def dims(self):
        e = self.env
        return e.num_jobs, e.num_machines, e.max_num_ops, e.max_op_duration

    def penalty(self):
        NJ, NM, NO, D = self.dims()
        return F32(-NJ * NO * D)

    # ------------------------------------------------------------------ symbolic instance
    def bmc_init(self, ctx):
        """Every instance of the shape the shipped generators produce: per job 1..max_num_ops real ops (machine id in
        range, duration 1..max) followed by -1 padding; machines idle, nothing scheduled, time 0.  The REAL env.reset
        body runs on it (the generator is swapped for one that returns the symbolic instance)."""
        import jax.numpy as jnp
        from jumanji.environments.packing.job_shop.types import State
        NJ, NM, NO, D = self.dims()
        env = self.env
        opm = ctx.fresh_arr("I.ops_machine_ids", (NJ, NO), np.int32, -1, NM - 1)
        dur = ctx.fresh_arr("I.ops_durations", (NJ, NO), np.int32, -1, D)
        key = ctx.fresh_arr("I.key", (2,), np.uint32)
        m, d = vs(opm), vs(dur)
        pre = []
        for j in range(NJ):
            pre.append((m[j, 0] != -1).z())                                  # at least one op per job
            for o in range(NO):
                pre.append(((m[j, o] == -1).iff(d[j, o] == -1)).z())         # padding marks both tables
                pre.append((d[j, o] != 0).z())                               # real durations >= 1
                if o + 1 < NO:
                    pre.append(((m[j, o] == -1).implies(m[j, o + 1] == -1)).z())   # padding is a suffix

        def reset_on(opm_, dur_, key_):
            st = State(ops_machine_ids=opm_, ops_durations=dur_, ops_mask=opm_ != -1,
                       machines_job_ids=jnp.full(NM, NJ, jnp.int32), machines_remaining_times=jnp.full(NM, 0, jnp.int32),
                       action_mask=None, step_count=jnp.array(0, jnp.int32),
                       scheduled_times=jnp.full((NJ, NO), -1, jnp.int32), key=key_)
            old = env.generator
            env.generator = lambda k: st
            try:
                return env.reset(key_)
            finally:
                env.generator = old
        st0, ts0 = S.call(ctx, reset_on, opm, dur, key)
        self._ts0 = ts0
        return st0, pre

    def bmc_first_timestep(self, ctx, st0):
        return self._ts0

    # ------------------------------------------------------------------ helpers over raw arrays
    def _next(self, st):
        """is_next[j,o]: o is the first op of job j that has yet to be scheduled (docs: 'the first True in each row')"""
        NJ, NM, NO, D = self.dims()
        om = vs(st.ops_mask)
        nx = np.empty((NJ, NO), dtype=object)
        for j in range(NJ):
            for o in range(NO):
                nx[j, o] = om[j, o] & all_([~om[j, p] for p in range(o)])
        return nx

    def _busy_now(self, st, t):
        """[per machine] some op needing machine m occupies the time unit [t, t+1), recomputed from scheduled_times"""
        NJ, NM, NO, D = self.dims()
        sc, opm, dur = vs(st.scheduled_times), vs(st.ops_machine_ids), vs(st.ops_durations)
        return [any_([(opm[j, o] == m) & (sc[j, o] >= 0) & (sc[j, o] <= t) & (t < sc[j, o] + dur[j, o])
                      for j in range(NJ) for o in range(NO)]) for m in range(NM)]

    def _all_idle_tables(self, st):
        """all machines idle by the machine tables (no job assigned and nothing remaining)"""
        NJ, NM, NO, D = self.dims()
        mj, mr = vs(st.machines_job_ids), vs(st.machines_remaining_times)
        return all_([(mj[m] == NJ) & (mr[m] == 0) for m in range(NM)])

    # ------------------------------------------------------------------ legality
    def mask_rule(self, st):
        NJ, NM, NO, D = self.dims()
        opm = vs(st.ops_machine_ids)
        mj, mr = vs(st.machines_job_ids), vs(st.machines_remaining_times)
        nx = self._next(st)
        out = np.empty((NM, NJ + 1), dtype=object)
        for m in range(NM):
            for j in range(NJ):
                needs_m = any_([nx[j, o] & (opm[j, o] == m) for o in range(NO)])      # job unfinished and its next op is on m
                running = any_([(mj[k] == j) & (mr[k] > 0) for k in range(NM)])
                out[m, j] = (mr[m] == 0) & needs_m & ~running
            out[m, NJ] = X.TRUE
        return out

    def action_legal(self, st, act):
        # the reaction of the environment is joint (any illegal machine ends the episode): one "agent"
        return [all_(self.allowed_by(self.mask_rule(st), act))]

    def treated_invalid(self, st, act, ns, ts):
        # LAST with the penalty, and not for the other penalised cause (all machines idle in the time unit that just
        # elapsed, recomputed from the schedule)
        idle = ~any_(self._busy_now(ns, vs(st.step_count)))
        return [(vs(ts.step_type) == 2) & (vs(ts.reward) == self.penalty()) & ~idle]

    def illegal_effect(self, st, act, ns, ts, bad):
        return [("illegal (any machine) => LAST", bad[0].implies(vs(ts.step_type) == 2)),
                ("illegal (any machine) => reward == -num_jobs*max_num_ops*max_op_duration", bad[0].implies(vs(ts.reward) == self.penalty())),
                ("illegal => discount == 0", bad[0].implies(vs(ts.discount) == F32(0.0))),
                ("the instance (ops_machine_ids, ops_durations) is never modified",
                 X.same(ns.ops_machine_ids, st.ops_machine_ids) & X.same(ns.ops_durations, st.ops_durations))]

    # ------------------------------------------------------------------ C06
    def constraints(self, st):
        NJ, NM, NO, D = self.dims()
        sc, opm, dur, om = vs(st.scheduled_times), vs(st.ops_machine_ids), vs(st.ops_durations), vs(st.ops_mask)
        t = vs(st.step_count)
        ops = [(j, o) for j in range(NJ) for o in range(NO)]
        ob = [("only real ops are scheduled, at a time in [0, now)",
               all_([((sc[p] >= 0).implies((opm[p] != -1) & (sc[p] < t))) & (sc[p] >= -1) for p in ops])),
              ("ops_mask marks exactly the real ops not yet scheduled",
               all_([om[p].iff((opm[p] != -1) & (sc[p] == -1)) for p in ops])),
              ("precedence: an op starts only after the previous op of its job has completed",
               all_([(sc[j, o] >= 0).implies((sc[j, o - 1] >= 0) & (sc[j, o] >= sc[j, o - 1] + dur[j, o - 1]))
                     for j in range(NJ) for o in range(1, NO)]))]
        for m in range(NM):
            cs = []
            for a in range(len(ops)):
                for b in range(a):
                    p, q = ops[a], ops[b]
                    both = (sc[p] >= 0) & (sc[q] >= 0) & (opm[p] == m) & (opm[q] == m)
                    cs.append(both.implies((sc[p] + dur[p] <= sc[q]) | (sc[q] + dur[q] <= sc[p])))
            ob.append((f"machine {m} never processes two ops at the same time", all_(cs)))
        # bookkeeping that the legality rule relies on: the machine tables agree with the schedule
        busy = self._busy_now(st, t)
        mr, mj = vs(st.machines_remaining_times), vs(st.machines_job_ids)
        for m in range(NM):
            # remaining time = (end of the op occupying [t, t+1) on m) - t, 0 if none
            rem = X.const(0)
            for p in ops:
                on = (opm[p] == m) & (sc[p] >= 0) & (sc[p] <= t) & (t < sc[p] + dur[p])
                rem = where(on, sc[p] + dur[p] - t, rem)
            ob.append((f"machines_remaining_times[{m}] == time until the op running on machine {m} ends (schedule recomputation)", mr[m] == rem))
            ob.append((f"machine {m} busy => machines_job_ids[{m}] is the job of the op running on it",
                       all_([((opm[p] == m) & (sc[p] >= 0) & (sc[p] <= t) & (t < sc[p] + dur[p])).implies(mj[m] == p[0]) for p in ops])))
        return ob

    def _makespan(self, st):
        NJ, NM, NO, D = self.dims()
        sc, dur = vs(st.scheduled_times), vs(st.ops_durations)
        mk = X.const(0)
        for j in range(NJ):
            for o in range(NO):
                mk = X.vmax(mk, where(sc[j, o] >= 0, sc[j, o] + dur[j, o], 0))
        return mk

    def complete(self, st, ts):
        # the environment announces a finished schedule by ending the episode WITHOUT the penalty
        NJ, NM, NO, D = self.dims()
        sc, opm, dur = vs(st.scheduled_times), vs(st.ops_machine_ids), vs(st.ops_durations)
        t = vs(st.step_count)
        done = vs(ts.reward) == F32(-1.0)
        ops = [(j, o) for j in range(NJ) for o in range(NO)]
        ob = [("every real op is scheduled", all_([(opm[p] != -1).implies(sc[p] >= 0) for p in ops])),
              ("every op has run to completion by now", all_([(sc[p] >= 0).implies(sc[p] + dur[p] <= t) for p in ops])),
              ("elapsed time == makespan of the schedule", t == self._makespan(st))]
        return done, ob + self.constraints(st)

    # ------------------------------------------------------------------ C08
    def reward_law(self, st, act, ns, ts, legal):
        t = vs(st.step_count)
        idle = ~any_(self._busy_now(ns, t))      # nobody processed anything during [t, t+1)
        r, last = vs(ts.reward), vs(ts.step_type) == 2
        pen = self.penalty()
        NJ, NM, NO, D = self.dims()
        opm, sc = vs(ns.ops_machine_ids), vs(ns.scheduled_times)
        ops = [(j, o) for j in range(NJ) for o in range(NO)]
        return [("legal and some machine working: reward == -1 == Phi(S') - Phi(S), Phi = -elapsed time",
                 (legal & ~idle).implies((r == F32(-1.0)) & (vs(ns.step_count) == t + 1))),
                ("illegal or all machines simultaneously idle: reward == -num_jobs*max_num_ops*max_op_duration and LAST",
                 ((~legal) | idle).implies((r == pen) & last)),
                ("unpenalised LAST (finished schedule): elapsed time == makespan, so return == -makespan",
                 (last & (r == F32(-1.0))).implies((vs(ns.step_count) == self._makespan(ns)) & all_([(opm[p] != -1).implies(sc[p] >= 0) for p in ops]))),
                ("reward is either -1 or the penalty", (r == F32(-1.0)) | (r == pen))]

    # ------------------------------------------------------------------ C09
    def ref_step(self, st, act):
        NJ, NM, NO, D = self.dims()
        a = vs(act)
        opm, dur, om = vs(st.ops_machine_ids), vs(st.ops_durations), vs(st.ops_mask)
        mj, mr, sc, t = vs(st.machines_job_ids), vs(st.machines_remaining_times), vs(st.scheduled_times), vs(st.step_count)
        legal = self.action_legal(st, act)[0]
        nx = self._next(st)
        started = [any_([a[m] == j for m in range(NM)]) for j in range(NJ)]             # job j starts its next op now
        nom = np.empty((NJ, NO), dtype=object)
        nsc = np.empty((NJ, NO), dtype=object)
        for j in range(NJ):
            for o in range(NO):
                now = started[j] & nx[j, o]
                nom[j, o] = om[j, o] & ~now
                nsc[j, o] = where(now, t, sc[j, o])
        dnext = [sum_([where(nx[j, o], dur[j, o], 0) for o in range(NO)]) for j in range(NJ)]   # duration of job j's next op
        nmj = np.empty((NM,), dtype=object)
        nmr = np.empty((NM,), dtype=object)
        for m in range(NM):
            noop = a[m] == NJ
            # a machine that starts a job works on it for `duration` steps, the current one included; a busy machine
            # counts down; an available machine told to do nothing holds the no-op
            nmj[m] = where(noop, where(mr[m] == 0, NJ, mj[m]), a[m])
            r = where(noop, mr[m], pick(np.array(dnext, dtype=object), a[m], default=0))
            nmr[m] = where(r > 0, r - 1, 0)
        all_idle = all_([(nmj[m] == NJ) & (nmr[m] == 0) for m in range(NM)])
        finished = all_([~x for x in nom.reshape(-1)]) & all_([nmr[m] == 0 for m in range(NM)])
        pen = (~legal) | all_idle
        return {"_when": legal,                      # successor state after an illegal action is not documented
                "ops_machine_ids": opm, "ops_durations": dur, "ops_mask": nom, "scheduled_times": nsc,
                "machines_job_ids": nmj, "machines_remaining_times": nmr, "step_count": t + 1,
                "reward": where(pen, self.penalty(), F32(-1.0), F32), "last": pen | finished}

    # ------------------------------------------------------------------ C11 (no time limit: ranking argument)
    def measure(self, st):
        """processed machine-time so far, recomputed from the schedule; every MID step adds >= 1 (not all machines
        idle) and it can never exceed the total work <= num_jobs*max_num_ops*max_op_duration"""
        NJ, NM, NO, D = self.dims()
        sc, dur, t = vs(st.scheduled_times), vs(st.ops_durations), vs(st.step_count)
        w = X.const(0)
        for j in range(NJ):
            for o in range(NO):
                w = w + where(sc[j, o] >= 0, X.vmin(dur[j, o], t - sc[j, o]), 0)
        return w, NJ * NO * D

    # ------------------------------------------------------------------ C12
    def observer(self, ns):
        return {"ops_machine_ids": vs(ns.ops_machine_ids), "ops_durations": vs(ns.ops_durations), "ops_mask": vs(ns.ops_mask),
                "machines_job_ids": vs(ns.machines_job_ids), "machines_remaining_times": vs(ns.machines_remaining_times),
                "action_mask": vs(ns.action_mask)}

"""CVRP harness.  Rules (docs/environments/cvrp.md + class docstring): node 0 is the depot, nodes 1..n are customers with
integer demands; the action is the next node.  A customer is legal iff it has not been visited and its demand fits the
remaining capacity; the depot is legal iff the vehicle is not already there, and refills the capacity to max_capacity.
An illegal action ends the episode with reward -2*num_nodes*sqrt(2) and leaves the state untouched.  The episode ends
when every customer has been visited and the vehicle is back at the depot.  Dense reward: minus the distance travelled
this step (plus minus the distance to the depot on the last step); sparse: minus the length of the whole tour at the end.

Configs: 'CVRP@n' = coordinates symbolic float32 in [0,1] (no claim that needs sqrt arithmetic); 'CVRP@n~k' = coordinates of
the real reset for PRNGKey(VERIF_SEED+k); 'CVRP@4~c' = the coordinates of cvrp/conftest.py.  Demands (1..max_demand),
capacity, position, visited set, trajectory and action are symbolic everywhere."""
import math

import numpy as np

from engine import sym as S
from engine import vexpr as X
from engine.jx2smt import SV
from engine.vexpr import V, vs, where, all_, any_, pick, count, sum_
from envs import _instances as I
from envs.base import Harness, register

CONFTEST_COORDS = [[0.0, 0.0], [0.0, 1.0], [1.0, 0.0], [1.0, 1.0], [0.5, 0.5]]   # cvrp/conftest.py DummyGenerator (4 nodes + depot)
F32 = np.float32


def _sparse():
    from jumanji.environments.routing.cvrp.reward import SparseReward
    return SparseReward()


@register
class CVRPH(Harness):
    ENV = "CVRP"
    QUICK = ["CVRP@4", "CVRP@4~0", "CVRP@4~1", "CVRP@4~2", "CVRP@4~c"]
    THOROUGH = ["CVRP@6"] + [f"CVRP@6~{k}" for k in range(8)] + ["CVRP@4~3"] + [f"CVRP@5~{k}" for k in range(2)]
    INVALID = "terminate"
    REWARD_VARIANTS = [{}, {"reward_fn": _sparse()}]
    REF_REWARD_VARIANTS = True   # ref_step follows the configured reward function (C09 runs the variants too)
    DIFF_ULPS = 16   # see envs/tsp.py: FMA-fused norms in the jitted step, up to 2n of them summed by the sparse reward

    def __init__(self, cfg, **over):
        base_cfg, self.inst = I.split_cfg(cfg)
        super().__init__(base_cfg, **over)
        self.cfg = cfg
        e = self.env
        self.n, self.maxcap, self.maxd = e.num_nodes, int(e.max_capacity), int(e.max_demand)
        self.L = 2 * self.n                       # trajectory length
        self.sparse = type(e.reward_fn).__name__ == "SparseReward"
        self.RESET_INV = self.inst is None        # reset is instance independent: proved once in the symbolic-coordinates config
        if self.inst is None:
            self.coords = None
        elif self.inst == "c":
            assert self.n == 4
            self.coords = np.asarray(CONFTEST_COORDS, F32)
        else:
            self.coords = np.asarray(I.reset_state(e, self.inst).coordinates, F32)
        p = -2 * self.n * math.sqrt(2.0)          # documented penalty, a real number; float32 result within 2 ulp
        self.pen = I.band(p, abs(p) * 2.0 ** -22)
        if self.coords is not None:
            self.D = I.dist_matrix(self.coords)

    # ------------------------------------------------------------------ pre-state
    def sym_state(self, ctx, tag="S"):
        from jumanji.environments.routing.cvrp.types import State
        n, L = self.n, self.L
        pre = []
        if self.coords is None:
            coords = ctx.fresh_arr(tag + ".coordinates", (n + 1, 2), F32)
            pre += [S.fp_in(x, 0.0, 1.0, tiny=2.0 ** -24) for x in coords.a.reshape(-1)]
        else:
            coords = SV(self.coords, F32)
        demands = ctx.fresh_arr(tag + ".demands", (n + 1,), np.int32, 0, self.maxd)
        pos = ctx.fresh_arr(tag + ".position", (), np.int32, 0, n)
        cap = ctx.fresh_arr(tag + ".capacity", (), np.int32, 0, self.maxcap)
        visited = ctx.fresh_arr(tag + ".visited_mask", (n + 1,), np.bool_)
        traj = ctx.fresh_arr(tag + ".trajectory", (L,), np.int32, 0, n)
        ntv = ctx.fresh_arr(tag + ".num_total_visits", (), np.int32, 1, L)
        key = ctx.fresh_arr(tag + ".key", (2,), np.uint32)
        return State(coordinates=coords, demands=demands, position=pos, capacity=cap, visited_mask=visited, trajectory=traj,
                     num_total_visits=ntv, key=key), pre

    # ------------------------------------------------------------------ the route, recomputed from raw arrays
    def _seg_loads(self, st):
        """Ld[i] = demand collected on the sub-route (since the last depot visit) that contains route entry i, up to entry i"""
        traj, dem = vs(st.trajectory), vs(st.demands)
        d = [pick(dem, traj[i], default=0) for i in range(self.L)]
        nz = [traj[i] != 0 for i in range(self.L)]
        out = []
        for i in range(self.L):
            terms = []
            run = X.TRUE
            for j in range(i, -1, -1):
                run = run & nz[j]                 # no depot among route entries j..i
                terms.append(where(run, d[j], 0))
            out.append(sum_(terms))
        return out

    def _cur_load(self, st):
        ntv = vs(st.num_total_visits)
        return pick(np.array(self._seg_loads(st), dtype=object), ntv - 1, default=0)

    def _last(self, st):
        return pick(vs(st.trajectory), vs(st.num_total_visits) - 1, default=-1)

    def _on_route(self, st, c):
        traj, ntv = vs(st.trajectory), vs(st.num_total_visits)
        return any_([(ntv > i) & (traj[i] == c) for i in range(self.L)])

    def inv(self, st, ctx=None):
        n, L = self.n, self.L
        c, dem, pos, cap = vs(st.coordinates), vs(st.demands), vs(st.position), vs(st.capacity)
        vis, traj, ntv = vs(st.visited_mask), vs(st.trajectory), vs(st.num_total_visits)
        allv = all_([vis[k] for k in range(1, n + 1)])
        ob = [("coordinates inside the unit square", all_([(x >= F32(0)) & (x <= F32(1)) for x in c.reshape(-1)])),
              ("depot demand 0, customer demands in [1, max_demand]", (dem[0] == 0) & all_([(dem[k] >= 1) & (dem[k] <= self.maxd) for k in range(1, n + 1)])),
              ("num_total_visits in [1, 2*num_nodes] on a non-terminal state", (ntv >= 1) & (ntv <= L)),
              ("route starts at the depot; entries are nodes; unfilled entries are DEPOT_IDX",
               (traj[0] == 0) & all_([(traj[i] >= 0) & (traj[i] <= n) & ((ntv > i) | (traj[i] == 0)) for i in range(L)])),
              ("the route never holds two consecutive depot entries", all_([(ntv > i + 1).implies((traj[i] != 0) | (traj[i + 1] != 0)) for i in range(L - 1)])),
              ("position is the last node of the route", pos == self._last(st)),
              ("capacity == max_capacity - demand collected since the last depot visit", cap == self.maxcap - self._cur_load(st)),
              ("visited_mask: customers on the route; depot flag <=> vehicle at the depot",
               vis[0].iff(pos == 0) & all_([vis[k].iff(self._on_route(st, k)) for k in range(1, n + 1)])),
              ("not already complete (all customers served and back at the depot)", ~(allv & (pos == 0)))]
        ob += self.constraints(st)
        return ob

    # ------------------------------------------------------------------ rules
    def mask_rule(self, st):
        """from the raw route + demands (not from the capacity / visited_mask fields the environment consults):
        depot: the vehicle is not at the depot; customer: not yet on the route and its demand fits what is left of max_capacity"""
        n = self.n
        dem = vs(st.demands)
        left = self.maxcap - self._cur_load(st)
        out = np.empty((n + 1,), dtype=object)
        out[0] = self._last(st) != 0
        for k in range(1, n + 1):
            out[k] = (~self._on_route(st, k)) & (dem[k] <= left)
        return out

    def _penalised(self, ts):
        return I.within(vs(ts.reward), *self.pen)

    def treated_invalid(self, st, act, ns, ts):
        return [(vs(ts.step_type) == 2) & self._penalised(ts) & (vs(ns.num_total_visits) == vs(st.num_total_visits))]

    def illegal_effect(self, st, act, ns, ts, bad):
        b = bad[0]
        ob = [("illegal => LAST", b.implies(vs(ts.step_type) == 2)),
              ("illegal => reward == -2*num_nodes*sqrt(2) (within 2 ulp)", b.implies(self._penalised(ts)))]
        for f in ("coordinates", "demands", "position", "capacity", "visited_mask", "trajectory", "num_total_visits", "key"):
            ob.append((f"illegal => state.{f} untouched", b.implies(X.same(getattr(st, f), getattr(ns, f)))))
        return ob

    # ------------------------------------------------------------------ C06
    def constraints(self, st):
        L = self.L
        traj, ntv = vs(st.trajectory), vs(st.num_total_visits)
        loads = self._seg_loads(st)
        return [("no customer is served twice", all_([((ntv > j) & (traj[j] != 0)).implies(traj[i] != traj[j]) for j in range(L) for i in range(j)])),
                ("the load of every sub-route (between two depot visits) never exceeds max_capacity",
                 all_([(ntv > i).implies(loads[i] <= self.maxcap) for i in range(L)])),
                ("capacity >= 0", vs(st.capacity) >= 0)]

    def complete(self, st, ts):
        n = self.n
        vis, traj = vs(st.visited_mask), vs(st.trajectory)
        done = all_(list(vis))
        return done, [("every customer appears exactly once in the trajectory", all_([count([traj[i] == k for i in range(self.L)]) == 1 for k in range(1, n + 1)])),
                      ("the vehicle is back at the depot", vs(st.position) == 0)]

    # ------------------------------------------------------------------ C08
    def _edge(self, tabs, a, b):
        return pick(tabs[0], a, b, default=I.fconst(9)), pick(tabs[1], a, b, default=I.fconst(9))

    def _tour_band(self, traj, ntv):
        """band around minus the length of the closed tour depot -> route[1] -> ... -> route[-1] -> depot, route = traj[:ntv]
        (entries beyond the array are dropped by the environment: only the final depot visit can be, and it adds d(x,0)+0).
        Edge lengths are float64 recomputations rounded to float32, summed in float32; the band allows 1e-5 for the
        different summation order / sqrt rounding of the code."""
        L = self.L
        D32 = I.ftab(self.D.astype(F32))
        tot = I.fconst(0)
        for i in range(L - 1):
            e = pick(D32, traj[i], traj[i + 1], default=I.fconst(9))
            tot = tot + where(ntv > i + 1, e, I.fconst(0), F32)
        # closing leg from the last stored route entry back to the depot (0 when that entry is the depot)
        last = pick(traj, X.vmin(ntv, X.const(L)) - 1, default=-1)
        tot = tot + pick(D32[:, 0], last, default=I.fconst(9))
        neg = I.fconst(0) - tot
        return neg - F32(I.TOL), neg + F32(I.TOL)

    def reward_law(self, st, act, ns, ts, legal):
        n = self.n
        r, pos, a = vs(ts.reward), vs(st.position), vs(act)
        ob = [("illegal action: reward == -2*num_nodes*sqrt(2) (within 2 ulp)", (~legal).implies(self._penalised(ts)))]
        done = all_(list(vs(ns.visited_mask)))          # all customers served and back at the depot
        zero = r == F32(0)
        if self.coords is None:
            if self.sparse:
                ob.append(("sparse, legal, tour not finished: reward == 0", (legal & ~done).implies(zero)))
            return ob
        if self.sparse:
            lo, hi = self._tour_band(vs(ns.trajectory), vs(ns.num_total_visits))
            if self.n <= 5:
                ob.append(("sparse, legal: reward == [tour finished] * -(length of the closed tour along the final trajectory) within 1e-5",
                           legal.implies(where(done, I.within(r, lo, hi), zero, X.BOOL))))
            else:
                # n = 6: 720 * 2^5 complete routes, each a chain of 12 float32 additions the solver has to evaluate (unknown after
                # 900 s); the closing-step claim is restricted to the 720 routes without an intermediate depot return, the full
                # route space is covered at n = 4 and n = 5
                direct = vs(ns.num_total_visits) == self.n + 2
                ob.append(("sparse, legal, tour not finished: reward == 0", (legal & ~done).implies(zero)))
                ob.append(("sparse, legal, tour finished without intermediate depot returns: reward == -(length of the closed tour) within 1e-5",
                           (legal & done & direct).implies(I.within(r, lo, hi))))
            return ob
        D2 = I.band_tab(-self.D)
        D2c = I.band_tab(-(self.D + self.D[None, :, 0]))     # -(d(i,j) + d(j,depot))
        lo = where(done, pick(D2c[0], pos, a, default=I.fconst(9)), pick(D2[0], pos, a, default=I.fconst(9)), F32)
        hi = where(done, pick(D2c[1], pos, a, default=I.fconst(9)), pick(D2[1], pos, a, default=I.fconst(9)), F32)
        ob.append(("dense, legal: reward == -( d(position, action) + d(action, depot) [last step only] ) within 1e-5", legal.implies(I.within(r, lo, hi))))
        return ob

    # ------------------------------------------------------------------ C09
    def ref_step(self, st, act):
        n, L = self.n, self.L
        dem, pos, cap, vis, traj, ntv, a = (vs(st.demands), vs(st.position), vs(st.capacity), vs(st.visited_mask), vs(st.trajectory),
                                            vs(st.num_total_visits), vs(act))
        legal = self.action_legal(st, act)[0]
        da = pick(dem, a, default=0)
        ncap = where(legal, where(a == 0, self.maxcap, cap - da), cap)
        nvis = np.empty((n + 1,), dtype=object)
        nvis[0] = where(legal, a == 0, vis[0], X.BOOL)                       # depot flag <=> the vehicle is at the depot
        for k in range(1, n + 1):
            nvis[k] = where(legal & (a == k), True, vis[k], X.BOOL)
        ntraj = X.put(traj, ntv, a, cond=legal)                              # writes beyond the array are dropped
        nntv = where(legal, ntv + 1, ntv)
        npos = where(legal, a, pos)
        done = all_([nvis[k] for k in range(1, n + 1)]) & (npos == 0)
        ref = {"coordinates": vs(st.coordinates), "demands": dem, "position": npos, "capacity": ncap, "visited_mask": nvis, "trajectory": ntraj,
               "num_total_visits": nntv, "last": (~legal) | done}
        if self.coords is None:
            return ref
        plo, phi = V(self.pen[0], F32), V(self.pen[1], F32)
        zero = I.fconst(0)
        if self.sparse:
            lo, hi = self._tour_band(ntraj, nntv)
            llo, lhi = where(done, lo, zero, F32), where(done, hi, zero, F32)
        else:
            D2 = I.band_tab(-self.D)
            D2c = I.band_tab(-(self.D + self.D[None, :, 0]))
            llo = where(done, pick(D2c[0], pos, a, default=I.fconst(9)), pick(D2[0], pos, a, default=I.fconst(9)), F32)
            lhi = where(done, pick(D2c[1], pos, a, default=I.fconst(9)), pick(D2[1], pos, a, default=I.fconst(9)), F32)
        ref["reward_range"] = (where(legal, llo, plo, F32), where(legal, lhi, phi, F32))
        return ref

    # ------------------------------------------------------------------ C11 / C12
    def measure(self, st):
        # every non-terminal step appends one route entry; a route has at most n customers and n depot returns after the start
        return vs(st.num_total_visits), 2 * self.n + 1

    def observer(self, ns):
        mc = F32(self.maxcap)
        n = self.n
        # action mask: the route-derived rule; on the one terminal state whose final depot visit did not fit into the
        # trajectory array (num_total_visits == 2n+1) the route no longer shows the position, there the documented
        # function of the state fields is used (depot <=> position != depot; customer <=> unvisited and demand <= capacity)
        rule = self.mask_rule(ns)
        pos, cap, dem, vis, ntv = vs(ns.position), vs(ns.capacity), vs(ns.demands), vs(ns.visited_mask), vs(ns.num_total_visits)
        fields = [pos != 0] + [(~vis[k]) & (dem[k] <= cap) for k in range(1, n + 1)]
        mask = np.array([where(ntv <= self.L, rule[k], fields[k], X.BOOL) for k in range(n + 1)], dtype=object)
        return {"coordinates": vs(ns.coordinates),
                "demands": np.array([d.astype(F32) / mc for d in vs(ns.demands)], dtype=object),
                "unvisited_nodes": np.array([~v for v in vs(ns.visited_mask)], dtype=object),
                "position": vs(ns.position), "trajectory": vs(ns.trajectory),
                "capacity": vs(ns.capacity).astype(F32) / mc,
                "action_mask": mask}

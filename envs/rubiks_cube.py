"""RubiksCube harness.  Rules (docs/environments/rubiks_cube.md, class docstring, the convention comment of utils.py):
state = sticker colours cube[face, row, col] in 0..5 (faces UP, FRONT, RIGHT, BACK, LEFT, DOWN, each read in reading
order when looked at directly with the documented neighbour on the left / pointing up); action (face, depth, amount):
turn the layer `depth` layers below `face` clockwise / anticlockwise / half, directions as seen when looking directly
at `face`; reward 1.0 iff every face shows a single colour after the move, else 0.0; the episode ends when the cube is
solved or when step_count reaches time_limit.  No action mask, every in-spec action is legal.

The reference model (C09) is GEOMETRIC and shares nothing with the repository's index tables: every sticker is a
point in 3-space (its centre, in doubled integer coordinates), the documented viewing conventions place the 6 n^2
stickers, and a move rotates the points of one slab by -90 degrees (clockwise seen from outside) about the outward
normal of the face.  The group laws of the move tables themselves belong to C17 (checked elsewhere)."""
import numpy as np

from engine import sym as S
from engine import vexpr as X
from engine.jx2smt import SV
from engine.vexpr import V, vs, where, all_, any_
from envs.base import Harness, register

UP, FRONT, RIGHT, BACK, LEFT, DOWN = range(6)
# right-handed frame: x -> RIGHT face, y -> UP face, z -> FRONT face (towards the viewer)
NORMAL = {UP: (0, 1, 0), FRONT: (0, 0, 1), RIGHT: (1, 0, 0), BACK: (0, 0, -1), LEFT: (-1, 0, 0), DOWN: (0, -1, 0)}
# documented way of looking at each face: (face on the left, face pointing up)
VIEW = {UP: (LEFT, BACK), FRONT: (LEFT, UP), RIGHT: (FRONT, UP), BACK: (RIGHT, UP), LEFT: (BACK, UP), DOWN: (LEFT, FRONT)}
QUARTERS = [1, 3, 2]   # amount 0 = clockwise, 1 = anticlockwise (= three clockwise quarter turns), 2 = half turn


def _cross(a, b):
    return (a[1] * b[2] - a[2] * b[1], a[2] * b[0] - a[0] * b[2], a[0] * b[1] - a[1] * b[0])


def _dot(a, b):
    return a[0] * b[0] + a[1] * b[1] + a[2] * b[2]


def sticker_position(n, f, r, c):
    """centre of sticker (f, r, c) in doubled coordinates: the cube is [-n, n]^3, cubie centres are odd/even
    lattice points -(n-1), -(n-3), ..., n-1; columns grow AWAY from the face documented 'on the left', rows grow
    AWAY from the face documented as 'pointing up' (reading order)."""
    left, up = NORMAL[VIEW[f][0]], NORMAL[VIEW[f][1]]
    u = -(n - 1) + 2 * c          # coordinate along the 'to the right' direction (= -left)
    v = -(n - 1) + 2 * r          # coordinate along the 'downwards' direction (= -up)
    nm = NORMAL[f]
    return tuple(n * nm[k] - u * left[k] - v * up[k] for k in range(3))


def quarter_cw(p, axis):
    """rotate point p by -90 degrees about the unit vector `axis` (= clockwise for an observer outside the cube
    looking at the face whose outward normal is `axis`):  p' = axis (axis.p) - axis x p"""
    d = _dot(axis, p)
    cr = _cross(axis, p)
    return tuple(axis[k] * d - cr[k] for k in range(3))


def geometric_moves(n):
    """{(face, depth, amount): source table}  with  new[dst] = old[table[dst]]  over flat sticker indices"""
    cell_at = {}
    for f in range(6):
        for r in range(n):
            for c in range(n):
                p = sticker_position(n, f, r, c)
                assert p not in cell_at
                cell_at[p] = (f * n + r) * n + c
    assert len(cell_at) == 6 * n * n
    out = {}
    for f in range(6):
        ax = NORMAL[f]
        for d in range(n // 2):
            for am, q in enumerate(QUARTERS):
                src = list(range(6 * n * n))
                for p, i in cell_at.items():
                    h = _dot(ax, p)
                    # the slab `d` layers below face f: side stickers of its cubies, plus the face's own stickers for d == 0
                    in_layer = (h == (n - 1) - 2 * d) or (d == 0 and h == n)
                    if not in_layer:
                        continue
                    p2 = p
                    for _ in range(q):
                        p2 = quarter_cw(p2, ax)
                    src[cell_at[p2]] = i       # the sticker at p travels to p2
                assert sorted(src) == list(range(6 * n * n)), "geometric move is not a bijection"
                out[(f, d, am)] = src
    return out


@register
class RubiksCubeH(Harness):
    ENV = "RubiksCube"
    QUICK = ["RubiksCube@2", "RubiksCube@3"]
    THOROUGH = ["RubiksCube@4", "RubiksCube@5"]
    MASKED = False
    INVALID = None
    TIME_LIMIT = True

    def n(self):
        return self.env.generator.cube_size

    def sym_state(self, ctx, tag="S"):
        from jumanji.environments.logic.rubiks_cube.types import State
        n = self.n()
        cube = ctx.fresh_arr(tag + ".cube", (6, n, n), np.int8, 0, 5)
        step = ctx.fresh_arr(tag + ".step_count", (), np.int32, 0, self.T - 1)
        key = ctx.fresh_arr(tag + ".key", (2,), np.uint32)
        return State(cube=cube, step_count=step, key=key), []

    def inv(self, st, ctx=None):
        # Deliberately NOT included: "every colour occurs n^2 times".  It is preserved because each move is a
        # bijection of sticker positions (asserted for the geometric tables in geometric_moves, and C09 proves the
        # real step equal to them), but as a solver obligation it is a pigeonhole count; no property below needs it.
        c, sc = vs(st.cube), vs(st.step_count)
        return [("sticker colours in 0..5", all_([(x >= 0) & (x <= 5) for x in c.reshape(-1)])),
                ("step_count in [0, time_limit]", (sc >= 0) & (sc <= self.T))]

    # ----------------------------------------------------------------------------------------------- rules
    def _solved(self, cube):
        """every face shows a single colour (docs: 'match all stickers on each face to a single colour')"""
        cube = np.asarray(cube, dtype=object)
        return all_([x == cube[f, 0, 0] for f in range(6) for x in cube[f].reshape(-1)[1:]])

    def _turn(self, cube, act):
        n = self.n()
        flat = np.asarray(cube, dtype=object).reshape(-1)
        a = vs(act)
        moves = geometric_moves(n)
        sel = {k: (a[0] == k[0]) & (a[1] == k[1]) & (a[2] == k[2]) for k in moves}
        out = np.empty(6 * n * n, dtype=object)
        for i in range(6 * n * n):
            v = flat[i]                      # in-spec actions always select exactly one move
            for k, src in moves.items():
                if src[i] != i:
                    v = where(sel[k], flat[src[i]], v, np.int8)
            out[i] = v
        return out.reshape(6, n, n)

    def reward_law(self, st, act, ns, ts, legal):
        # sparse objective Phi_total = [cube solved at the end]; a solved cube ends the episode, so the episode return
        # telescopes to the last reward.  The solved predicate is recomputed from the raw successor stickers.
        s = self._solved(vs(ns.cube))
        return [("reward == 1.0 if every face of S' is uniform else 0.0", vs(ts.reward) == where(s, np.float32(1.0), np.float32(0.0), np.float32)),
                ("reward == 1 => episode ends (sparse return telescopes to the final reward)", (vs(ts.reward) != np.float32(0.0)).implies(vs(ts.step_type) == 2))]

    def ref_step(self, st, act):
        ng = self._turn(vs(st.cube), act)
        sc = vs(st.step_count) + 1
        s = self._solved(ng)
        return {"cube": ng, "step_count": sc, "reward": where(s, np.float32(1.0), np.float32(0.0), np.float32), "last": s | (sc >= self.T)}

    def other_done(self, st, act, ns, ts):
        return self._solved(vs(ns.cube))

    def observer(self, ns):
        return {"cube": vs(ns.cube), "step_count": vs(ns.step_count)}

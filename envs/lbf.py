"""LevelBasedForaging harness.

Rules (class docstring of `LevelBasedForaging`, docstrings in lbf/utils.py and lbf/observer.py, docs/environments/lbf.md):
* actions 0..5 = noop, up, down, left, right, load.  A move is allowed iff its target cell is inside the grid and holds
  neither another agent nor an uneaten food; LOAD is allowed iff an uneaten food is 4-adjacent; NOOP always.
  A forbidden action is IGNORED (the agent stays, nothing happens).  NOTE doc drift: docs/environments/lbf.md says
  "the episode terminates when an invalid action is taken / an agent collides"; the code and the property text (C05)
  treat both as ignored moves - the property text is followed here.
* collisions (`fix_collisions`): if N >= 2 agents would end up on the same cell, all of them keep their initial cell.
* after the moves, an uneaten food is eaten iff the levels of the 4-adjacent agents that chose LOAD sum to at least its
  level.  Reward of agent i for that food: level_i * food_level (if i is one of those loaders), divided - when
  `normalize_reward` - by (sum of the loaders' levels) * (sum of ALL food levels), "so that, at the end, the sum of the
  rewards (if all food items have been picked up) is one".  (lbf.md's one-liner "sum of the levels of collected food
  divided by the level of the agents that collected them" is a loose version of the same; the class docstring is
  followed.)  `penalty` is left at its default 0.0: its semantics are not documented beyond "the penalty value".
* termination: all food eaten (LAST, discount 0); truncation: step_count >= time_limit (LAST, discount 1 - documented
  via `truncation`).
* observations: VectorObserver / GridObserver docstrings (see `observer`).
* `agents.loading` simply records "this step's action was LOAD" (also for a refused LOAD); it is never read from the
  pre-state (shown by C09: the reference model ignores it) and is not part of any observation."""
import numpy as np

from engine import vexpr as X
from engine.jx2smt import SV
from engine.vexpr import V, vs, where, all_, any_, sum_
from envs.base import Harness, register

MOVES = {1: (-1, 0), 2: (1, 0), 3: (0, -1), 4: (0, 1)}   # up, down, left, right as (d row, d col)
LOAD = 5
F32 = np.float32


def same_cell(p, q):
    return (p[0] == q[0]) & (p[1] == q[1])


def adjacent(p, q):
    """Manhattan distance exactly 1"""
    dr, dc = p[0] - q[0], p[1] - q[1]
    return ((dr == 0) & ((dc == 1) | (dc == -1))) | ((dc == 0) & ((dr == 1) | (dr == -1)))


@register
class LbfH(Harness):
    ENV = "LevelBasedForaging"
    # 5x3x1: THREE agents (chained collisions - A steps onto B's cell while B collides with C - need three) and num_agents != num_food
    QUICK = ["LevelBasedForaging@5x2x1", "LevelBasedForaging@6x2x2", "LevelBasedForaging@5x3x1"]
    THOROUGH = ["LevelBasedForaging@7x3x2"]
    INVALID = "ignore"
    TIME_LIMIT = True
    REWARD_VARIANTS = [{}, {"normalize_reward": False}]
    # fov in {2 (config default), 1, grid} x {VectorObserver, GridObserver}
    OBS_VARIANTS = [{}, {"grid_observation": True}, {"fov": 1}, {"fov": 1, "grid_observation": True},
                    {"fov": "grid"}, {"fov": "grid", "grid_observation": True}]

    OBS_GROUP = 25     # C12: big views (grid observer, fov = grid: 2x3x13x13) are proved in chunks of 25 cells

    def __init__(self, cfg, **over):
        over = dict(over)
        if over.get("fov") == "grid":
            over["fov"] = int(cfg.partition("@")[2].split("x")[0]) if "@" in cfg else 5
        super().__init__(cfg, **over)

    @property
    def RESET_INV(self):
        # RandomGenerator.reset draws the agents with jax.random.choice(replace=False, p=mask) = Gumbel top-k: an argsort
        # over grid_size**2 symbolic float keys.  With the engine's _gumbel stub and the implied sort lemmas every
        # Inv(reset) conjunct is decided at 5x5 (25 keys), but each query carries the float comparisons (8-55 s each,
        # ~3 min per property); at 6x6 (36 keys) the job exceeds its wall budget.  Inv(reset) is therefore attempted in
        # the THOROUGH tier only, and only for the 5x5 configuration; elsewhere reset is covered by C03 (protocol) only.
        import sys
        return self.dims()[0] == 5 and "thorough" in sys.argv

    def dims(self):
        e = self.env
        return e.grid_size, e.num_agents, e.num_food

    def level_bounds(self):
        """generator contract: agent levels in [1, max_agent_level]; food level <= sum of the 3 lowest agent levels"""
        G, A, F = self.dims()
        lmax = self.env._generator.max_agent_level
        return lmax, min(A, 3) * lmax

    # ------------------------------------------------------------------ pre-state
    def sym_state(self, ctx, tag="S"):
        from jumanji.environments.routing.lbf.types import Agent, Food, State
        G, A, F = self.dims()
        lmax, fmax = self.level_bounds()
        agents = Agent(id=SV(np.arange(A, dtype=np.int32), np.int32),
                       position=ctx.fresh_arr(tag + ".agents.position", (A, 2), np.int32, 0, G - 1),
                       level=ctx.fresh_arr(tag + ".agents.level", (A,), np.int32, 1, lmax),
                       loading=ctx.fresh_arr(tag + ".agents.loading", (A,), np.bool_))
        foods = Food(id=SV(np.arange(F, dtype=np.int32), np.int32),
                     position=ctx.fresh_arr(tag + ".food.position", (F, 2), np.int32, 0, G - 1),
                     level=ctx.fresh_arr(tag + ".food.level", (F,), np.int32, 1, fmax),
                     eaten=ctx.fresh_arr(tag + ".food.eaten", (F,), np.bool_))
        step = ctx.fresh_arr(tag + ".step_count", (), np.int32, 0, self.T - 1)
        key = ctx.fresh_arr(tag + ".key", (2,), np.uint32)
        return State(agents=agents, food_items=foods, step_count=step, key=key), []

    @staticmethod
    def _tables(st):
        return (vs(st.agents.position), vs(st.agents.level), vs(st.food_items.position), vs(st.food_items.level),
                np.atleast_1d(vs(st.food_items.eaten)))

    def inv(self, st, ctx=None):
        G, A, F = self.dims()
        lmax, fmax = self.level_bounds()
        ap, al, fp, fl, fe = self._tables(st)
        inside = lambda p: (p[0] >= 0) & (p[0] < G) & (p[1] >= 0) & (p[1] < G)  # noqa
        ob = [("agent and food ids are 0..n-1", all_([vs(st.agents.id)[i] == i for i in range(A)] + [vs(st.food_items.id)[f] == f for f in range(F)])),
              ("step_count in [0, time_limit]", (vs(st.step_count) >= 0) & (vs(st.step_count) <= self.T)),
              ("agent levels in [1, max_agent_level]", all_([(al[i] >= 1) & (al[i] <= lmax) for i in range(A)])),
              ("food levels in [1, min(num_agents,3)*max_agent_level]", all_([(fl[f] >= 1) & (fl[f] <= fmax) for f in range(F)]))]
        for i in range(A):
            ob.append((f"agent{i} inside the grid", inside(ap[i])))
            for j in range(i):
                ob.append((f"agents {j} and {i} on distinct cells", ~same_cell(ap[i], ap[j])))
            for f in range(F):
                ob.append((f"agent{i} not on uneaten food{f}", fe[f] | ~same_cell(ap[i], fp[f])))
        for f in range(F):
            ob.append((f"food{f} inside the grid", inside(fp[f])))
            for h in range(f):
                ob.append((f"foods {h} and {f} on distinct cells", ~same_cell(fp[f], fp[h])))
        return ob

    # ------------------------------------------------------------------ rules
    def _free(self, i, cell, ap, fp, fe):
        """cell inside the grid, no OTHER agent and no uneaten food on it"""
        G, A, F = self.dims()
        r, c = cell
        ok = (r >= 0) & (r < G) & (c >= 0) & (c < G)
        for j in range(A):
            if j != i:
                ok = ok & ~same_cell(ap[j], cell)
        for f in range(F):
            ok = ok & (fe[f] | ~same_cell(fp[f], cell))
        return ok

    def _mask(self, ap, fp, fe):
        G, A, F = self.dims()
        out = np.empty((A, 6), dtype=object)
        for i in range(A):
            out[i, 0] = X.TRUE
            for k, (dr, dc) in MOVES.items():
                out[i, k] = self._free(i, (ap[i, 0] + dr, ap[i, 1] + dc), ap, fp, fe)
            out[i, LOAD] = any_([(~fe[f]) & adjacent(ap[i], fp[f]) for f in range(F)])
        return out

    def mask_rule(self, st):
        ap, al, fp, fl, fe = self._tables(st)
        return self._mask(ap, fp, fe)

    @staticmethod
    def _target(ap, a, i):
        dr = where(a[i] == 1, -1, where(a[i] == 2, 1, 0))
        dc = where(a[i] == 3, -1, where(a[i] == 4, 1, 0))
        return ap[i, 0] + dr, ap[i, 1] + dc

    def _moves(self, st, a):
        """per agent: (is a move action, move allowed by the rule, target cell, loses it to a collision)"""
        G, A, F = self.dims()
        ap, al, fp, fl, fe = self._tables(st)
        is_move = [(a[i] >= 1) & (a[i] <= 4) for i in range(A)]
        tgt = [self._target(ap, a, i) for i in range(A)]
        go = [is_move[i] & self._free(i, tgt[i], ap, fp, fe) for i in range(A)]
        clash = [go[i] & any_([go[j] & same_cell(tgt[i], tgt[j]) for j in range(A) if j != i]) for i in range(A)]
        return is_move, go, tgt, clash

    def treated_invalid(self, st, act, ns, ts):
        """moves: the agent asked to move, stayed, and the stay is not the documented collision rule.
        LOAD has no observable refusal (a legal LOAD that does not reach the food's level changes nothing either), so
        for LOAD the reaction cannot be read off the successor: (b) is claimed for move actions only and the LOAD
        entry is the rule itself (its consequences are checked in C05/C09)."""
        G, A, F = self.dims()
        a = vs(act)
        p0, p1 = vs(st.agents.position), vs(ns.agents.position)
        is_move, go, tgt, clash = self._moves(st, a)
        legal = self.action_legal(st, act)
        return [where(a[i] == LOAD, ~legal[i], is_move[i] & same_cell(p1[i], p0[i]) & ~clash[i], X.BOOL) for i in range(A)]

    # ------------------------------------------------------------------ reference model
    def _ref(self, st, a):
        G, A, F = self.dims()
        ap, al, fp, fl, fe = self._tables(st)
        is_move, go, tgt, clash = self._moves(st, a)
        npos = np.empty((A, 2), dtype=object)
        for i in range(A):
            moves = go[i] & ~clash[i]
            npos[i, 0] = where(moves, tgt[i][0], ap[i, 0])
            npos[i, 1] = where(moves, tgt[i][1], ap[i, 1])
        loading = np.array([a[i] == LOAD for i in range(A)], dtype=object)
        # levels of the loading agents next to each (still uneaten) food, after the moves
        adj = np.empty((F, A), dtype=object)
        for f in range(F):
            for i in range(A):
                adj[f, i] = where(loading[i] & adjacent(npos[i], fp[f]) & ~fe[f], al[i], 0)
        tot = [sum_(list(adj[f])) for f in range(F)]
        eaten_now = [tot[f] >= fl[f] for f in range(F)]
        neaten = np.array([fe[f] | eaten_now[f] for f in range(F)], dtype=object)
        total_food = sum_(list(fl))
        norm = bool(self.env.normalize_reward)
        reward = np.empty((A,), dtype=object)
        for i in range(A):
            acc = None
            for f in range(F):
                num = where(eaten_now[f], adj[f, i] * fl[f], 0).astype(F32)
                if norm:
                    den = where(tot[f] == 0, 1, tot[f] * total_food).astype(F32)    # 0/0 -> nan_to_num -> 0
                    share = where(tot[f] == 0, F32(0.0), num / den, F32)
                else:
                    share = num
                acc = share if acc is None else acc + share
            reward[i] = acc
        sc = vs(st.step_count) + 1
        all_eaten = all_(list(neaten))
        last = all_eaten | (sc >= self.T)
        disc = where(all_eaten, F32(0.0), F32(1.0), F32)
        ref = {"agents.position": npos, "agents.loading": loading, "agents.level": al, "agents.id": vs(st.agents.id),
               "food_items.position": fp, "food_items.level": fl, "food_items.eaten": neaten, "food_items.id": vs(st.food_items.id),
               "step_count": sc, "key": vs(st.key), "reward": reward, "last": last}
        return ref, disc, eaten_now

    def ref_step(self, st, act):
        assert float(self.env.penalty) == 0.0, "penalty semantics are not documented; harness covers penalty == 0 only"
        return self._ref(st, vs(act))[0]

    def illegal_effect(self, st, act, ns, ts, bad):
        """ignore-invalid: the offending agent stays and earns nothing, and the whole step equals the step in which the
        offending agents had played NOOP (all positions, food, reward, termination).  `agents.loading` is excluded: it
        records the raw action (see module docstring)."""
        G, A, F = self.dims()
        a = vs(act)
        p0, p1 = vs(st.agents.position), vs(ns.agents.position)
        a2 = [where(bad[i], 0, a[i]) for i in range(A)]
        ref, disc, _ = self._ref(st, a2)
        some = any_(bad)
        ob = []
        for i in range(A):
            ob.append((f"illegal agent{i} keeps its position", bad[i].implies(same_cell(p1[i], p0[i]))))
            ob.append((f"illegal agent{i} earns no reward", bad[i].implies(vs(ts.reward)[i] == F32(0.0))))
        fe1 = np.atleast_1d(vs(ns.food_items.eaten))
        ob += [("some agent illegal => all positions as if the illegal agents had played NOOP", some.implies(X.eq_arr(p1, ref["agents.position"]))),
               ("some agent illegal => food eaten as if the illegal agents had played NOOP", some.implies(X.eq_arr(fe1, ref["food_items.eaten"]))),
               ("some agent illegal => levels and food positions untouched",
                some.implies(X.eq_arr(vs(ns.agents.level), ref["agents.level"]) & X.eq_arr(vs(ns.food_items.level), ref["food_items.level"])
                             & X.eq_arr(vs(ns.food_items.position), ref["food_items.position"]))),
               ("some agent illegal => reward as if the illegal agents had played NOOP", some.implies(X.eq_arr(vs(ts.reward), ref["reward"]))),
               ("some agent illegal => step_type as if the illegal agents had played NOOP", some.implies((vs(ts.step_type) == 2).iff(ref["last"]))),
               ("some agent illegal => discount as if the illegal agents had played NOOP",
                some.implies(all_([d == where(vs(ts.step_type) == 2, disc, F32(1.0), F32) for d in vs(ts.discount)])))]
        return ob

    # ------------------------------------------------------------------ C07
    def conserve(self, st, act, ns, ts):
        G, A, F = self.dims()
        ap0, al0, fp0, fl0, fe0 = self._tables(st)
        ap1, al1, fp1, fl1, fe1 = self._tables(ns)
        a = vs(act)
        ob = []
        for i in range(A):
            ob.append((f"agent{i}: stays or moves to a 4-neighbour cell", same_cell(ap1[i], ap0[i]) | adjacent(ap1[i], ap0[i])))
            ob.append((f"agent{i}: level and id never change", (al1[i] == al0[i]) & (vs(ns.agents.id)[i] == vs(st.agents.id)[i])))
            ob.append((f"agent{i}: NOOP and LOAD do not move the agent", ((a[i] == 0) | (a[i] == LOAD)).implies(same_cell(ap1[i], ap0[i]))))
        for f in range(F):
            ob.append((f"food{f}: position, level and id never change",
                       same_cell(fp1[f], fp0[f]) & (fl1[f] == fl0[f]) & (vs(ns.food_items.id)[f] == vs(st.food_items.id)[f])))
            ob.append((f"food{f}: eaten food stays eaten", fe0[f].implies(fe1[f])))
            loaders = sum_([where((a[i] == LOAD) & adjacent(ap1[i], fp0[f]), al0[i], 0) for i in range(A)])
            ob.append((f"food{f}: becomes eaten <=> the adjacent loading agents' levels reach its level", ((~fe0[f]) & fe1[f]).iff((~fe0[f]) & (loaders >= fl0[f]))))
        return ob

    # ------------------------------------------------------------------ C08
    def reward_law(self, st, act, ns, ts, legal):
        """Phi(S) = sum of the levels of eaten food / sum of all food levels (normalised; unnormalised: level-weighted).
        One-step form per agent: reward_i = sum over the food eaten on this step of
        level_i*[i loads next to it]*food_level / (loaders' level sum * total food level), float32 in the documented
        order (summing it over agents and steps gives Phi(final) - Phi(initial) up to float rounding)."""
        assert float(self.env.penalty) == 0.0
        G, A, F = self.dims()
        ap1, al, fp, fl, fe1 = self._tables(ns)
        fe0 = np.atleast_1d(vs(st.food_items.eaten))
        a = vs(act)
        rew, disc = vs(ts.reward), vs(ts.discount)
        norm = bool(self.env.normalize_reward)
        total_food = sum_(list(fl))
        ob = []
        newly = [(~fe0[f]) & fe1[f] for f in range(F)]
        contrib = [[where((a[i] == LOAD) & adjacent(ap1[i], fp[f]) & ~fe0[f], al[i], 0) for i in range(A)] for f in range(F)]
        tot = [sum_(contrib[f]) for f in range(F)]
        for i in range(A):
            acc = None
            for f in range(F):
                num = where(newly[f], contrib[f][i] * fl[f], 0).astype(F32)
                if norm:
                    share = where(tot[f] == 0, F32(0.0), num / where(tot[f] == 0, 1, tot[f] * total_food).astype(F32), F32)
                else:
                    share = num
                acc = share if acc is None else acc + share
            ob.append((f"agent{i}: reward == level-weighted share of the food eaten on this step" + (" / (loaders' levels * total food level)" if norm else ""),
                       rew[i] == acc))
            ob.append((f"agent{i}: no food eaten on this step => reward 0", (~any_(newly)).implies(rew[i] == F32(0.0))))
        all_eaten = all_(list(fe1))
        last = vs(ts.step_type) == 2
        for i in range(A):
            ob.append((f"agent{i}: discount == 0 iff all food is eaten (termination); 1 on MID and on truncation",
                       disc[i] == where(all_eaten, F32(0.0), F32(1.0), F32)))
        ob.append(("all food eaten => LAST", all_eaten.implies(last)))
        return ob

    # ------------------------------------------------------------------ C11 / C12
    def other_done(self, st, act, ns, ts):
        return all_(list(np.atleast_1d(vs(ns.food_items.eaten))))

    def observer(self, ns):
        G, A, F = self.dims()
        ap, al, fp, fl, fe = self._tables(ns)
        fov = self.env.fov
        out = {"action_mask": self._mask(ap, fp, fe), "step_count": vs(ns.step_count)}
        if type(self.env._observer).__name__ == "GridObserver":
            # (A, 3, 2fov+1, 2fov+1) window centred on the agent: agent levels / uneaten food levels / accessibility
            # (1 = inside the grid and empty, 0 = occupied or outside the grid)
            W = 2 * fov + 1
            view = np.empty((A, 3, W, W), dtype=object)
            for i in range(A):
                for u in range(W):
                    for v in range(W):
                        cell = (ap[i, 0] - fov + u, ap[i, 1] - fov + v)
                        lvl_a = X.const(0)
                        for j in reversed(range(A)):
                            lvl_a = where(same_cell(ap[j], cell), al[j], lvl_a)
                        lvl_f = X.const(0)
                        for f in reversed(range(F)):
                            lvl_f = where((~fe[f]) & same_cell(fp[f], cell), fl[f], lvl_f)
                        inside = (cell[0] >= 0) & (cell[0] < G) & (cell[1] >= 0) & (cell[1] < G)
                        occupied = any_([same_cell(ap[j], cell) for j in range(A)]) | any_([(~fe[f]) & same_cell(fp[f], cell) for f in range(F)])
                        view[i, 0, u, v] = lvl_a
                        view[i, 1, u, v] = lvl_f
                        view[i, 2, u, v] = where(inside & ~occupied, 1, 0)
            out["agents_view"] = view
            return out
        # VectorObserver: (row, col, level) triples: all food, then the observing agent, then the other agents in id
        # order; coordinates are relative to the top-left corner of the agent's field of view clipped to the grid
        # (`transform_positions`: "positions of items within the agent's field of view"); invisible (outside the fov,
        # or eaten food) = (-1, -1, 0)
        view = np.empty((A, 3 * (F + A)), dtype=object)
        for i in range(A):
            org = (X.vmax(ap[i, 0] - fov, X.const(0)), X.vmax(ap[i, 1] - fov, X.const(0)))

            def triple(p, lvl, visible):
                return [where(visible, p[0] - org[0], -1), where(visible, p[1] - org[1], -1), where(visible, lvl, 0)]

            def in_fov(p):
                dr, dc = p[0] - ap[i, 0], p[1] - ap[i, 1]
                return (dr <= fov) & (dr >= -fov) & (dc <= fov) & (dc >= -fov)
            row = []
            for f in range(F):
                row += triple(fp[f], fl[f], in_fov(fp[f]) & ~fe[f])
            row += triple(ap[i], al[i], X.TRUE)
            for j in range(A):
                if j != i:
                    row += triple(ap[j], al[j], in_fov(ap[j]))
            for k, x in enumerate(row):
                view[i, k] = x
        out["agents_view"] = view
        return out

"""GraphColoring harness.  Rules (docs + class docstring): nodes are coloured in index order; action = colour for
the current node; a colour is legal iff no already-coloured neighbour has it; an illegal action ends the episode
with reward -num_nodes; when all nodes are coloured the reward is -(number of distinct colours)."""
import numpy as np

from engine import sym as S
from engine import vexpr as X
from engine.jx2smt import SV
from engine.vexpr import V, vs, where, all_, any_, pick, count
from envs.base import Harness, register


@register
class GraphColoringH(Harness):
    ENV = "GraphColoring"
    QUICK = ["GraphColoring@4", "GraphColoring@3"]
    THOROUGH = ["GraphColoring@5", "GraphColoring@6"]
    INVALID = "terminate"

    def n(self):
        return self.env.num_nodes

    def sym_state(self, ctx, tag="S"):
        from jumanji.environments.logic.graph_coloring.types import State
        n = self.n()
        adj = ctx.fresh_arr(tag + ".adj", (n, n), np.bool_)
        colors = ctx.fresh_arr(tag + ".colors", (n,), np.int32, -1, n - 1)
        idx = ctx.fresh_arr(tag + ".idx", (), np.int32, 0, n - 1)
        key = ctx.fresh_arr(tag + ".key", (2,), np.uint32)
        mask = S.call(ctx, self.env._get_valid_actions, idx, adj, colors)
        return State(adj_matrix=adj, colors=colors, current_node_index=idx, action_mask=mask, key=key), []

    def inv(self, st, ctx=None):
        n = self.n()
        adj, col, idx = vs(st.adj_matrix), vs(st.colors), vs(st.current_node_index)
        ob = [("adjacency symmetric, no self-loops", all_([adj[i, j].iff(adj[j, i]) for i in range(n) for j in range(i)] + [~adj[i, i] for i in range(n)])),
              ("current_node_index in range", (idx >= 0) & (idx < n)),
              ("exactly the nodes before current_node_index are coloured",
               all_([where(idx > i, (col[i] >= 0) & (col[i] < n), col[i] == -1, X.BOOL) for i in range(n)])),
              ("cached action_mask == mask rule", X.eq_arr(vs(st.action_mask), self.mask_rule(st)))]
        ob += self.constraints(st)
        return ob

    def mask_rule(self, st):
        n = self.n()
        adj, col, idx = vs(st.adj_matrix), vs(st.colors), vs(st.current_node_index)
        out = np.empty((n,), dtype=object)
        for c in range(n):
            clash = any_([pick(adj, idx, j) & (col[j] == c) for j in range(n)])
            out[c] = ~clash
        return out

    def action_legal(self, st, act):
        return [pick(self.mask_rule(st), vs(act))]

    def _all_coloured(self, st):
        return all_([c >= 0 for c in vs(st.colors)])

    def _num_colours(self, st):
        n = self.n()
        col = vs(st.colors)
        return count([any_([col[i] == c for i in range(n)]) for c in range(n)])

    def treated_invalid(self, st, act, ns, ts):
        n = self.n()
        penal = vs(ts.reward) == np.float32(-n)
        proper_full = self._all_coloured(ns) & (self._num_colours(ns) == n)
        return [(vs(ts.step_type) == 2) & penal & ~proper_full]

    def illegal_effect(self, st, act, ns, ts, bad):
        n = self.n()
        return [("illegal => LAST", bad[0].implies(vs(ts.step_type) == 2)),
                ("illegal => reward == -num_nodes", bad[0].implies(vs(ts.reward) == np.float32(-n)))]

    def constraints(self, st):
        n = self.n()
        adj, col = vs(st.adj_matrix), vs(st.colors)
        return [("adjacent coloured nodes never share a colour",
                 all_([(adj[i, j] & (col[i] >= 0) & (col[j] >= 0)).implies(col[i] != col[j]) for i in range(n) for j in range(i)]))]

    def complete(self, st, ts):
        return self._all_coloured(st), [("all nodes coloured with in-range colours", all_([(c >= 0) & (c < self.n()) for c in vs(st.colors)]))] + self.constraints(st)

    def reward_law(self, st, act, ns, ts, legal):
        k = self._num_colours(ns)
        want = where(self._all_coloured(ns), (-k).astype(np.float32), np.float32(0.0), np.float32)
        return [("legal action: reward == -(distinct colours) at completion, 0 before", legal.implies(vs(ts.reward) == want))]

    def ref_step(self, st, act):
        n = self.n()
        col, idx, a = vs(st.colors), vs(st.current_node_index), vs(act)
        legal = self.action_legal(st, act)[0]
        ncol = X.put(col, idx, a)
        allc = all_([c >= 0 for c in ncol])
        k = count([any_([ncol[i] == c for i in range(n)]) for c in range(n)])
        reward = where(legal, where(allc, (-k).astype(np.float32), np.float32(0.0), np.float32), np.float32(-n), np.float32)
        return {"adj_matrix": vs(st.adj_matrix), "colors": ncol, "current_node_index": (idx + 1) % n,
                "reward": reward, "last": (~legal) | allc}

    def measure(self, st):
        return count([c >= 0 for c in vs(st.colors)]), self.n()

    def observer(self, ns):
        return {"adj_matrix": vs(ns.adj_matrix), "colors": vs(ns.colors), "current_node_index": vs(ns.current_node_index),
                "action_mask": vs(ns.action_mask)}

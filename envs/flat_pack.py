"""FlatPack harness.  Rules (docs/environments/flat_pack.md + class docstring): `num_blocks` blocks, each a 3x3 array
whose non-zero cells carry the block's number, are to be placed on an initially empty grid.  Action = (block, number
of quarter turns, row, col of the block's top-left corner).  A placement is legal iff the block has not been placed
yet and none of its non-zero cells (after rotation, at that position) lands on a filled cell; the position ranges
(num_rows-2, num_cols-2) keep every 3x3 block inside the grid.  A legal placement writes the block's cells into the
grid and marks the block as placed; an illegal action is ignored (grid and placed_blocks unchanged) but the step is
counted.  Reward: CellDense = non-zero cells of the placed block / grid cells; BlockDense = 1/num_blocks per placed
block; 0 for an ignored action.  The episode ends when all blocks are placed or after `num_blocks` steps.

Not determined by the docs (stated, claim made for the reading below): the DIRECTION of the quarter turns -- the
reference uses clockwise turns (rotation 1 maps cell (i,j) to (j, 2-i)).  A wrong direction in the repo would
show up as a disagreement between mask / placement and this reference, a consistent one would not."""
import numpy as np

from engine import sym as S
from engine import vexpr as X
from engine.jx2smt import SV
from engine.vexpr import V, vs, where, all_, any_, pick, count
from envs.base import Harness, register

F32 = np.float32


def _rot_src(k, i, j):
    """cell (i,j) of the block after k clockwise quarter turns comes from cell _rot_src(k,i,j) of the original"""
    return [(i, j), (2 - j, i), (2 - i, 2 - j), (j, 2 - i)][k]


@register
class FlatPackH(Harness):
    ENV = "FlatPack"
    QUICK = ["FlatPack@2x2", "FlatPack@3x2"]       # 3x2: non-square grid (7x5) with inner blocks - a row/column mix-up is invisible at 2x2
    THOROUGH = ["FlatPack@2x3"]
    INVALID = "ignore"
    MULTI_DISCRETE = True
    UNROLL = 16
    DIFF_ULPS = 1   # CellDense: x / (rows*cols) is compiled to x * float32(1/(rows*cols)) by XLA (1 ulp), see _cell_band

    def TWO_STEP(self, tier):
        # C06's second harness (two steps, the 2nd action only respecting the EMITTED mask) costs ~110 s at 2x2 blocks (the
        # depth-2 lemma queries take ~20 s each); it runs in the thorough tier at 2x2.  The quick tier keeps the inductive step
        # + the implication kernel; that the emitted mask IS the rule on S' for every action is C04's obligation at both sizes.
        # (now also in the quick tier: a seeded `_is_legal_action` that tolerates a one-cell overlap is rule-ILLEGAL, so only play that
        # follows the emitted mask exposes it as an overlap; the job runs in parallel with the others and fits the tier)
        return self.cfg == "FlatPack@2x2"

    @classmethod
    def _variants(cls):
        from jumanji.environments.packing.flat_pack.reward import BlockDenseReward
        return [{}, {"reward_fn": BlockDenseReward()}]

    def dims(self):
        e = self.env
        return e.num_blocks, e.num_rows, e.num_cols

    # ------------------------------------------------------------------ pre-state
    def sym_state(self, ctx, tag="S"):
        from jumanji.environments.packing.flat_pack.types import State
        n, R_, C_ = self.dims()
        grid = ctx.fresh_arr(tag + ".grid", (R_, C_), np.int32, 0, n)
        blocks = ctx.fresh_arr(tag + ".blocks", (n, 3, 3), np.int32, 0, n)
        placed = ctx.fresh_arr(tag + ".placed_blocks", (n,), np.bool_)
        step = ctx.fresh_arr(tag + ".step_count", (), np.int32, 0, n - 1)
        key = ctx.fresh_arr(tag + ".key", (2,), np.uint32)
        mask = S.call(ctx, self.env._make_action_mask, grid, blocks, placed)
        st = State(grid=grid, num_blocks=SV(np.asarray(n, np.int32), np.int32), blocks=blocks, action_mask=mask, placed_blocks=placed,
                   step_count=step, key=key)
        return st, []

    # ------------------------------------------------------------------ helpers over V arrays
    @staticmethod
    def _has(B, i, v):
        return any_([x == v for x in B[i].reshape(-1)])

    def _foot(self, B, i, k, r, c, y, x):
        """V-bool: grid cell (y,x) is covered by a non-zero cell of block i after k clockwise quarter turns with its
        top-left corner at (r,c) (all concrete indices, block contents symbolic)"""
        if not (0 <= y - r < 3 and 0 <= x - c < 3):
            return X.FALSE
        si, sj = _rot_src(k, y - r, x - c)
        return B[i, si, sj] != 0

    def _block_ok(self, B):
        n, R_, C_ = self.dims()
        ob = []
        for i in range(n):
            cells = list(B[i].reshape(-1))
            ob.append((f"block {i}: non-empty, all non-zero cells carry one number in [1, num_blocks]",
                       any_([all_([(x == 0) | (x == v) for x in cells]) for v in range(1, n + 1)]) & any_([x != 0 for x in cells])))
        ob.append(("different blocks carry different numbers",
                   all_([~(self._has(B, i, v) & self._has(B, j, v)) for i in range(n) for j in range(i) for v in range(1, n + 1)])))
        return ob

    def inv(self, st, ctx=None):
        n, R_, C_ = self.dims()
        g, B, pl, sc = vs(st.grid), vs(st.blocks), vs(st.placed_blocks), vs(st.step_count)
        ob = [("grid values in [0, num_blocks]", all_([(x >= 0) & (x <= n) for x in g.reshape(-1)])),
              ("block values in [0, num_blocks]", all_([(x >= 0) & (x <= n) for x in B.reshape(-1)]))]
        ob += self._block_ok(B)
        ob += [("num_blocks field == number of blocks", vs(st.num_blocks) == n),
               ("step_count in [0, num_blocks-1] (every non-terminal state; = the domain of sym_state)", (sc >= 0) & (sc < n)),
               ("at most one block placed per step: #placed <= step_count", count(list(pl)) <= sc)]
        m, r = vs(st.action_mask), self.mask_rule(st)
        for b in range(n):
            ob.append((f"cached action_mask[{b}] == mask rule", X.eq_arr(m[b], r[b])))
        return ob

    # ------------------------------------------------------------------ rules
    def _mask(self, g, B, pl):
        n, R_, C_ = self.dims()
        out = np.empty((n, 4, R_ - 2, C_ - 2), dtype=object)
        occ = np.empty(g.shape, dtype=object)
        for p in np.ndindex(*g.shape):
            occ[p] = g[p] != 0
        for b in range(n):
            for k in range(4):
                for r in range(R_ - 2):
                    for c in range(C_ - 2):
                        clash = any_([self._foot(B, b, k, r, c, r + i, c + j) & occ[r + i, c + j] for i in range(3) for j in range(3)])
                        out[b, k, r, c] = (~pl[b]) & ~clash
        return out

    def mask_rule(self, st):
        return self._mask(vs(st.grid), vs(st.blocks), vs(st.placed_blocks))

    def action_legal(self, st, act):
        a = vs(act)
        return [pick(self.mask_rule(st), a[0], a[1], a[2], a[3], default=X.FALSE)]

    def treated_invalid(self, st, act, ns, ts):
        # the environment's reaction to an invalid action is to ignore it: neither the grid nor placed_blocks change
        return [X.same(st.grid, ns.grid) & X.same(st.placed_blocks, ns.placed_blocks)]

    def _last_rule(self, sc1, placed1):
        n = self.dims()[0]
        return (sc1 >= n) | all_(list(placed1))

    def illegal_effect(self, st, act, ns, ts, bad):
        b = bad[0]
        sc1 = vs(st.step_count) + 1
        return [("illegal => grid unchanged", b.implies(X.same(st.grid, ns.grid))),
                ("illegal => placed_blocks unchanged", b.implies(X.same(st.placed_blocks, ns.placed_blocks))),
                ("illegal => blocks unchanged", b.implies(X.same(st.blocks, ns.blocks))),
                ("illegal => the step is counted", b.implies(vs(ns.step_count) == sc1)),
                ("illegal => reward 0", b.implies(vs(ts.reward) == F32(0.0))),
                ("illegal => the episode continues exactly as for a no-op (LAST iff the step budget is used up)",
                 b.implies((vs(ts.step_type) == 2).iff(self._last_rule(sc1, vs(st.placed_blocks)))))]

    # ------------------------------------------------------------------ C06
    @staticmethod
    def _mine(g, B, i):
        """V-bool per grid cell: the cell carries block i's number (= the max of the block's cells: they are 0 or that number)"""
        ident = B[i, 0, 0]
        for x in B[i].reshape(-1)[1:]:
            ident = X.vmax(ident, x)
        mine = np.empty(g.shape, dtype=object)
        for p in np.ndindex(*g.shape):
            mine[p] = g[p] == ident
        return mine

    def _constraints(self, g, B, pl):
        n, R_, C_ = self.dims()
        ob = []
        for i in range(n):
            mine = self._mine(g, B, i)
            somewhere = any_([all_([mine[y, x].iff(self._foot(B, i, k, r, c, y, x)) for y in range(R_) for x in range(C_)])
                              for k in range(4) for r in range(R_ - 2) for c in range(C_ - 2)])
            nowhere = ~any_(list(mine.reshape(-1)))
            ob.append((f"block {i}: placed => its number marks exactly one rotated copy inside the grid; unplaced => its number is absent",
                       where(pl[i], somewhere, nowhere, X.BOOL)))
        return ob

    def constraints(self, st):
        """hard constraints recomputed from the raw arrays: the cells carrying a block's number are, for a placed
        block, exactly one rotated copy of the block lying inside the grid (so placed blocks are inside and -- being
        level sets of one grid -- pairwise disjoint); the number of an unplaced block appears nowhere."""
        return self._constraints(vs(st.grid), vs(st.blocks), vs(st.placed_blocks))

    def _succ_lemmas(self, g0, B, p0, a, legal, val, g1, p1):
        n, R_, C_ = self.dims()
        ob = []
        for i in range(n):
            chosen = legal & (a[0] == i)
            m0, m1 = self._mine(g0, B, i), self._mine(g1, B, i)
            ob.append((f"block {i}: the cells carrying its number are exactly the placed copy if it is legally placed now, unchanged otherwise",
                       all_([m1[p].iff(where(chosen, val[p] != 0, m0[p], X.BOOL)) for p in np.ndindex(R_, C_)])))
            ob.append((f"block {i}: placed' <=> placed or legally placed now", p1[i].iff(p0[i] | chosen)))
        return ob

    def constraints_succ(self, st, act, ns, ts):
        """C06 hook.  The direct statement C(S') (an existential over 4*(R-2)*(C-2) placements per block) is `unknown` for z3 on
        the encoded step (120 s), so it is established as frame + local delta: per block, the set of cells carrying its
        number is the footprint of THIS action if the block is legally placed now and is unchanged otherwise, and
        placed_blocks changes accordingly.  With C(S) this gives C(S') (witness: the action, resp. the old witness);
        that implication is discharged mechanically, without any repo code, in kernels_c06."""
        legal = self.action_legal(st, act)[0]
        RB, val = self._placement(st, act)
        return [("blocks unchanged", X.same(st.blocks, ns.blocks))] + \
            self._succ_lemmas(vs(st.grid), vs(st.blocks), vs(st.placed_blocks), vs(act), legal, val, vs(ns.grid), vs(ns.placed_blocks))

    def kernels_c06(self, R):
        """well-formed blocks & C(S) & lemmas(S, a, S')  =>  C(S')   for arbitrary arrays (no environment code involved)"""
        from types import SimpleNamespace
        from engine import jx2smt as J
        n, R_, C_ = self.dims()
        ctx = J.Ctx()
        g0 = ctx.fresh_arr("g0", (R_, C_), np.int32, 0, n)
        g1 = ctx.fresh_arr("g1", (R_, C_), np.int32, 0, n)
        B = ctx.fresh_arr("B", (n, 3, 3), np.int32, 0, n)
        p0 = ctx.fresh_arr("p0", (n,), np.bool_)
        p1 = ctx.fresh_arr("p1", (n,), np.bool_)
        act, apre = S.sym_action(ctx, self.env)
        st = SimpleNamespace(grid=g0, blocks=B, placed_blocks=p0)
        legal = self.action_legal(st, act)[0]
        RB, val = self._placement(st, act)
        A = list(ctx.assumptions) + apre + [v.z() for _, v in self._block_ok(vs(B))] + [v.z() for _, v in self._constraints(vs(g0), vs(B), vs(p0))]
        A += [v.z() for _, v in self._succ_lemmas(vs(g0), vs(B), vs(p0), vs(act), legal, val, vs(g1), vs(p1))]
        R.nvars += 2 * R_ * C_ + 9 * n + 2 * n + 4
        R.reach("lemma premises satisfiable", A)
        R.reach("lemma premises satisfiable with a legal placement", A + [legal.z()])
        for nm, v in self._constraints(vs(g1), vs(B), vs(p1)):
            R.prove("C(S) & lemmas => C(S'): " + nm, A, v.term() if not v.conc else bool(v), internal=True)

    def complete(self, st, ts):
        # completion = every block placed; feasibility of the completed packing is C(S') itself (inside the grid, pairwise
        # disjoint), which the lemmas establish for every legal step, so no further obligation is attached.  (A derived
        # claim "every block's number is present" was unsat in 17 s one-step but `unknown` at 120 s at depth 2 and is implied anyway.
        # For generator-made instances the blocks' cell counts add up to the grid size, so "grid completely filled" follows by
        # arithmetic; it is not claimed for arbitrary block sets.)
        return all_(list(vs(st.placed_blocks))), []

    # ------------------------------------------------------------------ reference dynamics
    def _rotated(self, B, b, rot):
        """(3,3) V int: block `b` after `rot` clockwise quarter turns (b, rot symbolic)"""
        out = np.empty((3, 3), dtype=object)
        for i in range(3):
            for j in range(3):
                acc = None
                for k in range(4):
                    si, sj = _rot_src(k, i, j)
                    v = pick(B[:, si, sj], b, default=0)
                    acc = v if acc is None else where(rot == k, v, acc)
                out[i, j] = acc
        return out

    def _placement(self, st, act):
        n, R_, C_ = self.dims()
        g, B, a = vs(st.grid), vs(st.blocks), vs(act)
        RB = self._rotated(B, a[0], a[1])
        val = np.empty((R_, C_), dtype=object)       # the value the placed block writes into cell (y,x), 0 = none
        for y in range(R_):
            for x in range(C_):
                acc = X.const(0)
                for i in range(3):
                    for j in range(3):
                        if 0 <= y - i < R_ - 2 and 0 <= x - j < C_ - 2:
                            acc = where((a[2] == y - i) & (a[3] == x - j), RB[i, j], acc)
                val[y, x] = acc
        return RB, val

    def _is_block_dense(self):
        from jumanji.environments.packing.flat_pack.reward import BlockDenseReward
        return isinstance(self.env.reward_fn, BlockDenseReward)

    def _cell_band(self, cells):
        """CellDense reward for `cells` newly filled cells (V int in 0..9) as a band [lo, hi] of float32: the documented value
        cells / (rows*cols) +- 1 ulp.  XLA compiles the division by the constant grid size into a multiplication by its
        float32 reciprocal, so the jitted step returns e.g. 0.19999999 instead of 0.2 for 5/25 (measured: exactly 1 ulp low for
        5/25, 9/25); the encoding evaluates the jaxpr's `div` exactly, hence DIFF_ULPS = 1 and a +-1 ulp claim."""
        n, R_, C_ = self.dims()
        q = [F32(k) / F32(R_ * C_) for k in range(10)]
        lo = np.array([V(np.nextafter(x, F32(-np.inf), dtype=F32) if k else F32(0.0), F32) for k, x in enumerate(q)], dtype=object)
        hi = np.array([V(np.nextafter(x, F32(np.inf), dtype=F32) if k else F32(0.0), F32) for k, x in enumerate(q)], dtype=object)
        return pick(lo, cells, default=lo[9]), pick(hi, cells, default=hi[9])

    def _reward(self, legal, RB):
        """-> ("reward", V) exact for BlockDense, ("reward_range", (lo, hi)) for CellDense"""
        n, R_, C_ = self.dims()
        if self._is_block_dense():
            return "reward", where(legal, V(F32(1.0), F32) / F32(n), F32(0.0), F32)
        cells = where(legal, count([x != 0 for x in RB.reshape(-1)]), 0)
        return "reward_range", self._cell_band(cells)

    def ref_step(self, st, act):
        n, R_, C_ = self.dims()
        g, pl, a = vs(st.grid), vs(st.placed_blocks), vs(act)
        legal = self.action_legal(st, act)[0]
        RB, val = self._placement(st, act)
        ng = np.empty((R_, C_), dtype=object)
        for p in np.ndindex(R_, C_):
            ng[p] = where(legal & (val[p] != 0), val[p], g[p])
        npl = X.put(pl, a[0], X.TRUE, cond=legal)
        sc1 = vs(st.step_count) + 1
        rk, rv = self._reward(legal, RB)
        return {"grid": ng, "blocks": vs(st.blocks), "placed_blocks": npl, "step_count": sc1, "num_blocks": vs(st.num_blocks),
                "key": vs(st.key), rk: rv, "last": self._last_rule(sc1, npl)}

    def reward_law(self, st, act, ns, ts, legal):
        """telescoping: reward == Phi(S') - Phi(S) with Phi = filled cells / grid cells (CellDense) resp. placed blocks /
        num_blocks (BlockDense), the difference taken on the integer counts (exact), recomputed from the raw arrays"""
        n, R_, C_ = self.dims()
        g0, g1, p0, p1 = vs(st.grid), vs(ns.grid), vs(st.placed_blocks), vs(ns.placed_blocks)
        if self._is_block_dense():
            newly = count([(~a) & b for a, b in zip(p0, p1)])
            return [("no block is un-placed", all_([a.implies(b) for a, b in zip(p0, p1)])),
                    ("reward == (blocks placed this step) / num_blocks", vs(ts.reward) == newly.astype(F32) / F32(n))]
        newly = count([(a == 0) & (b != 0) for a, b in zip(g0.reshape(-1), g1.reshape(-1))])
        lo, hi = self._cell_band(newly)
        r = vs(ts.reward)
        return [("no filled cell is emptied", all_([(a != 0).implies(b != 0) for a, b in zip(g0.reshape(-1), g1.reshape(-1))])),
                ("at most 9 cells are filled per step", newly <= 9),
                ("reward == (cells filled this step) / (grid cells) within 1 float32 ulp", (r >= lo) & (r <= hi))]

    def measure(self, st):
        return vs(st.step_count), self.dims()[0]

    def observer(self, ns):
        return {"grid": vs(ns.grid), "blocks": vs(ns.blocks), "action_mask": self.mask_rule(ns)}


FlatPackH.REWARD_VARIANTS = FlatPackH._variants()
FlatPackH.REF_REWARD_VARIANTS = True

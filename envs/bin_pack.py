"""BinPack harness (bounded unrolling from a hand-built symbolic instance).

Rules (docs/environments/bin_pack.md, class/step docstrings): items are boxes, the agent sees the `obs_num_ems` largest
empty maximal spaces (EMS; by volume, inactive slots count as volume 0, ties in buffer order = stable descending sort).
Action (e, i) = place item i in the bottom-left corner of observed EMS e.  Legal iff item i is a real item, not yet
placed, observed EMS e is active and the item fits in it along every axis.  Illegal: the state is not updated, the
episode terminates, extras.invalid_action is set; dense reward 0, sparse reward = current utilisation.  Legal: dense
reward = item volume / container volume, sparse = [LAST] * utilisation.  Ends when no action can be performed.
EMS (class docstring): live inside the container and intersect no item.

Why BMC: the EMS bookkeeping (delete intersected EMSs, add the six hyperplane cuts minus included ones) has no invariant
shorter than the code.  RESET_INV=False: RandomGenerator's nested data-dependent loops cannot be encoded (DESIGN C10:
> 20 GB); `bmc_init` builds every instance of the generator's output FORMAT instead (container, one active EMS = the
container, arbitrary item sizes 0..dims with real items >= 1, arbitrary items_mask) through the generator's own
`_unpack_items` and the environment's own reset body.  Not claimed: that the EMS set is maximal/covers all free space."""
import numpy as np

from engine import sym as S
from engine import vexpr as X
from engine.jx2smt import SV
from engine.vexpr import V, vs, where, all_, any_, pick, put, count, sum_
from envs.base import Harness, register

F32 = np.float32
EMS_F = ("x1", "x2", "y1", "y2", "z1", "z2")


def _sparse():
    from jumanji.environments.packing.bin_pack.reward import SparseReward
    return SparseReward()


@register
class BinPackH(Harness):
    ENV = "BinPack"
    QUICK = ["BinPack@3x5x4x3x2x2", "BinPack@3x5x4x3x1x2"]     # 2nd: pairwise different container dimensions (3, 1, 2): an axis mix-up (y vs z) is invisible when width == height
    C01_EXTRA = ["BinPack@2x4x3x2x2x3"]     # container 2 x 2 x 3 (height > width), 2 items, 4 EMS slots: a coordinate normalised by the wrong dimension leaves [0, 1]
    THOROUGH = ["BinPack@3x4x4x3x2x2", "BinPack@2x5x4x3x3x2"]
    INVALID = "terminate"
    BMC = True
    BMC_EMITTED = True
    BMC_DEPTH = {"quick": 2, "thorough": 2}     # depth 3 measured: > 3000 s per job even on the 3x2x2 container
    RESET_INV = False
    MULTI_DISCRETE = True
    REWARD_VARIANTS = [{}, {"reward_fn": _sparse()}]
    REF_REWARD_VARIANTS = True   # ref_step follows the configured reward function (C09 runs the variants too)
    OBS_VARIANTS = [{}, {"normalize_dimensions": False}, {"obs_num_ems": "all"}]   # "all": obs_num_ems == max_num_ems

    def __init__(self, cfg, **over):
        if over.get("obs_num_ems") == "all":
            from envs import configs
            over = dict(over, obs_num_ems=configs.make(cfg).generator.max_num_ems)
        super().__init__(cfg, **over)

    def dims(self):
        g = self.env.generator
        return g.max_num_items, g.max_num_ems, self.env.obs_num_ems, tuple(int(d) for d in g.container_dims)

    def sparse(self):
        return type(self.env.reward_fn).__name__ == "SparseReward"

    # ------------------------------------------------------------------ symbolic instance
    def bmc_init(self, ctx):
        import jax.numpy as jnp
        from jumanji.environments.packing.bin_pack.generator import make_container
        from jumanji.environments.packing.bin_pack.types import Item, Location, State, empty_ems
        from jumanji.tree_utils import tree_transpose
        NI, NE, NO, (CX, CY, CZ) = self.dims()
        env, gen = self.env, self.env.generator
        xl = ctx.fresh_arr("I.items.x_len", (NI,), np.int32, 0, CX)
        yl = ctx.fresh_arr("I.items.y_len", (NI,), np.int32, 0, CY)
        zl = ctx.fresh_arr("I.items.z_len", (NI,), np.int32, 0, CZ)
        im = ctx.fresh_arr("I.items_mask", (NI,), np.bool_)
        key = ctx.fresh_arr("I.key", (2,), np.uint32)
        a, b, c, m = vs(xl), vs(yl), vs(zl), vs(im)
        pre = [any_(list(m)).z()]                                            # at least one real item
        for i in range(NI):
            pre.append(m[i].implies((a[i] >= 1) & (b[i] >= 1) & (c[i] >= 1)).z())   # real items are non-empty boxes

        class Swap:
            """stands in for the generator during the traced reset: returns the symbolic instance, delegates the rest"""
            def __init__(self, st):
                self.st = st

            def __call__(self, k):
                return self.st

            def __getattr__(self, n):
                return getattr(gen, n)

        def reset_on(xl_, yl_, zl_, im_, key_):
            container = make_container(gen.container_dims)
            ems = tree_transpose([container] + (NE - 1) * [empty_ems()])
            z = jnp.zeros(NI, jnp.int32)
            solution = State(container=container, ems=ems, ems_mask=jnp.zeros(NE, bool), items=Item(xl_, yl_, zl_), items_mask=im_,
                             items_placed=im_, items_location=Location(z, z, z), action_mask=None,
                             sorted_ems_indexes=jnp.arange(0, NE, dtype=jnp.int32), key=key_)
            st = gen._unpack_items(solution)          # the generator's own "start of episode" post-processing
            env.generator = Swap(st)
            try:
                return env.reset(key_)                # the environment's own reset body
            finally:
                env.generator = gen
        st0, ts0 = S.call(ctx, reset_on, xl, yl, zl, im, key)
        self._ts0 = ts0
        return st0, pre

    def bmc_first_timestep(self, ctx, st0):
        return self._ts0

    # ------------------------------------------------------------------ raw-array helpers
    def _e(self, st):
        return {f: vs(getattr(st.ems, f)) for f in EMS_F}

    def _it(self, st):
        return vs(st.items.x_len), vs(st.items.y_len), vs(st.items.z_len)

    def _ranks(self, st):
        """rank[k] = position of EMS slot k in the descending-by-volume stable order (inactive slots have volume 0)"""
        NI, NE, NO, C = self.dims()
        e, em = self._e(st), vs(st.ems_mask)
        vol = [where(em[k], (e["x2"][k] - e["x1"][k]) * (e["y2"][k] - e["y1"][k]) * (e["z2"][k] - e["z1"][k]), 0) for k in range(NE)]
        return [count([(vol[j] > vol[k]) | ((vol[j] == vol[k]) & (j < k)) for j in range(NE) if j != k]) for k in range(NE)]

    def _observed(self, st):
        """({field: (NO,) array}, mask (NO,)) of the obs_num_ems largest EMSs"""
        NI, NE, NO, C = self.dims()
        e, em, rk = self._e(st), vs(st.ems_mask), self._ranks(st)
        out = {f: np.empty((NO,), dtype=object) for f in EMS_F}
        om = np.empty((NO,), dtype=object)
        for o in range(NO):
            for f in EMS_F:
                acc = X.const(0)
                for k in range(NE):
                    acc = where(rk[k] == o, e[f][k], acc)
                out[f][o] = acc
            om[o] = any_([(rk[k] == o) & em[k] for k in range(NE)])
        return out, om

    def _vol_placed(self, st):
        xl, yl, zl = self._it(st)
        pl = vs(st.items_placed)
        return sum_([where(pl[i], xl[i] * yl[i] * zl[i], 0) for i in range(len(pl))])

    def _cvol(self):
        NI, NE, NO, (CX, CY, CZ) = self.dims()
        return F32(CX * CY * CZ)

    # ------------------------------------------------------------------ legality
    def mask_rule(self, st):
        NI, NE, NO, C = self.dims()
        xl, yl, zl = self._it(st)
        im, pl = vs(st.items_mask), vs(st.items_placed)
        oe, om = self._observed(st)
        out = np.empty((NO, NI), dtype=object)
        for o in range(NO):
            for i in range(NI):
                fits = (xl[i] <= oe["x2"][o] - oe["x1"][o]) & (yl[i] <= oe["y2"][o] - oe["y1"][o]) & (zl[i] <= oe["z2"][o] - oe["z1"][o])
                out[o, i] = im[i] & ~pl[i] & om[o] & fits
        return out

    def action_legal(self, st, act):
        a = vs(act)
        return [pick(self.mask_rule(st), a[0], a[1])]

    def treated_invalid(self, st, act, ns, ts):
        # documented flag (step docstring): extras.invalid_action
        return [vs(ts.extras["invalid_action"])]

    def _untouched(self, st, ns):
        ob = [("items_placed", X.same(ns.items_placed, st.items_placed)), ("ems_mask", X.same(ns.ems_mask, st.ems_mask)),
              ("items_mask", X.same(ns.items_mask, st.items_mask))]
        ob += [(f"ems.{f}", X.same(getattr(ns.ems, f), getattr(st.ems, f))) for f in EMS_F]
        ob += [(f"container.{f}", X.same(getattr(ns.container, f), getattr(st.container, f))) for f in EMS_F]
        ob += [(f"items.{f}", X.same(getattr(ns.items, f), getattr(st.items, f))) for f in ("x_len", "y_len", "z_len")]
        ob += [(f"items_location.{f}", X.same(getattr(ns.items_location, f), getattr(st.items_location, f))) for f in ("x", "y", "z")]
        return ob

    def illegal_effect(self, st, act, ns, ts, bad):
        b = bad[0]
        ob = [("illegal => LAST", b.implies(vs(ts.step_type) == 2)),
              ("illegal => extras.invalid_action", b.implies(vs(ts.extras["invalid_action"]))),
              ("illegal => discount == 0", b.implies(vs(ts.discount) == F32(0.0)))]
        if self.sparse():
            ob.append(("illegal => sparse reward == current utilisation (placed volume / container volume)",
                       b.implies(vs(ts.reward) == self._vol_placed(st).astype(F32) / self._cvol())))
        else:
            ob.append(("illegal => dense reward == 0", b.implies(vs(ts.reward) == F32(0.0))))
        ob += [(f"illegal => state not updated: {n}", b.implies(v)) for n, v in self._untouched(st, ns)]
        return ob

    # ------------------------------------------------------------------ C06
    def _boxes(self, st):
        xl, yl, zl = self._it(st)
        lx, ly, lz = vs(st.items_location.x), vs(st.items_location.y), vs(st.items_location.z)
        return [((lx[i], lx[i] + xl[i]), (ly[i], ly[i] + yl[i]), (lz[i], lz[i] + zl[i])) for i in range(len(xl))]

    def constraints(self, st):
        """grouped (every query on a twice-unrolled successor costs >= 30 s whatever its size)"""
        NI, NE, NO, C = self.dims()
        pl, im = vs(st.items_placed), vs(st.items_mask)
        bx = self._boxes(st)
        inside = [pl[i].implies(all_([(bx[i][d][0] >= 0) & (bx[i][d][1] <= C[d]) for d in range(3)])) for i in range(NI)]
        apart = [(pl[i] & pl[j]).implies(any_([(bx[i][d][1] <= bx[j][d][0]) | (bx[j][d][1] <= bx[i][d][0]) for d in range(3)]))
                 for i in range(NI) for j in range(i)]
        ob = [("placed items are real items, lie inside the container and are pairwise disjoint (from items_location + items)",
               all_([pl[i].implies(im[i]) for i in range(NI)] + inside + apart))]
        # EMS definition (class docstring): inside the container, non-empty, intersecting no placed item
        e, em = self._e(st), vs(st.ems_mask)
        boxes, free = [], []
        for k in range(NE):
            lo = (e["x1"][k], e["y1"][k], e["z1"][k])
            hi = (e["x2"][k], e["y2"][k], e["z2"][k])
            boxes.append(em[k].implies(all_([(lo[d] >= 0) & (lo[d] < hi[d]) & (hi[d] <= C[d]) for d in range(3)])))
            free.append(em[k].implies(all_([pl[i].implies(any_([(hi[d] <= bx[i][d][0]) | (bx[i][d][1] <= lo[d]) for d in range(3)])) for i in range(NI)])))
        ob.append(("every active EMS is a non-empty box inside the container", all_(boxes)))
        ob.append(("no active EMS intersects a placed item", all_(free)))
        return ob

    def complete(self, st, ts):
        # the environment ends the episode without flagging an invalid action: "no action can be performed".  With
        # obs_num_ems < max_num_ems this means no action on an OBSERVED EMS (the action space has no other).
        done = ~vs(ts.extras["invalid_action"])
        ob = [("no action of the action space is legal any more", all_([~x for x in self.mask_rule(st).reshape(-1)]))]
        return done, ob          # (the constraints themselves are the C(S') obligations of the same step)

    # ------------------------------------------------------------------ C08
    def reward_law(self, st, act, ns, ts, legal):
        r, last = vs(ts.reward), vs(ts.step_type) == 2
        dv = (self._vol_placed(ns) - self._vol_placed(st)).astype(F32)
        a = vs(act)
        xl, yl, zl = self._it(st)
        item_vol = pick(np.array([xl[i] * yl[i] * zl[i] for i in range(len(xl))], dtype=object), a[1])
        if self.sparse():
            return [("sparse: reward == [LAST] * placed volume(S') / container volume",
                     r == where(last, self._vol_placed(ns).astype(F32) / self._cvol(), F32(0.0), F32))]
        # documented metrics in timestep.extras (reset/step docstrings), recomputed from the raw arrays of S'
        pl1, im1, em1 = vs(ns.items_placed), vs(ns.items_mask), vs(ns.ems_mask)
        npl = count(list(pl1))
        ex = ts.extras
        metrics = [("extras.volume_utilization == placed volume(S') / container volume", vs(ex["volume_utilization"]) == self._vol_placed(ns).astype(F32) / self._cvol()),
                   ("extras.packed_items == number of placed items", vs(ex["packed_items"]) == npl),
                   ("extras.ratio_packed_items == placed items / real items", vs(ex["ratio_packed_items"]) == npl.astype(F32) / count(list(im1)).astype(F32)),
                   ("extras.active_ems == number of active EMSs", vs(ex["active_ems"]) == count(list(em1)))]
        return [("dense: reward == (placed volume(S') - placed volume(S)) / container volume  (= Phi(S') - Phi(S))", r == dv / self._cvol()),
                ("dense, legal: the increase is the chosen item's volume", legal.implies(r == item_vol.astype(F32) / self._cvol())),
                ("dense, illegal: reward == 0", (~legal).implies(r == F32(0.0)))] + metrics

    # ------------------------------------------------------------------ C09 (partial reference: everything but the EMS buffer)
    def ref_step(self, st, act):
        NI, NE, NO, C = self.dims()
        a = vs(act)
        legal = self.action_legal(st, act)[0]
        oe, om = self._observed(st)
        cx, cy, cz = pick(oe["x1"], a[0]), pick(oe["y1"], a[0]), pick(oe["z1"], a[0])      # bottom-left corner of the chosen EMS
        xl, yl, zl = self._it(st)
        ref = {"items_placed": put(vs(st.items_placed), a[1], X.TRUE, cond=legal),
               "items_location.x": put(vs(st.items_location.x), a[1], cx, cond=legal),
               "items_location.y": put(vs(st.items_location.y), a[1], cy, cond=legal),
               "items_location.z": put(vs(st.items_location.z), a[1], cz, cond=legal),
               "items.x_len": xl, "items.y_len": yl, "items.z_len": zl, "items_mask": vs(st.items_mask)}
        for f in EMS_F:
            ref["container." + f] = vs(getattr(st.container, f))
        if not self.sparse():
            vol = pick(np.array([xl[i] * yl[i] * zl[i] for i in range(NI)], dtype=object), a[1])
            ref["reward"] = where(legal, vol.astype(F32) / self._cvol(), F32(0.0), F32)
        return ref

    # EMS buffer: no re-implementation (it would be the code again); instead the documented laws of the update as obligations
    def _ems_laws(self, st, act, ns, ts):
        """legal placement of item i: B = the item's box at its new location.
        frame : an active EMS that does not intersect B stays active, unchanged, in its slot ("delete EMSs that intersect the
                new item"; new EMSs go to free slots; `Generator.max_num_ems`: "Any created ems that do not fit in the buffer
                will be ignored during the environment step")
        origin: every active EMS of S' is such a survivor or a cut of an intersected EMS of S by one face of B"""
        NI, NE, NO, C = self.dims()
        a = vs(act)
        legal = self.action_legal(st, act)[0]
        e0, m0, e1, m1 = self._e(st), vs(st.ems_mask), self._e(ns), vs(ns.ems_mask)
        bx = self._boxes(ns)
        B = [(pick(np.array([bx[i][d][0] for i in range(NI)], dtype=object), a[1]),
              pick(np.array([bx[i][d][1] for i in range(NI)], dtype=object), a[1])) for d in range(3)]
        lo = lambda e, k: (e["x1"][k], e["y1"][k], e["z1"][k])   # noqa
        hi = lambda e, k: (e["x2"][k], e["y2"][k], e["z2"][k])   # noqa
        hit = [all_([X.vmax(B[d][0], lo(e0, k)[d]) < X.vmin(B[d][1], hi(e0, k)[d]) for d in range(3)]) for k in range(NE)]
        same_slot = [all_([e1[f][k] == e0[f][k] for f in EMS_F]) for k in range(NE)]
        frame = all_([(m0[k] & ~hit[k]).implies(m1[k] & same_slot[k]) for k in range(NE)])
        origin = []
        for k in range(NE):
            cuts = []
            for j in range(NE):
                for d in range(3):
                    for side in (0, 1):
                        # lower cut: old EMS with its upper face moved to B's lower face; upper cut: lower face moved to B's upper face
                        eq = []
                        for dd in range(3):
                            l, h = lo(e0, j)[dd], hi(e0, j)[dd]
                            if dd == d:
                                l, h = (l, B[d][0]) if side == 0 else (B[d][1], h)
                            eq += [lo(e1, k)[dd] == l, hi(e1, k)[dd] == h]
                        cuts.append(m0[j] & hit[j] & all_(eq))
            origin.append(m1[k].implies((m0[k] & ~hit[k] & same_slot[k]) | any_(cuts)))
        return [("EMS frame: active EMSs that do not intersect the placed item keep their slot unchanged (no created EMS may displace them)",
                 legal.implies(frame)),
                ("EMS origin: every active EMS of S' is a survivor or a one-face cut of an EMS the item intersected", legal.implies(all_(origin)))]

    def kernels_c09(self, R):
        import jax
        import jax.numpy as jnp
        from checks import bmc
        from engine.jx2smt import Ctx
        from jumanji.environments.packing.bin_pack.space import Space
        NI, NE, NO, C = self.dims()
        env = self.env
        # (1) kernel: the buffer-overflow policy documented on Generator.max_num_ems, on the environment's own `_add_ems`
        ctx = Ctx(max_unroll=self.UNROLL)
        ax = {"x": 0, "y": 1, "z": 2}
        buf = Space(**{f: ctx.fresh_arr("K.ems." + f, (NE,), np.int32, 0, C[ax[f[0]]]) for f in EMS_F})
        new = Space(**{f: ctx.fresh_arr("K.new." + f, (NE,), np.int32, 0, C[ax[f[0]]]) for f in EMS_F})
        new_mask = ctx.fresh_arr("K.new_mask", (NE,), np.bool_)
        full = SV(np.ones((NE,), np.bool_), np.bool_)
        out, out_mask = S.call(ctx, env._add_ems, new, new_mask, buf, full, R=R, name="BinPack._add_ems")
        R.nvars += S.nvars(buf) + S.nvars(new) + S.nvars(new_mask)
        goal = all_([X.same(getattr(out, f), getattr(buf, f)) for f in EMS_F]) & all_(list(vs(out_mask)))

        def replay(model):
            b = {f: jnp.asarray(S.model_sv(model, getattr(buf, f))) for f in EMS_F}
            n = {f: jnp.asarray(S.model_sv(model, getattr(new, f))) for f in EMS_F}
            nm = jnp.asarray(S.model_sv(model, new_mask))
            o, om = jax.jit(env._add_ems)(Space(**n), nm, Space(**b), jnp.ones((NE,), bool))
            changed = any(not np.array_equal(np.asarray(getattr(o, f)), np.asarray(b[f])) for f in EMS_F) or not bool(np.all(np.asarray(om)))
            return changed, {"config": self.cfg, "kernel": "BinPack._add_ems", "full_buffer": {f: np.asarray(b[f]).tolist() for f in EMS_F},
                             "created_ems": {f: np.asarray(n[f]).tolist() for f in EMS_F}, "created_mask": np.asarray(nm).tolist(),
                             "buffer_after": {f: np.asarray(getattr(o, f)).tolist() for f in EMS_F}}
        # domain: a well-formed full buffer (non-empty boxes, none included in another) and well-formed created EMSs
        b, n, nm = {f: vs(getattr(buf, f)) for f in EMS_F}, {f: vs(getattr(new, f)) for f in EMS_F}, vs(new_mask)
        box = lambda e, k: all_([e[a + "1"][k] < e[a + "2"][k] for a in "xyz"])                                   # noqa
        inc = lambda e, k, g, j: all_([(e[a + "1"][k] >= g[a + "1"][j]) & (e[a + "2"][k] <= g[a + "2"][j]) for a in "xyz"])  # noqa
        dom = [box(b, k).z() for k in range(NE)] + [nm[k].implies(box(n, k)).z() for k in range(NE)]
        dom += [(~inc(b, k, b, j)).z() for k in range(NE) for j in range(NE) if j != k]
        A = list(ctx.assumptions) + dom
        R.bound(kernel="BinPack._add_ems", domain="full buffer of non-empty, mutually non-included boxes in the container; arbitrary created EMSs")
        R.reach("kernel _add_ems: full buffer and a created EMS", A, any_(list(nm)).z())
        R.prove("kernel _add_ems: created EMSs that do not fit in a full buffer are ignored (Generator.max_num_ems doc)",
                A, goal.term() if not goal.conc else bool(goal), replay=replay)
        # (2) the laws of the EMS update along real play from the symbolic instance
        bmc.run(R, self, self._ems_laws, prefix="EMS laws: ")

    # ------------------------------------------------------------------ C11 (no time limit)
    def measure(self, st):
        NI, NE, NO, C = self.dims()
        return count(list(vs(st.items_placed))), NI

    # ------------------------------------------------------------------ C12
    def observer(self, ns):
        NI, NE, NO, (CX, CY, CZ) = self.dims()
        oe, om = self._observed(ns)
        xl, yl, zl = self._it(ns)
        norm = self.env.normalize_dimensions
        div = {"x": F32(CX), "y": F32(CY), "z": F32(CZ)}

        def view(arr, axis):
            if not norm:
                return arr
            return np.array([v.astype(F32) / div[axis] for v in arr], dtype=object)
        out = {"ems." + f: view(oe[f], f[0]) for f in EMS_F}
        out.update({"ems_mask": om, "items.x_len": view(xl, "x"), "items.y_len": view(yl, "y"), "items.z_len": view(zl, "z"),
                    "items_mask": vs(ns.items_mask), "items_placed": vs(ns.items_placed), "action_mask": vs(ns.action_mask)})
        return out

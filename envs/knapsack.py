"""Knapsack harness.  Rules (docs/environments/knapsack.md + class docstring): the action is the item to pack; an item
is legal iff it is not packed yet and its weight is not larger than the remaining budget; packing subtracts the weight
from the remaining budget.  An illegal action ends the episode with reward 0 and leaves the state untouched; the episode
also ends when no item can be added any more.  Dense reward: the value of the packed item; sparse reward: the sum of the
values of the packed items on the last step (0 before, and 0 if the last action was invalid).

Legality is stated against the documented state field `remaining_budget` (float32, tracked by repeated subtraction); how
the comparison should round when `budget - sum(weights)` is within an ulp of the weight is not determined by the docs.

Configs: 'Knapsack@n' = weights, values, remaining_budget SYMBOLIC float32 (in [0,1], [0,1], [0,budget]); claims that need
float sums (total weight <= budget, sparse return) are not made there.  'Knapsack@n~k' = weights/values of the real reset
for PRNGKey(VERIF_SEED+k); 'Knapsack@5~c' = the instance of knapsack/conftest.py (5 items, budget 2.5).  There the
invariant is the exact set of (packed_items, remaining_budget) pairs reachable by legal play, enumerated with an
independent float32 model (and proved closed under the real step), so the budget constraint is checked in exact rational
arithmetic on reachable states only."""
import itertools
from fractions import Fraction

import numpy as np
import z3

from engine import jx2smt as J
from engine import sym as S
from engine import vexpr as X
from engine.jx2smt import SV
from engine.vexpr import V, vs, where, all_, any_, pick, count
from envs import _instances as I
from envs.base import Harness, register

F32 = np.float32
CONFTEST = {"weights": [0.1, 0.3, 0.5, 0.7, 0.9], "values": [0.3, 0.4, 0.5, 0.6, 0.7], "budget": 2.5}   # knapsack/conftest.py
VTOL = 1e-6   # float32 dot product of <= 6 values in [0,1] vs exact sum


def _sparse():
    from jumanji.environments.packing.knapsack.reward import SparseReward
    return SparseReward()


@register
class KnapsackH(Harness):
    ENV = "Knapsack"
    QUICK = ["Knapsack@4", "Knapsack@4~0", "Knapsack@4~1", "Knapsack@4~2", "Knapsack@4~3"]
    THOROUGH = ["Knapsack@6"] + [f"Knapsack@6~{k}" for k in range(8)] + ["Knapsack@5~c"]
    INVALID = "terminate"
    REWARD_VARIANTS = [{}, {"reward_fn": _sparse()}]
    REF_REWARD_VARIANTS = True   # ref_step follows the configured reward function (C09 runs the variants too)
    DIFF_ULPS = 4     # sparse reward: XLA dot vs sequential float32 sum of the encoding

    def __init__(self, cfg, **over):
        base_cfg, self.inst = I.split_cfg(cfg)
        if self.inst == "c":
            from jumanji import environments as E
            from jumanji.environments.packing.knapsack.generator import RandomGenerator
            self.cfg, self.over = cfg, dict(over)
            self.env = E.Knapsack(generator=RandomGenerator(num_items=5, total_budget=CONFTEST["budget"]), **over)
            self.T = None
        else:
            super().__init__(base_cfg, **over)
            self.cfg = cfg
        e = self.env
        self.n, self.B = e.num_items, F32(e.total_budget)
        self.sparse = type(e.reward_fn).__name__ == "SparseReward"
        self.RESET_INV = self.inst is None        # reset is instance independent: proved once in the symbolic config
        if self.inst is None:
            self.w = self.v = None
        elif self.inst == "c":
            self.w, self.v = np.asarray(CONFTEST["weights"], F32), np.asarray(CONFTEST["values"], F32)
        else:
            st = I.reset_state(e, self.inst)
            self.w, self.v = np.asarray(st.weights, F32), np.asarray(st.values, F32)
        if self.w is not None:
            self.reach = self._enumerate()
            # C06's two-step emitted-mask play needs an instance on which two items can be packed at all
            self.TWO_STEP = any(sum(pt) >= 2 for pt in self.reach)

    def _enumerate(self):
        """independent float32 model of legal play: {packed tuple: set of reachable remaining budgets}"""
        n, w = self.n, self.w
        reach = {}
        todo = [((False,) * n, F32(self.B))]
        while todo:
            p, rb = todo.pop()
            if rb.tobytes() in {x.tobytes() for x in reach.get(p, [])}:
                continue
            reach.setdefault(p, []).append(rb)
            for i in range(n):
                if not p[i] and w[i] <= rb:
                    todo.append((p[:i] + (True,) + p[i + 1:], F32(rb - w[i])))
        return reach

    # ------------------------------------------------------------------ pre-state
    def sym_state(self, ctx, tag="S"):
        from jumanji.environments.packing.knapsack.types import State
        n = self.n
        pre = []
        rb = ctx.fresh_arr(tag + ".remaining_budget", (), F32)
        if self.w is None:
            w = ctx.fresh_arr(tag + ".weights", (n,), F32)
            v = ctx.fresh_arr(tag + ".values", (n,), F32)
            pre += [S.fp_in(x, 0.0, 1.0, tiny=2.0 ** -24) for x in list(w.a.reshape(-1)) + list(v.a.reshape(-1))]
            pre.append(S.fp_in(rb.a[()], 0.0, float(self.B), tiny=2.0 ** -24))
            # declared domain: zero or normal numbers.  XLA:CPU flushes subnormal operands/results to zero while the
            # encoding is IEEE-754 with gradual underflow (a subnormal weight is 'free' on the real code); subnormals
            # cannot come out of jax.random.uniform (its outputs are multiples of 2^-23).
            pre += [z3.Or(z3.fpIsZero(x), z3.fpIsNormal(x)) for x in list(w.a.reshape(-1)) + list(v.a.reshape(-1)) + [rb.a[()]]]
        else:
            w, v = SV(self.w, F32), SV(self.v, F32)
            vals = sorted({float(x) for xs in self.reach.values() for x in xs})
            x = rb.a[()]
            pre.append(z3.Or([x == z3.FPVal(val, J.F32) for val in vals]))
            J.vs_set(x, [F32(val) for val in vals])          # no-op beyond 64 distinct values
        packed = ctx.fresh_arr(tag + ".packed_items", (n,), np.bool_)
        key = ctx.fresh_arr(tag + ".key", (2,), np.uint32)
        return State(weights=w, values=v, packed_items=packed, remaining_budget=rb, key=key), pre

    def inv(self, st, ctx=None):
        n = self.n
        w, v, p, rb = vs(st.weights), vs(st.values), vs(st.packed_items), vs(st.remaining_budget)
        ob = [("weights and values in [0, 1]", all_([(x >= F32(0)) & (x <= F32(1)) for x in list(w) + list(v)])),
              ("0 <= remaining_budget <= total_budget", (rb >= F32(0)) & (rb <= self.B))]
        if self.w is not None:
            cases = []
            for pt, rbs in self.reach.items():
                cases.append(all_([p[i] if pt[i] else ~p[i] for i in range(n)]) & any_([rb == x for x in rbs]))
            ob.append(("(packed_items, remaining_budget) is reachable by legal play from the empty knapsack (independent float32 enumeration)", any_(cases)))
        ob += self.constraints(st)
        return ob

    # ------------------------------------------------------------------ rules
    def mask_rule(self, st):
        w, p, rb = vs(st.weights), vs(st.packed_items), vs(st.remaining_budget)
        return np.array([(~p[i]) & (w[i] <= rb) for i in range(self.n)], dtype=object)

    def treated_invalid(self, st, act, ns, ts):
        return [(vs(ts.step_type) == 2) & (vs(ts.reward) == F32(0)) & X.same(st.packed_items, ns.packed_items)]

    def illegal_effect(self, st, act, ns, ts, bad):
        b = bad[0]
        ob = [("illegal => LAST", b.implies(vs(ts.step_type) == 2)),
              ("illegal => reward == 0", b.implies(vs(ts.reward) == F32(0)))]
        for f in ("weights", "values", "packed_items", "remaining_budget", "key"):
            ob.append((f"illegal => state.{f} untouched", b.implies(X.same(getattr(st, f), getattr(ns, f)))))
        return ob

    # ------------------------------------------------------------------ C06
    def _subset_table(self, p, fn, dt):
        """ITE over all subsets of packed_items -> V of fn(subset tuple)"""
        n = self.n
        res = None
        for pt in itertools.product([False, True], repeat=n):
            val = fn(pt)
            val = V(val, dt)
            if res is None:
                res = val
                continue
            c = all_([p[i] if pt[i] else ~p[i] for i in range(n)])
            res = where(c, val, res, dt)
        return res

    def constraints(self, st):
        p, rb = vs(st.packed_items), vs(st.remaining_budget)
        ob = [("remaining_budget >= 0", rb >= F32(0))]
        if self.w is not None:
            wq = [Fraction(float(x)) for x in self.w]
            Bq = Fraction(float(self.B))
            ob.append(("total weight of the packed items <= total_budget (exact rational arithmetic on the float32 weights)",
                       self._subset_table(p, lambda pt: bool(sum((wq[i] for i in range(self.n) if pt[i]), Fraction(0)) <= Bq), X.BOOL)))
        return ob

    def complete(self, st, ts):
        done = ~any_(list(self.mask_rule(st)))          # no item can be added any more
        return done, self.constraints(st)

    # ------------------------------------------------------------------ C08
    def _value_band(self, p):
        vq = [Fraction(float(x)) for x in self.v]
        tot = lambda pt: float(sum((vq[i] for i in range(self.n) if pt[i]), Fraction(0)))  # noqa
        lo = self._subset_table(p, lambda pt: I.band(tot(pt), VTOL)[0], F32)
        hi = self._subset_table(p, lambda pt: I.band(tot(pt), VTOL)[1], F32)
        return lo, hi

    def reward_law(self, st, act, ns, ts, legal):
        r, a, v = vs(ts.reward), vs(act), vs(st.values)
        zero = r == F32(0)
        ob = [("illegal action: reward == 0", (~legal).implies(zero))]
        last = vs(ts.step_type) == 2
        if not self.sparse:
            # Phi = sum of the values of the packed items; Phi(S') - Phi(S) is exactly the value of the item packed
            ob.append(("dense, legal: reward == value of the packed item", legal.implies(r == pick(v, a, default=I.fconst(-1)))))
            return ob
        ob.append(("sparse, legal, episode continues: reward == 0", (legal & ~last).implies(zero)))
        if self.w is not None:
            lo, hi = self._value_band(vs(ns.packed_items))
            ob.append(("sparse, legal, LAST: reward == sum of the values of the packed items (within 1e-6)", (legal & last).implies(I.within(r, lo, hi))))
        return ob

    # ------------------------------------------------------------------ C09
    def _sel(self, arr, a):
        """arr[a] for an in-spec action, written as the ITE chain  a >= n-1 ? arr[n-1] : ... : a == 1 ? arr[1] : arr[0]
        (= XLA's clamped indexing; identical to plain indexing for 0 <= a < n).  With symbolic float weights this makes
        the reference's `remaining_budget - weights[a]` the same term as the encoding's, so that no equivalence of two
        float subtracters has to be proved by bit-blasting (65 s / unknown otherwise)."""
        n = self.n
        res = arr[0]
        for k in range(1, n - 1):
            res = where(a == k, arr[k], res, arr[0].dt)
        return where(a >= n - 1, arr[n - 1], res, arr[0].dt)

    def ref_step(self, st, act):
        n = self.n
        w, v, p, rb, a = vs(st.weights), vs(st.values), vs(st.packed_items), vs(st.remaining_budget), vs(act)
        legal = self.action_legal(st, act)[0]
        np_ = np.array([where(legal & (a == i), True, p[i], X.BOOL) for i in range(n)], dtype=object)
        nrb = where(legal, rb - self._sel(w, a), rb, F32)
        fits = any_([(~np_[i]) & (w[i] <= nrb) for i in range(n)])
        last = (~legal) | ~fits
        ref = {"weights": w, "values": v, "packed_items": np_, "remaining_budget": nrb, "last": last}
        if not self.sparse:
            ref["reward"] = where(legal, pick(v, a, default=I.fconst(-1)), I.fconst(0), F32)
        elif self.w is not None:
            lo, hi = self._value_band(np_)
            z = I.fconst(0)
            ref["reward_range"] = (where(legal & last, lo, z, F32), where(legal & last, hi, z, F32))
        return ref

    # ------------------------------------------------------------------ C11 / C12
    def measure(self, st):
        return count(list(vs(st.packed_items))), self.n

    def observer(self, ns):
        return {"weights": vs(ns.weights), "values": vs(ns.values), "packed_items": vs(ns.packed_items), "action_mask": self.mask_rule(ns)}

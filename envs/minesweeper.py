"""Minesweeper harness.  Rules (docs/environments/minesweeper.md + class docstring): the action (row, col) explores one
square; the board shows -1 for an unexplored square, otherwise the number of mines in the 8 adjacent squares; only the
chosen square is revealed (no flood fill).  A square is a valid action iff it is unexplored.  Reward +1 for exploring a
new square that is not a mine, 0 otherwise; the episode ends when a mine or an already explored square is selected, or
when every non-mined square is explored.  `flat_mine_locations` (row-major cell ids) never changes during an episode."""
import numpy as np

from engine import sym as S
from engine import vexpr as X
from engine.jx2smt import SV
from engine.vexpr import V, vs, where, all_, any_, pick, put, count
from envs.base import Harness, register


@register
class MinesweeperH(Harness):
    ENV = "Minesweeper"
    QUICK = ["Minesweeper@3x4x3", "Minesweeper@2x3x1"]
    THOROUGH = ["Minesweeper@4x4x4", "Minesweeper@2x5x4"]
    INVALID = "terminate"
    REF_REWARD_VARIANTS = True   # ref_step / illegal_effect follow the constants of the variant (C05, C08, C09 run the variants)

    @staticmethod
    def _custom_rewards():
        # non-default DefaultRewardFn(revealed_empty_square_reward, revealed_mine_reward, invalid_action_reward): three DIFFERENT non-zero
        # constants (the defaults 1/0/0 cannot tell the mine reward from the invalid-action reward).  The intended constants travel on
        # the object under a harness-private name: the oracle never reads them back from the attributes the code under test assigns.
        from jumanji.environments.logic.minesweeper.reward import DefaultRewardFn
        fn = DefaultRewardFn(2.0, -10.0, -3.0)
        fn._verif_consts = (2.0, -10.0, -3.0)
        return fn

    def rw(self):
        c = getattr(self.over.get("reward_function"), "_verif_consts", (1.0, 0.0, 0.0))
        return tuple(np.float32(x) for x in c)
    MULTI_DISCRETE = True      # mask (rows, cols), action (2,) = one cell (not two agents)

    def dims(self):
        e = self.env
        return e.num_rows, e.num_cols, e.num_mines

    # ------------------------------------------------------------------ independent pieces of the rules
    def _is_mine(self, locs, r, c):
        """cell (r, c) (python ints or V) holds a mine; locs = object array of V"""
        R_, C_, M_ = self.dims()
        return any_([m == r * C_ + c for m in locs])

    def _adjacent(self, locs, r, c):
        """number of mines in the (up to) 8 neighbours of the concrete cell (r, c)"""
        R_, C_, M_ = self.dims()
        nb = [(r + dr, c + dc) for dr in (-1, 0, 1) for dc in (-1, 0, 1) if (dr or dc) and 0 <= r + dr < R_ and 0 <= c + dc < C_]
        return count([self._is_mine(locs, i, j) for i, j in nb])

    def _tables(self, st):
        R_, C_, M_ = self.dims()
        locs = vs(st.flat_mine_locations)
        mine = np.empty((R_, C_), dtype=object)
        adj = np.empty((R_, C_), dtype=object)
        for r in range(R_):
            for c in range(C_):
                mine[r, c] = self._is_mine(locs, r, c)
                adj[r, c] = self._adjacent(locs, r, c)
        return mine, adj

    def _explored_safe(self, st):
        b = vs(st.board)
        mine, _ = self._tables(st)
        return count([(b[i] >= 0) & ~mine[i] for i in np.ndindex(*b.shape)])

    # ------------------------------------------------------------------ state
    def sym_state(self, ctx, tag="S"):
        from jumanji.environments.logic.minesweeper.types import State
        R_, C_, M_ = self.dims()
        board = ctx.fresh_arr(tag + ".board", (R_, C_), np.int32, -1, 8)
        locs = ctx.fresh_arr(tag + ".mines", (M_,), np.int32, 0, R_ * C_ - 1)
        step = ctx.fresh_arr(tag + ".step_count", (), np.int32, 0, R_ * C_ - M_)
        key = ctx.fresh_arr(tag + ".key", (2,), np.uint32)
        return State(board=board, step_count=step, flat_mine_locations=locs, key=key), []

    def inv(self, st, ctx=None):
        """reachable NON-TERMINAL states (Inv is only re-established on non-LAST successors): no mine has been explored and the
        board is not solved yet."""
        R_, C_, M_ = self.dims()
        b, locs = vs(st.board), vs(st.flat_mine_locations)
        mine, adj = self._tables(st)
        cells = list(np.ndindex(R_, C_))
        ob = [("mine locations inside the board", all_([(m >= 0) & (m < R_ * C_) for m in locs])),
              ("mine locations pairwise distinct (exactly num_mines mines)", all_([locs[i] != locs[j] for i in range(M_) for j in range(i)]))]
        for (r, c) in cells:
            ob.append((f"cell({r},{c}): unexplored (-1) or explored, not a mine, showing its true adjacent-mine count",
                       (b[r, c] == -1) | ((b[r, c] == adj[r, c]) & ~mine[r, c])))
        explored = count([b[i] >= 0 for i in cells])
        ob.append(("step_count == number of explored squares", vs(st.step_count) == explored))
        ob.append(("board not solved yet (some non-mined square unexplored)", any_([(b[i] == -1) & ~mine[i] for i in cells])))
        return ob

    # ------------------------------------------------------------------ rules
    def mask_rule(self, st):
        b = vs(st.board)
        out = np.empty(b.shape, dtype=object)
        for i in np.ndindex(*b.shape):
            out[i] = b[i] == -1
        return out

    def _hit(self, st, act):
        a = vs(act)
        return self._is_mine(vs(st.flat_mine_locations), a[0], a[1])

    def treated_invalid(self, st, act, ns, ts):
        # documented reaction to an already explored square: episode ends with the invalid-action reward (0); what tells it
        # apart from a mine hit (also LAST, 0) is that nothing new is revealed
        return [(vs(ts.step_type) == 2) & (vs(ts.reward) == self.rw()[2]) & X.eq_arr(vs(ns.board), vs(st.board))]

    def illegal_effect(self, st, act, ns, ts, bad):
        b = bad[0]
        return [("explored square selected => LAST", b.implies(vs(ts.step_type) == 2)),
                ("explored square selected => reward == invalid_action_reward (default 0)", b.implies(vs(ts.reward) == self.rw()[2])),
                ("explored square selected => board unchanged (the square keeps its number, nothing else is revealed)",
                 b.implies(X.same(ns.board, st.board))),
                ("explored square selected => mines untouched", b.implies(X.same(ns.flat_mine_locations, st.flat_mine_locations)))]

    def conserve(self, st, act, ns, ts):
        R_, C_, M_ = self.dims()
        b0, b1, a = vs(st.board), vs(ns.board), vs(act)
        _, adj = self._tables(st)
        ob = [("mines conserved: flat_mine_locations unchanged", X.same(ns.flat_mine_locations, st.flat_mine_locations))]
        for r in range(R_):
            for c in range(C_):
                chosen = (a[0] == r) & (a[1] == c)
                ob.append((f"cell({r},{c}): only the chosen square is revealed, with its true adjacent-mine count",
                           where(chosen, b1[r, c] == adj[r, c], b1[r, c] == b0[r, c], X.BOOL)))
        return ob

    def reward_law(self, st, act, ns, ts, legal):
        # Phi = number of explored squares that are not mines (the documented objective: +1 per safe square revealed)
        r0, r1, r2 = self.rw()
        hit = self._hit(st, act)
        ob = [("reward == revealed_empty_square_reward / revealed_mine_reward / invalid_action_reward by the documented case (defaults 1/0/0)",
               vs(ts.reward) == where(legal & ~hit, r0, where(legal & hit, r1, r2, np.float32), np.float32))]
        if (float(r0), float(r1), float(r2)) == (1.0, 0.0, 0.0):
            # Phi = number of explored squares that are not mines (the documented objective: +1 per safe square revealed)
            ob.append(("reward == Phi(S') - Phi(S), Phi = explored non-mined squares",
                       vs(ts.reward) == (self._explored_safe(ns) - self._explored_safe(st)).astype(np.float32)))
        return ob

    def ref_step(self, st, act):
        R_, C_, M_ = self.dims()
        b, a = vs(st.board), vs(act)
        mine, adj = self._tables(st)
        legal = pick(self.mask_rule(st), a[0], a[1])
        hit = pick(mine, a[0], a[1])
        nb = put(b, (a[0], a[1]), pick(adj, a[0], a[1]))
        solved = all_([(nb[i] >= 0) | mine[i] for i in np.ndindex(R_, C_)])     # every non-mined square explored
        return {"board": nb, "step_count": vs(st.step_count) + 1, "flat_mine_locations": vs(st.flat_mine_locations), "key": vs(st.key),
                "reward": where(legal & ~hit, self.rw()[0], where(legal & hit, self.rw()[1], self.rw()[2], np.float32), np.float32),
                "last": (~legal) | hit | solved}

    def measure(self, st):
        R_, C_, M_ = self.dims()
        return count([x >= 0 for x in vs(st.board).reshape(-1)]), R_ * C_ - M_

    def observer(self, ns):
        R_, C_, M_ = self.dims()
        return {"board": vs(ns.board), "action_mask": self.mask_rule(ns), "num_mines": X.const(M_), "step_count": vs(ns.step_count)}

    # ------------------------------------------------------------------ kernel: count_adjacent_mines for ALL mine layouts / cells
    def kernels_c09(self, R):
        from jumanji.environments.logic.minesweeper import utils as U
        from jumanji.environments.logic.minesweeper.types import State
        from engine.jx2smt import Ctx
        R_, C_, M_ = self.dims()
        ctx = Ctx()
        board = ctx.fresh_arr("K.board", (R_, C_), np.int32, -1, 8)
        locs = ctx.fresh_arr("K.mines", (M_,), np.int32, 0, R_ * C_ - 1)     # not even required to be distinct
        key = ctx.fresh_arr("K.key", (2,), np.uint32)
        a, apre = S.sym_action(ctx, self.env, tag="K.a")
        st = State(board=board, step_count=SV(np.asarray(0, np.int32), np.int32), flat_mine_locations=locs, key=key)
        got = S.call(ctx, lambda s, x: U.count_adjacent_mines(state=s, action=x), st, a, R=R, name="count_adjacent_mines")
        hit = S.call(ctx, lambda s, x: U.explored_mine(state=s, action=x), st, a, R=R, name="explored_mine")
        A = apre + ctx.assumptions

        def oracle(st_, a_, got_, hit_):
            _, adj = self._tables(st_)
            av = vs(a_)
            return [("kernel count_adjacent_mines == number of mined squares among the 8 neighbours (all layouts, all cells)",
                     vs(got_) == pick(adj, av[0], av[1])),
                    ("kernel explored_mine == chosen cell is one of flat_mine_locations", vs(hit_).iff(self._hit(st_, a_)))]

        def replay_for(name):
            def replay(model):
                import jax
                import jax.numpy as jnp
                s_np, a_np = S.model_tree(model, st), S.model_sv(model, a)
                sj = jax.tree_util.tree_map(jnp.asarray, s_np)
                g = np.asarray(jax.jit(lambda s, x: U.count_adjacent_mines(state=s, action=x))(sj, jnp.asarray(a_np)))
                h = np.asarray(jax.jit(lambda s, x: U.explored_mine(state=s, action=x))(sj, jnp.asarray(a_np)))
                vals = dict(oracle(S.conc_tree(s_np), SV(np.asarray(a_np), a.dtype), SV(g, g.dtype), SV(h, h.dtype)))
                return (not bool(vals[name])), {"config": self.cfg, "mines": np.asarray(s_np.flat_mine_locations).tolist(),
                                                "action": np.asarray(a_np).tolist(), "count_adjacent_mines": g.tolist(), "explored_mine": h.tolist()}
            return replay
        R.reach("kernel inputs", A)
        for n_, v in oracle(st, a, got, hit):
            R.prove(n_, A, v.term() if not v.conc else bool(v), replay=replay_for(n_))


from jumanji.environments.logic.minesweeper.done import DoneFn as _DoneFn  # noqa: E402
from jumanji.environments.logic.minesweeper.utils import is_solved as _is_solved, is_valid_action as _is_valid_action  # noqa: E402


class MineTolerantDone(_DoneFn):
    """a user-supplied DoneFn (the constructor's `done_function` hook): the episode goes on after a mine was revealed and stops only on
    an invalid action or when the board is solved.  Step type follows it; a MID step must then still carry a non-zero discount."""

    def __call__(self, state, next_state, action):
        return ~_is_valid_action(state=state, action=action) | _is_solved(next_state)


MinesweeperH.C03_VARIANTS = [{"done_function": MineTolerantDone()}]
MinesweeperH.REWARD_VARIANTS = [{}, {"reward_function": MinesweeperH._custom_rewards()}]

#!/usr/bin/env python3
"""tools_confirm_groups.py <stage-root>   (e.g. /tmp/stage)
Confirms 'the existing test suite still passes' for many seeded changes at a time: changes that touch pairwise DISJOINT files are
applied together in one scratch worktree of /repo HEAD and the full suite runs once (pytest -n 12); a group that shows a new failure is
re-run change by change.  The demonstration of every change is run on the clean tree (must pass) and on a tree with that change alone
(must fail).  Writes <stage>/<id>/confirm.out in the format of tools_confirm_mutation.sh."""
import json, os, re, subprocess, sys, shutil

ROOT = sys.argv[1]
KNOWN = re.compile(r"sokoban/(env_test|generator_test)|registration_test.py::test_registration__make")


def sh(cmd, cwd=None, timeout=7200):
    return subprocess.run(cmd, shell=True, cwd=cwd, capture_output=True, text=True, timeout=timeout)


def files(d):
    return set(re.findall(r"^\+\+\+ b/(.*)$", open(os.path.join(d, "patch.diff")).read(), re.M))


def wt(name):
    p = f"/tmp/mut_confirm/{name}"
    sh(f"git -C /repo worktree remove --force {p}")
    os.makedirs("/tmp/mut_confirm", exist_ok=True)
    r = sh(f"git -C /repo worktree add -q --detach {p} HEAD")
    assert r.returncode == 0, r.stderr
    return p


def suite(p):
    r = sh("JAX_PLATFORMS=cpu /venv/bin/python -m pytest -q -p no:cacheprovider -n 12 --timeout=1800 -o addopts='' jumanji 2>&1 | tail -60", cwd=p)
    out = r.stdout
    new = [l for l in out.splitlines() if re.match(r"^(FAILED|ERROR) ", l) and not KNOWN.search(l)]
    summ = [l for l in out.splitlines() if " passed" in l or " failed" in l]
    return new, (summ[-1] if summ else "")


def demo(p, d):
    name = "demo.py" if os.path.exists(os.path.join(d, "demo.py")) else "demo_test.py"
    os.makedirs(os.path.join(p, "_mut/k"), exist_ok=True)
    shutil.copy(os.path.join(d, name), os.path.join(p, "_mut/k", name))
    cmd = f"PYTHONPATH={p} JAX_PLATFORMS=cpu timeout 900 /venv/bin/python " + ("-m pytest -q -p no:cacheprovider -x " if name.endswith("_test.py") else "") + f"_mut/k/{name}"
    return sh(cmd, cwd=p).returncode


def main():
    todo = [os.path.join(ROOT, d) for d in sorted(os.listdir(ROOT)) if os.path.exists(os.path.join(ROOT, d, "patch.diff"))
            and "CONFIRMED" not in (open(os.path.join(ROOT, d, "confirm.out")).read() if os.path.exists(os.path.join(ROOT, d, "confirm.out")) else "")]
    # demos: clean tree once per change, mutated tree per change
    clean = wt("clean")
    res = {}
    for d in todo:
        rc0 = demo(clean, d)
        m = wt("one")
        ok = sh(f"git -C {m} apply {d}/patch.diff").returncode == 0
        rc1 = demo(m, d) if ok else -1
        sh(f"git -C /repo worktree remove --force {m}")
        res[d] = {"clean": rc0, "mut": rc1, "applies": ok}
        print(os.path.basename(d), "demo clean", rc0, "mutated", rc1, flush=True)
    sh(f"git -C /repo worktree remove --force {clean}")
    # groups of file-disjoint changes
    groups = []
    for d in todo:
        for g in groups:
            if not (g["files"] & files(d)):
                g["files"] |= files(d)
                g["members"].append(d)
                break
        else:
            groups.append({"files": set(files(d)), "members": [d]})
    for gi, g in enumerate(groups):
        p = wt(f"group{gi}")
        for d in g["members"]:
            assert sh(f"git -C {p} apply {d}/patch.diff").returncode == 0, d
        new, summ = suite(p)
        sh(f"git -C /repo worktree remove --force {p}")
        print(f"group {gi}: {[os.path.basename(d) for d in g['members']]}: {summ}; new failures {new}", flush=True)
        if not new and "passed" in summ:
            for d in g["members"]:
                res[d]["suite"] = (summ, 0, f"suite run once for the file-disjoint group {[os.path.basename(x) for x in g['members']]} applied together")
        else:
            for d in g["members"]:
                p1 = wt("single")
                sh(f"git -C {p1} apply {d}/patch.diff")
                new1, summ1 = suite(p1)
                sh(f"git -C /repo worktree remove --force {p1}")
                res[d]["suite"] = (summ1, len(new1), "suite run with this change alone; new failures: " + "; ".join(new1[:4]))
                print("  single", os.path.basename(d), summ1, new1, flush=True)
    for d, r in res.items():
        summ, nf, how = r.get("suite", ("", -1, "not run"))
        ok = r["clean"] == 0 and r["mut"] not in (0, -1) and nf == 0 and "passed" in summ
        with open(os.path.join(d, "confirm.out"), "w") as f:
            f.write(f"demo clean rc={r['clean']}\ndemo mutated rc={r['mut']}\ntests: {summ} ; new failures: {nf}\nhow: {how}\n" + ("CONFIRMED\n" if ok else f"REJECTED clean={r['clean']} mutated={r['mut']} newfail={nf}\n"))
        print(os.path.basename(d), "CONFIRMED" if ok else "REJECTED")


main()

#!/bin/bash
# Build the overlay venv /verif/.venv = /venv's site-packages + z3-solver, crosshair-tool, cvc5
# from the offline wheelhouse. Idempotent, lock-protected (checks may call it concurrently).
set -e
HERE="$(cd "$(dirname "$0")" && pwd)"
V="$HERE/.venv"
STAMP="$V/.ok3"
[ -f "$STAMP" ] && exit 0
exec 9>"$HERE/.setup.lock"
flock 9
[ -f "$STAMP" ] && exit 0
rm -rf "$V"
/venv/bin/python -m venv "$V" >/dev/null
SP="$V/lib/python3.12/site-packages"
echo "import site; site.addsitedir('/venv/lib/python3.12/site-packages')" > "$SP/_base.pth"
PIP_NO_INDEX=1 "$V/bin/pip" install -q --no-index --find-links /opt/veriftools/wheels z3-solver crosshair-tool cvc5 jsonschema >/dev/null 2>&1 || \
PIP_NO_INDEX=1 "$V/bin/pip" install -q --no-index --find-links /opt/veriftools/wheels z3-solver
"$V/bin/python" -c "import z3, jax, sys; sys.path.insert(0,'/repo'); import jumanji" 
touch "$STAMP"

#!/bin/bash
# tools_rerun_seeded.sh <root> [id ...]  : runs every seeded change under <root> (default /verif/seeded) against the check of the property it
# was written for (job filter from the table below; "-" = the whole quick check) and writes <root>/<id>/try.out
ROOT="${1:-/verif/seeded}"; shift
declare -A ONLY=( [C01_1]=Maze [C01_2]=GraphColoring [C01_3]=Snake [C02_1]=PacMan [C02_2]=BinPack [C02_3]=constructor-arguments
 [C03_1]=Connector [C03_2]=PacMan [C03_3]=RobotWarehouse [C04_1]=Snake [C04_2]=CVRP [C04_3]=Tetris@5x4 [C05_1]=Maze [C05_2]=GraphColoring [C05_3]=Snake
 [C06_1]=MultiCVRP [C06_2]=MMST [C06_3]=Knapsack [C07_1]=RobotWarehouse [C07_2]=Tetris@5x4 [C07_3]=Snake [C08_1]=GraphColoring [C08_2]=TSP [C08_3]=Knapsack
 [C09_1]=Minesweeper [C09_2]=LevelBasedForaging [C09_3]=Snake [C10_1]=flatpack/ [C10_2]=RobotWarehouse [C10_3]=lbf-food [C11_1]=Tetris [C11_2]=Maze [C11_3]=MMST
 [C12_1]=LevelBasedForaging [C12_2]=RobotWarehouse [C12_3]=Tetris@5x4 [C13_1]=SlidingTilePuzzle [C13_2]=Minesweeper [C13_3]=LevelBasedForaging
 [C14_1]=TSP [C14_2]=truncation [C14_3]=Knapsack [C15_1]=/gym [C15_2]=LevelBasedForaging/T= [C15_3]=/spaces [C16_1]=Bounded [C16_2]=nested [C16_3]=conversions
 [C04_4]=Knapsack [C04_5]=RobotWarehouse [C04_6]=LevelBasedForaging [C05_4]=Cleaner [C05_5]=Tetris [C05_6]=RobotWarehouse [C06_4]=BinPack [C06_5]=Connector [C06_6]=FlatPack
 [C07_4]=Sokoban [C07_5]=Minesweeper [C07_6]=Connector [C08_4]=Minesweeper [C08_5]=SlidingTilePuzzle [C08_6]=BinPack [C09_4]=Sokoban [C09_5]=TSP [C09_6]=Cleaner
 [C10_4]=Maze [C10_5]=binpack-split [C10_6]=ubik [C12_4]=MMST [C12_5]=Snake [C12_6]=BinPack
 [C01_4]=player_step [C01_5]=BinPack@2x4x3x2x2x3 [C01_6]=struct-reward [C02_4]=Maze@toy [C02_5]=LevelBasedForaging [C02_6]=RubiksCube [C03_4]=Game2048 [C03_5]=LevelBasedForaging [C03_6]=TSP
 [C11_4]=N6V3 [C11_5]=SlidingTilePuzzle [C11_6]=PacMan [C13_4]=SlidingTilePuzzle [C13_5]=MultiToSingle [C13_6]=JobShop [C14_4]=Cleaner [C14_5]=TSP [C14_6]=Maze@3x3
 [C15_4]=Knapsack/dm_env [C15_5]=multi-to-single [C15_6]=TSP [C16_4]=conversions [C16_5]=conversions [C16_6]=conversions
 [C04_7]=mask-vs-movement [C04_8]=Maze [C04_9]=MMST@3 [C06_7]=MMST [C06_8]=BinPack [C06_9]=FlatPack [C07_7]=LevelBasedForaging@5x3x1 [C07_8]=PacMan [C07_9]=Snake
 [C09_7]=Tetris [C09_8]=Knapsack [C09_9]=GraphColoring [C12_7]=RobotWarehouse [C12_8]=CVRP [C12_9]=LevelBasedForaging [C17_4]=Rubik [C17_5]=reset-solvable [C17_6]=Rubik/n=4
 [C18_4]=registry [C18_5]=registry [C18_6]=shipped/RubiksCube [C19_4]=tree_utils [C19_5]=tree_utils [C19_6]=equality/mismatch
 [C17_1]=Rubik/n=4 [C17_2]=SlidingTilePuzzle@2 [C17_3]=env-solved [C18_1]=grammar [C18_2]=registry [C18_3]=shipped/Sudoku [C19_1]=tree_utils [C19_2]=tree_utils [C19_3]=equality )
HERE="$(cd "$(dirname "$0")" && pwd)"
IDS=("$@"); [ ${#IDS[@]} -eq 0 ] && IDS=($(ls "$ROOT"))
for id in "${IDS[@]}"; do
  d="$ROOT/$id"; [ -f "$d/patch.diff" ] || continue
  prop="${id%%_*}"; only="${ONLY[$id]:--}"
  if [ "$only" = "-" ]; then "$HERE/tools_try_mutation.sh" "$id" "$d/patch.diff" "$prop" > "$d/try.out" 2>&1
  else "$HERE/tools_try_mutation.sh" "$id" "$d/patch.diff" "$prop" -- --only "$only" > "$d/try.out" 2>&1; fi
  head -1 "$d/try.out" | cut -c1-110
done
